//! MemSys against RealSystem on random sequences of System calls (create, write, open/read, rename over
//! existing and missing files, rename into a missing directory, is_file/is_dir, list_dir, permissions,
//! modification times moving with a renamed file). What the model and every in-memory suite assume about
//! the file system is checked here against the real one instead of being taken on trust.
use crate::json::Json;
use crate::memsys::{ClockMode, MemSys};
use crate::rng::Rng;
use crate::suite::{Ctx, Out};
use crate::system::real::RealSystem;
use crate::system::System;
use std::io::{Read, Write};

fn outcome<T>(r : &Result<T, crate::system::SystemError>) -> &'static str { if r.is_ok() { "ok" } else { "err" } }

pub fn memsys_vs_real(ctx : &Ctx, out : &mut Out)
{
    let mut rng = Rng::new(ctx.seed).fork(999);
    let base = format!("/verif/work/run-selftest-{}", std::process::id());
    let _ = std::fs::remove_dir_all(&base);
    std::fs::create_dir_all(&base).expect("scratch dir");
    let old_cwd = std::env::current_dir().expect("cwd");
    let rounds = if ctx.thorough { 300 } else { 40 };
    for round in 0..rounds
    {
        let dir = format!("{}/r{}", base, round);
        std::fs::create_dir_all(&dir).expect("round dir");
        std::env::set_current_dir(&dir).expect("chdir");
        let mut real = RealSystem::new();
        let mut mem = MemSys::new(ClockMode::Fine, 1_000_000);
        let names = ["a", "b", "d", "d/x", "d/y", "e/z", "d/sub", "d/sub/q"];
        let mut log : Vec<String> = vec![];
        for _ in 0..(if ctx.thorough { 60 } else { 40 })
        {
            let p = *rng.pick(&names);
            let q = *rng.pick(&names);
            let step = match rng.below(9)
            {
                0 =>
                {
                    let data = rng.bytes_below(40);
                    let a = real.create_file(p).and_then(|mut f| { f.write_all(&data).map_err(|_| crate::system::SystemError::Weird) });
                    let b = mem.create_file(p).and_then(|mut f| { f.write_all(&data).map_err(|_| crate::system::SystemError::Weird) });
                    (format!("create+write {} ({} bytes)", p, data.len()), outcome(&a).to_string(), outcome(&b).to_string())
                },
                1 => { let a = real.create_dir(p); let b = mem.create_dir(p); (format!("create_dir {}", p), outcome(&a).to_string(), outcome(&b).to_string()) },
                2 =>
                {
                    // renaming a directory over a non-empty directory etc. is outside what ruler does: files only
                    if real.is_dir(p) || real.is_dir(q) { continue; }
                    let a = real.rename(p, q); let b = mem.rename(p, q);
                    (format!("rename {} {}", p, q), outcome(&a).to_string(), outcome(&b).to_string())
                },
                3 => (format!("is_file {}", p), real.is_file(p).to_string(), mem.is_file(p).to_string()),
                4 => (format!("is_dir {}", p), real.is_dir(p).to_string(), mem.is_dir(p).to_string()),
                5 =>
                {
                    let read = |r : Result<Box<dyn Read>, crate::system::SystemError>| -> String { match r { Ok(mut f) => { let mut v = vec![]; match f.read_to_end(&mut v) { Ok(_) => format!("{:?}", v), Err(_) => "read-error".to_string() } }, Err(_) => "err".to_string() } };
                    let a = read(real.open(p).map(|f| Box::new(f) as Box<dyn Read>));
                    let b = read(mem.open(p).map(|f| Box::new(f) as Box<dyn Read>));
                    // opening a directory "succeeds" on Linux and fails on read; MemSys refuses the open: both are failures
                    let norm = |s : String| if s == "read-error" { "err".to_string() } else { s };
                    (format!("open+read {}", p), norm(a), norm(b))
                },
                6 =>
                {
                    let x = rng.chance(1, 2);
                    if real.is_dir(p) { continue; }
                    let a = real.set_is_executable(p, x); let b = mem.set_is_executable(p, x);
                    (format!("set_is_executable {} {}", p, x), outcome(&a).to_string(), outcome(&b).to_string())
                },
                7 =>
                {
                    if real.is_dir(p) { continue; }
                    let a = real.is_executable(p).map(|x| x.to_string()).unwrap_or("err".to_string());
                    let b = mem.is_executable(p).map(|x| x.to_string()).unwrap_or("err".to_string());
                    (format!("is_executable {}", p), a, b)
                },
                _ =>
                {
                    let a = real.list_dir(p).map(|v| format!("{:?}", v)).unwrap_or("err".to_string());
                    let b = mem.list_dir(p).map(|v| format!("{:?}", v)).unwrap_or("err".to_string());
                    (format!("list_dir {}", p), a, b)
                },
            };
            log.push(format!("{} -> real {} / mem {}", step.0, step.1, step.2));
            out.count(step.0.split(' ').next().unwrap_or("?"));
            if step.1 != step.2
            {
                let mut j = Json::obj();
                j.set("sequence", Json::Arr(log.iter().map(|l| Json::s(l)).collect()));
                out.violation("ANY:memsys-differs-from-real-file-system", format!("{}: the real file system answers {}, MemSys {}", step.0, step.1, step.2), j);
                break;
            }
            std::thread::sleep(std::time::Duration::from_micros(1100));
        }
        // modification time moves with a renamed file and changes with a rewrite, on both
        {
            let _ = real.create_file("m1").and_then(|mut f| f.write_all(b"1").map_err(|_| crate::system::SystemError::Weird));
            let _ = mem.create_file("m1").and_then(|mut f| f.write_all(b"1").map_err(|_| crate::system::SystemError::Weird));
            let (ra, ma) = (real.get_modified("m1").ok(), mem.get_modified("m1").ok());
            let _ = real.rename("m1", "m2"); let _ = mem.rename("m1", "m2");
            let (rb, mb) = (real.get_modified("m2").ok(), mem.get_modified("m2").ok());
            if (ra == rb) != (ma == mb) { out.violation("ANY:memsys-differs-from-real-file-system", "mtime behaviour under rename differs".to_string(), Json::s("rename mtime")); }
            std::thread::sleep(std::time::Duration::from_millis(3));
            let _ = real.create_file("m2").and_then(|mut f| f.write_all(b"2").map_err(|_| crate::system::SystemError::Weird));
            let _ = mem.create_file("m2").and_then(|mut f| f.write_all(b"2").map_err(|_| crate::system::SystemError::Weird));
            let (rc, mc) = (real.get_modified("m2").ok(), mem.get_modified("m2").ok());
            if (rb == rc) != (mb == mc) { out.violation("ANY:memsys-differs-from-real-file-system", "mtime behaviour under rewrite differs".to_string(), Json::s("rewrite mtime")); }
        }
        out.nontrivial += 1;
        out.extra_evaluations += 1;
        std::env::set_current_dir(&old_cwd).expect("chdir back");
    }
    let _ = std::fs::remove_dir_all(&base);
    out.extra.set("rounds", Json::i(rounds));
}
