//! C16: saved state round-trips exactly and damaged state is rejected, not misread.
use crate::blob::{FileState, FileStateVec};
use crate::current::CurrentFileStates;
use crate::history::{History, RuleHistory};
use crate::json::Json;
use crate::memsys::{ClockMode, MemSys};
use crate::rng::Rng;
use crate::sexp;
use crate::suite::{Ctx, Out};
use crate::suites::c15::{ticket_bytes, ticket_from_bytes};
use crate::ticket::Ticket;

type FsTuple = (Vec<u8>, u64, bool);

thread_local! { static IN_FLIGHT : std::cell::RefCell<Option<(String, String)>> = std::cell::RefCell::new(None); }
fn set_in_flight_target(dir : &str, suite : &str) { IN_FLIGHT.with(|c| *c.borrow_mut() = Some((dir.to_string(), suite.to_string()))); }
fn mark(what : &str, input : &[u8]) { IN_FLIGHT.with(|c| if let Some((d, s)) = &*c.borrow() { crate::suite::in_flight(d, s, what, input); }); }
fn unmark() { IN_FLIGHT.with(|c| if let Some((d, s)) = &*c.borrow() { crate::suite::clear_in_flight(d, s); }); }

fn catch<R>(f : impl FnOnce() -> R) -> Result<R, String>
{
    std::panic::catch_unwind(std::panic::AssertUnwindSafe(f)).map_err(|p| crate::verif_sched::panic_message(&p))
}

// ---------- independent encoder / decoder of the documented format (harness side) ----------

fn enc_u64(v : u64, out : &mut Vec<u8>) { out.extend_from_slice(&v.to_le_bytes()); }
fn enc_fs(s : &FsTuple, out : &mut Vec<u8>)
{
    out.extend_from_slice(&s.0);
    enc_u64(s.1, out);
    out.push(if s.2 { 1 } else { 0 });
}
pub fn enc_history(entries : &[(Vec<u8>, Vec<FsTuple>)]) -> Vec<u8>
{
    let mut out = vec![];
    enc_u64(entries.len() as u64, &mut out);
    for (k, v) in entries
    {
        out.extend_from_slice(k);
        enc_u64(v.len() as u64, &mut out);
        for s in v { enc_fs(s, &mut out); }
    }
    out
}
pub fn enc_table(entries : &[(Vec<u8>, FsTuple)]) -> Vec<u8>
{
    let mut out = vec![];
    enc_u64(entries.len() as u64, &mut out);
    for (k, s) in entries
    {
        enc_u64(k.len() as u64, &mut out);
        out.extend_from_slice(k);
        enc_fs(s, &mut out);
    }
    out
}

struct Cursor<'a> { b : &'a [u8], pos : usize }
impl<'a> Cursor<'a>
{
    fn take(&mut self, n : usize) -> Option<&'a [u8]>
    {
        if self.b.len() - self.pos < n { return None; }
        let s = &self.b[self.pos..self.pos + n];
        self.pos += n;
        Some(s)
    }
    fn u64(&mut self) -> Option<u64>
    {
        let s = self.take(8)?;
        let mut a = [0u8; 8];
        a.copy_from_slice(s);
        Some(u64::from_le_bytes(a))
    }
    fn fs(&mut self) -> Option<FsTuple>
    {
        let t = self.take(32)?.to_vec();
        let ts = self.u64()?;
        let e = match self.take(1)?[0] { 0 => false, 1 => true, _ => return None };
        Some((t, ts, e))
    }
}
pub fn dec_history(b : &[u8]) -> Option<Vec<(Vec<u8>, Vec<FsTuple>)>>
{
    let mut c = Cursor{b : b, pos : 0};
    let n = c.u64()?;
    let mut out = vec![];
    for _ in 0..n
    {
        let k = c.take(32)?.to_vec();
        let m = c.u64()?;
        let mut v = vec![];
        for _ in 0..m { v.push(c.fs()?); }
        out.push((k, v));
    }
    Some(out)
}
pub fn dec_table(b : &[u8]) -> Option<Vec<(Vec<u8>, FsTuple)>>
{
    let mut c = Cursor{b : b, pos : 0};
    let n = c.u64()?;
    let mut out = vec![];
    for _ in 0..n
    {
        let len = c.u64()?;
        if len > (b.len() as u64) { return None; }
        let k = c.take(len as usize)?.to_vec();
        if std::str::from_utf8(&k).is_err() { return None; }
        out.push((k, c.fs()?));
    }
    Some(out)
}

fn show_fs(s : &FsTuple) -> String
{
    sexp::paren(&[sexp::hex(&s.0), sexp::num64(s.1), sexp::boolean(s.2)])
}

/// the finite map: later duplicates win, sorted by key
fn canon<V : Clone>(entries : &[(Vec<u8>, V)]) -> Vec<(Vec<u8>, V)>
{
    let mut m = std::collections::BTreeMap::new();
    for (k, v) in entries { m.insert(k.clone(), v.clone()); }
    m.into_iter().collect()
}

pub fn show_history(entries : &[(Vec<u8>, Vec<FsTuple>)]) -> String
{
    sexp::list(canon(entries).iter().map(|(k, v)| sexp::paren(&[sexp::hex(k), sexp::list(v.iter().map(show_fs).collect())])).collect())
}
pub fn show_table(entries : &[(Vec<u8>, FsTuple)]) -> String
{
    sexp::list(canon(entries).iter().map(|(k, s)| sexp::paren(&[sexp::hex(k), show_fs(s)])).collect())
}

fn fs_to_state(s : &FsTuple) -> FileState
{
    let mut a = [0u8; 32];
    a.copy_from_slice(&s.0);
    FileState{ticket : ticket_from_bytes(&a), timestamp : s.1, executable : s.2}
}

fn ticket32(rng : &mut Rng) -> Vec<u8> { rng.bytes(32) }

fn to_ticket(b : &[u8]) -> Ticket
{
    let mut a = [0u8; 32];
    a.copy_from_slice(b);
    ticket_from_bytes(&a)
}

// ---------- implementation runners ----------

fn new_sys() -> MemSys
{
    let sys = MemSys::new(ClockMode::Fine, 1_000_000);
    sys.user_write("hist/.keep", b"");
    sys.user_write("dir/.keep", b"");
    sys
}

/// read a history file holding `bytes` through ruler; canonical result
fn impl_read_history(bytes : &[u8]) -> Result<(String, Option<RuleHistory>), String>
{
    let sys = new_sys();
    let rule_ticket = to_ticket(&[7u8; 32]);
    sys.user_write(&format!("hist/{}", rule_ticket.human_readable()), bytes);
    let history = History::new(sys.clone(), "hist");
    mark("History::read_rule_history on a history file with these bytes", bytes);
    let read = catch(|| history.read_rule_history(&rule_ticket));
    unmark();
    match read
    {
        Err(m) => Err(m),
        Ok(Err(_)) => Ok(("(err)".to_string(), None)),
        Ok(Ok(h)) =>
        {
            let again = bincode::serialize(&h).expect("reserialise");
            match dec_history(&again)
            {
                Some(entries) => Ok((sexp::paren(&["ok".to_string(), show_history(&entries)]), Some(h))),
                None => Ok(("(ok unreadable-reserialisation)".to_string(), Some(h))),
            }
        },
    }
}

fn impl_read_table(bytes : &[u8]) -> Result<String, String>
{
    let sys = new_sys();
    sys.user_write("dir/current_file_states", bytes);
    mark("CurrentFileStates::from_file on a current_file_states file with these bytes", bytes);
    let read = catch(|| CurrentFileStates::from_file(sys.clone(), "dir/current_file_states".to_string()));
    unmark();
    match read
    {
        Err(m) => Err(m),
        Ok(Err(_)) => Ok("(err)".to_string()),
        Ok(Ok(mut table)) =>
        {
            // observe the whole table by letting ruler write it again
            sys.user_remove("dir/current_file_states");
            if table.to_file().is_err() { return Ok("(ok rewrite-failed)".to_string()); }
            let again = sys.read("dir/current_file_states").unwrap_or(vec![]);
            match dec_table(&again)
            {
                Some(entries) => Ok(sexp::paren(&["ok".to_string(), show_table(&entries)])),
                None => Ok("(ok unreadable-reserialisation)".to_string()),
            }
        },
    }
}

fn gen_fs(rng : &mut Rng, plain : bool) -> FsTuple
{
    if plain { (ticket32(rng), 0, false) }
    else
    {
        let ts = match rng.below(4) { 0 => 0, 1 => u64::MAX, 2 => rng.next_u64(), _ => 1_600_000_000_000_000 + rng.next_u64() % 1_000_000_000 };
        (ticket32(rng), ts, rng.chance(1, 2))
    }
}

fn gen_path(rng : &mut Rng) -> Vec<u8>
{
    let parts = ["a", "b", "out", "src/main.c", "dir with space/x", "é", "日本/語.txt", "", "x\ny", "long-long-long-long-long-long-long-long-long-name.o"];
    let mut s = String::new();
    for i in 0..rng.range(1, 3)
    {
        if i > 0 { s.push('/'); }
        s.push_str(*rng.pick(&parts[..]));
    }
    if rng.chance(1, 3) { s.push_str(&format!("{}", rng.below(1000))); }
    s.into_bytes()
}

pub fn history(ctx : &Ctx, out : &mut Out)
{
    set_in_flight_target(&ctx.out_dir, "c16_history");
    let mut rng = Rng::new(ctx.seed).fork(16);
    let instances = if ctx.thorough { 3000 } else { 250 };
    let mut damaged = 0usize;
    for inst in 0..instances
    {
        let small = inst % 3 == 0;
        let n_entries = if small { rng.below(3) } else { rng.below(51) };
        let plain = inst % 2 == 0;
        let mut entries : Vec<(Vec<u8>, Vec<FsTuple>)> = vec![];
        for _ in 0..n_entries
        {
            let n_targets = if rng.chance(1, 12) { 0 } else { rng.range(1, if small { 3 } else { 8 }) };
            entries.push((ticket32(&mut rng), (0..n_targets).map(|_| gen_fs(&mut rng, plain)).collect()));
        }

        // ---- write through ruler ----
        let sys = new_sys();
        let rule_ticket = to_ticket(&ticket32(&mut rng));
        let mut h = RuleHistory::new();
        for (k, v) in entries.iter()
        {
            let vec : FileStateVec =
                if plain { FileStateVec::from_ticket_vec(v.iter().map(|s| to_ticket(&s.0)).collect()) }
                else
                {
                    let mut raw = vec![];
                    enc_u64(v.len() as u64, &mut raw);
                    for s in v { enc_fs(s, &mut raw); }
                    bincode::deserialize(&raw).expect("FileStateVec from documented layout")
                };
            let _ = h.insert(to_ticket(k), vec);
        }
        let mut writer = History::new(sys.clone(), "hist");
        match catch(|| writer.write_rule_history(rule_ticket.clone(), h.clone()))
        {
            Ok(Ok(())) => {},
            other =>
            {
                out.violation("C16:history-write-failed", format!("write_rule_history failed or panicked on {} entries", n_entries), Json::i(inst));
                continue;
            },
        }
        let bytes = sys.read(&format!("hist/{}", rule_ticket.human_readable())).unwrap_or(vec![]);
        out.count("history:written");
        // writer vs model reader: the model must decode ruler's bytes to exactly what was recorded
        out.case(sexp::paren(&["de_history".to_string(), sexp::hex(&bytes)]),
                 sexp::paren(&["ok".to_string(), show_history(&entries)]), n_entries > 0);

        // ---- monitor: read back identically by the next invocation ----
        let reader = History::new(sys.clone(), "hist");
        match catch(|| reader.read_rule_history(&rule_ticket))
        {
            Ok(Ok(back)) =>
            {
                if back != h
                {
                    out.violation("C16:history-roundtrip", format!("a history of {} entries is not read back identically", n_entries), Json::s(&sexp::hex(&bytes)));
                }
                for (k, v) in canon(&entries).iter()
                {
                    let got = back.get_file_state_vec(&to_ticket(k)).map(|fsv| bincode::serialize(fsv).unwrap());
                    let mut want = vec![];
                    enc_u64(v.len() as u64, &mut want);
                    for s in v { enc_fs(s, &mut want); }
                    if got != Some(want)
                    {
                        out.violation("C16:history-roundtrip", "an entry read back differs from what was recorded".to_string(), Json::s(&sexp::hex(&bytes)));
                        break;
                    }
                }
            },
            Ok(Err(e)) => out.violation("C16:history-roundtrip", format!("a freshly written history is rejected: {}", e), Json::s(&sexp::hex(&bytes))),
            Err(m) => out.violation("C16:history-read-panic", format!("read_rule_history panicked: {}", m), Json::s(&sexp::hex(&bytes))),
        }

        // ---- reader on damaged variants ----
        let mut variants : Vec<(&str, Vec<u8>)> = vec![];
        let mut with_tail = bytes.clone();
        with_tail.extend_from_slice(&rng.bytes_range(1, 20));
        variants.push(("trailing", with_tail));
        if small || inst % 10 == 1
        {
            let step = if bytes.len() <= 400 { 1 } else { 1 + bytes.len() / 200 };
            let mut cut = 0;
            while cut < bytes.len() { variants.push(("prefix", bytes[..cut].to_vec())); cut += step; }
            if bytes.len() > 0 { variants.push(("prefix", bytes[..bytes.len() - 1].to_vec())); }
        }
        else
        {
            for _ in 0..4 { variants.push(("prefix", bytes[..rng.below(bytes.len().max(1))].to_vec())); }
        }
        if bytes.len() <= 180
        {
            for pos in 0..bytes.len() { for bit in 0..8 { let mut b = bytes.clone(); b[pos] ^= 1 << bit; variants.push(("bitflip", b)); } }
        }
        else
        {
            for _ in 0..12 { let mut b = bytes.clone(); let pos = rng.below(b.len()); b[pos] ^= 1 << rng.below(8); variants.push(("bitflip", b)); }
        }
        // duplicate key: the later entry wins
        if n_entries >= 1 && inst % 4 == 0
        {
            let mut dup = entries.clone();
            let k = dup[0].0.clone();
            dup.push((k, vec![gen_fs(&mut rng, false)]));
            variants.push(("duplicate-key", enc_history(&dup)));
        }
        // encoder of the documented format -> ruler's reader
        variants.push(("reference-encoding", enc_history(&entries)));

        for (kind, v) in variants
        {
            damaged += 1;
            let (shown, parsed) = match impl_read_history(&v)
            {
                Ok(pair) => pair,
                Err(m) =>
                {
                    out.case(sexp::paren(&["de_history".to_string(), sexp::hex(&v)]), "(panic)".to_string(), true);
                    out.violation("C16:history-read-panic", format!("read_rule_history panicked on a {} input: {}", kind, m), Json::s(&sexp::hex(&v)));
                    continue;
                },
            };
            out.count(&format!("history:{}:{}", kind, if parsed.is_some() { "accepted" } else { "rejected" }));
            out.case(sexp::paren(&["de_history".to_string(), sexp::hex(&v)]), shown, true);
            match kind
            {
                "prefix" => if parsed.is_some()
                {
                    out.violation("C16:prefix-accepted", format!("a strict prefix ({} of {} bytes) of a valid history file is accepted", v.len(), bytes.len()), Json::s(&sexp::hex(&v)));
                },
                "bitflip" => if let Some(p) = parsed
                {
                    if p == h
                    {
                        out.violation("C16:bitflip-misread", "a history file with one flipped bit is read as the original data".to_string(), Json::s(&sexp::hex(&v)));
                    }
                },
                "trailing" | "reference-encoding" => match parsed
                {
                    Some(p) => if p != h { out.violation("C16:history-roundtrip", format!("{} variant decodes to different data", kind), Json::s(&sexp::hex(&v))); },
                    None => out.violation("C16:history-roundtrip", format!("{} variant of a valid file is rejected", kind), Json::s(&sexp::hex(&v))),
                },
                _ => {},
            }
        }
    }

    // random byte strings and hostile length fields
    let n_random = if ctx.thorough { 60000 } else { 4000 };
    for i in 0..n_random
    {
        let mut v = match i % 5
        {
            0 => rng.bytes_below(120),
            1 => { let mut b = vec![]; enc_u64(rng.below(4) as u64, &mut b); b.extend(rng.bytes_below(200)); b },
            2 => { let mut b = vec![]; enc_u64(u64::MAX - rng.below(3) as u64, &mut b); b.extend(rng.bytes_below(100)); b },
            3 => { let mut b = vec![]; enc_u64(1, &mut b); b.extend(rng.bytes(32)); enc_u64(if rng.chance(1, 2) { u64::MAX } else { 1 << rng.below(63) }, &mut b); b.extend(rng.bytes_below(100)); b },
            _ => { let mut b = vec![]; enc_u64(1, &mut b); b.extend(rng.bytes(32)); enc_u64(1, &mut b); b.extend(rng.bytes(40)); b.push(rng.below(4) as u8); b },
        };
        if i % 7 == 0 { v.truncate(rng.below(v.len().max(1))); }
        match impl_read_history(&v)
        {
            Ok((shown, parsed)) =>
            {
                out.count(if parsed.is_some() { "history:random:accepted" } else { "history:random:rejected" });
                out.case(sexp::paren(&["de_history".to_string(), sexp::hex(&v)]), shown, !v.is_empty());
            },
            Err(m) =>
            {
                out.case(sexp::paren(&["de_history".to_string(), sexp::hex(&v)]), "(panic)".to_string(), true);
                out.violation("C16:history-read-panic", format!("read_rule_history panicked on random bytes: {}", m), Json::s(&sexp::hex(&v)));
            },
        }
    }
    out.extra.set("damaged_variants", Json::i(damaged));
}

pub fn table(ctx : &Ctx, out : &mut Out)
{
    set_in_flight_target(&ctx.out_dir, "c16_table");
    let mut rng = Rng::new(ctx.seed).fork(1616);
    let instances = if ctx.thorough { 3000 } else { 250 };
    for inst in 0..instances
    {
        let small = inst % 3 == 0;
        let n_entries = if small { rng.below(3) } else { rng.below(51) };
        let mut entries : Vec<(Vec<u8>, FsTuple)> = vec![];
        let mut seen = std::collections::BTreeSet::new();
        for _ in 0..n_entries
        {
            let p = gen_path(&mut rng);
            if seen.insert(p.clone()) { entries.push((p, gen_fs(&mut rng, false))); }
        }
        let sys = new_sys();
        let path = "dir/current_file_states".to_string();
        let mut table = match catch(|| CurrentFileStates::from_file(sys.clone(), path.clone()))
        {
            Ok(Ok(t)) => t,
            _ => { out.violation("C16:table-create-failed", "creating an empty file-state table failed".to_string(), Json::i(inst)); continue; },
        };
        for (k, s) in entries.iter()
        {
            table.insert_file_state(String::from_utf8(k.clone()).unwrap(), fs_to_state(s));
        }
        match catch(|| table.to_file())
        {
            Ok(Ok(())) => {},
            _ => { out.violation("C16:table-write-failed", "writing the file-state table failed or panicked".to_string(), Json::i(inst)); continue; },
        }
        let bytes = sys.read(&path).unwrap_or(vec![]);
        out.count("table:written");
        out.case(sexp::paren(&["de_table".to_string(), sexp::hex(&bytes)]),
                 sexp::paren(&["ok".to_string(), show_table(&entries)]), entries.len() > 0);

        // monitor: the next invocation reads exactly what was recorded
        match catch(|| CurrentFileStates::from_file(sys.clone(), path.clone()))
        {
            Ok(Ok(mut back)) =>
            {
                let paths : Vec<String> = entries.iter().map(|(k, _)| String::from_utf8(k.clone()).unwrap()).collect();
                let blob = back.take_blob(paths);
                for (info, (k, s)) in blob.get_file_infos().iter().zip(entries.iter())
                {
                    if info.file_state != fs_to_state(s) || info.path.as_bytes() != &k[..]
                    {
                        out.violation("C16:table-roundtrip", "a file state read back differs from what was recorded".to_string(), Json::s(&sexp::hex(&bytes)));
                        break;
                    }
                }
                // nothing else must be in it
                sys.user_remove(&path);
                let _ = back.to_file();
                if dec_table(&sys.read(&path).unwrap_or(vec![0])).map(|v| v.len()) != Some(0)
                {
                    out.violation("C16:table-roundtrip", "the table read back holds entries that were not recorded".to_string(), Json::s(&sexp::hex(&bytes)));
                }
            },
            Ok(Err(e)) => out.violation("C16:table-roundtrip", format!("a freshly written table is rejected: {}", e), Json::s(&sexp::hex(&bytes))),
            Err(m) => out.violation("C16:table-read-panic", format!("reading the table panicked: {}", m), Json::s(&sexp::hex(&bytes))),
        }

        let mut variants : Vec<(&str, Vec<u8>)> = vec![];
        let mut with_tail = bytes.clone();
        with_tail.extend_from_slice(&rng.bytes_range(1, 20));
        variants.push(("trailing", with_tail));
        if small || inst % 10 == 1
        {
            let step = if bytes.len() <= 400 { 1 } else { 1 + bytes.len() / 200 };
            let mut cut = 0;
            while cut < bytes.len() { variants.push(("prefix", bytes[..cut].to_vec())); cut += step; }
            if bytes.len() > 0 { variants.push(("prefix", bytes[..bytes.len() - 1].to_vec())); }
        }
        else
        {
            for _ in 0..4 { variants.push(("prefix", bytes[..rng.below(bytes.len().max(1))].to_vec())); }
        }
        if bytes.len() <= 150
        {
            for pos in 0..bytes.len() { for bit in 0..8 { let mut b = bytes.clone(); b[pos] ^= 1 << bit; variants.push(("bitflip", b)); } }
        }
        else
        {
            for _ in 0..12 { let mut b = bytes.clone(); let pos = rng.below(b.len()); b[pos] ^= 1 << rng.below(8); variants.push(("bitflip", b)); }
        }
        if entries.len() >= 1 && inst % 4 == 0
        {
            let mut dup = entries.clone();
            let k = dup[0].0.clone();
            dup.push((k, gen_fs(&mut rng, false)));
            variants.push(("duplicate-key", enc_table(&dup)));
        }
        variants.push(("reference-encoding", enc_table(&entries)));
        // a path that is not UTF-8
        if inst % 5 == 0
        {
            let mut bad = entries.clone();
            bad.push((vec![0x61, 0xff, 0x62], gen_fs(&mut rng, false)));
            variants.push(("non-utf8-path", enc_table(&bad)));
            let mut bad2 = entries.clone();
            bad2.push((vec![0xed, 0xa0, 0x80], gen_fs(&mut rng, false)));
            variants.push(("non-utf8-path", enc_table(&bad2)));
            let mut ok2 = entries.clone();
            ok2.push((vec![0xf0, 0x9f, 0x98, 0x80, 0xc3, 0xa9], gen_fs(&mut rng, false)));
            variants.push(("utf8-4byte-path", enc_table(&ok2)));
        }

        let original = sexp::paren(&["ok".to_string(), show_table(&entries)]);
        for (kind, v) in variants
        {
            let shown = match impl_read_table(&v)
            {
                Ok(s) => s,
                Err(m) =>
                {
                    out.case(sexp::paren(&["de_table".to_string(), sexp::hex(&v)]), "(panic)".to_string(), true);
                    out.violation("C16:table-read-panic", format!("reading the table panicked on a {} input: {}", kind, m), Json::s(&sexp::hex(&v)));
                    continue;
                },
            };
            let accepted = shown != "(err)";
            out.count(&format!("table:{}:{}", kind, if accepted { "accepted" } else { "rejected" }));
            out.case(sexp::paren(&["de_table".to_string(), sexp::hex(&v)]), shown.clone(), true);
            match kind
            {
                "prefix" => if accepted
                {
                    out.violation("C16:prefix-accepted", format!("a strict prefix ({} of {} bytes) of a valid file-state table is accepted", v.len(), bytes.len()), Json::s(&sexp::hex(&v)));
                },
                "bitflip" => if shown == original
                {
                    out.violation("C16:bitflip-misread", "a table with one flipped bit is read as the original data".to_string(), Json::s(&sexp::hex(&v)));
                },
                "trailing" | "reference-encoding" => if shown != original
                {
                    out.violation("C16:table-roundtrip", format!("{} variant of a valid table is not read as the recorded data", kind), Json::s(&sexp::hex(&v)));
                },
                "non-utf8-path" => if accepted
                {
                    out.violation("C16:table-accepts-non-utf8", "a table with a non-UTF-8 path is accepted".to_string(), Json::s(&sexp::hex(&v)));
                },
                _ => {},
            }
        }
    }

    let n_random = if ctx.thorough { 60000 } else { 4000 };
    for i in 0..n_random
    {
        let mut v = match i % 4
        {
            0 => rng.bytes_below(120),
            1 => { let mut b = vec![]; enc_u64(rng.below(4) as u64, &mut b); b.extend(rng.bytes_below(200)); b },
            2 => { let mut b = vec![]; enc_u64(1, &mut b); enc_u64(if rng.chance(1, 2) { u64::MAX - rng.below(2) as u64 } else { rng.below(300) as u64 }, &mut b); b.extend(rng.bytes_below(100)); b },
            _ => { let mut b = vec![]; enc_u64(1, &mut b); let k = rng.bytes_below(6); enc_u64(k.len() as u64, &mut b); b.extend(k); b.extend(rng.bytes(40)); b.push(rng.below(3) as u8); b },
        };
        if i % 7 == 0 { v.truncate(rng.below(v.len().max(1))); }
        match impl_read_table(&v)
        {
            Ok(shown) =>
            {
                out.count(if shown != "(err)" { "table:random:accepted" } else { "table:random:rejected" });
                out.case(sexp::paren(&["de_table".to_string(), sexp::hex(&v)]), shown, !v.is_empty());
            },
            Err(m) =>
            {
                out.case(sexp::paren(&["de_table".to_string(), sexp::hex(&v)]), "(panic)".to_string(), true);
                out.violation("C16:table-read-panic", format!("reading the table panicked on random bytes: {}", m), Json::s(&sexp::hex(&v)));
            },
        }
    }
}
