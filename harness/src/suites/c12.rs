//! C12: dependency sorting accepts exactly the valid graphs and orders them correctly.
use crate::json::Json;
use crate::rng::Rng;
use crate::rule::Rule;
use crate::sexp;
use crate::sort::{topological_sort, topological_sort_all, Node, NodePack, SourceIndex, TopologicalSortError};
use crate::suite::{Ctx, Out};
use crate::suites::c14::show_rule;
use std::collections::{BTreeMap, BTreeSet};

fn catch<R>(f : impl FnOnce() -> R) -> Result<R, String>
{
    std::panic::catch_unwind(std::panic::AssertUnwindSafe(f)).map_err(|p| crate::verif_sched::panic_message(&p))
}

fn show_result(r : &Result<NodePack, TopologicalSortError>) -> String
{
    match r
    {
        Ok(pack) => sexp::ok(sexp::paren(&[
            "pack".to_string(),
            sexp::strs(&pack.leaves),
            sexp::list(pack.nodes.iter().map(|n| sexp::paren(&[
                "node".to_string(),
                sexp::strs(&n.targets),
                sexp::list(n.source_indices.iter().map(|s| match s
                {
                    SourceIndex::Leaf(i) => sexp::paren(&["Leaf".to_string(), sexp::num(*i)]),
                    SourceIndex::Pair(a, b) => sexp::paren(&["Pair".to_string(), sexp::num(*a), sexp::num(*b)]),
                }).collect()),
                sexp::strs(&n.command),
            ])).collect()),
        ])),
        Err(e) => sexp::err(match e
        {
            TopologicalSortError::TargetMissing(t) => sexp::paren(&["TargetMissing".to_string(), sexp::hex(t.as_bytes())]),
            TopologicalSortError::SelfDependentRule(t) => sexp::paren(&["SelfDependentRule".to_string(), sexp::hex(t.as_bytes())]),
            TopologicalSortError::CircularDependence(c) => sexp::paren(&["CircularDependence".to_string(), sexp::strs(c)]),
            TopologicalSortError::TargetInMultipleRules(t) => sexp::paren(&["TargetInMultipleRules".to_string(), sexp::hex(t.as_bytes())]),
        }),
    }
}

/// What the property says must happen, computed independently of ruler (plain reachability).
#[derive(Debug, PartialEq)]
enum Expect
{
    DuplicateTarget,
    GoalMissing,
    Cycle,          // a dependency cycle (possibly a self-dependence) is reachable
    Plan(BTreeSet<usize>),  // indices (into `rules`) of exactly the rules that must be in the plan
}

fn expectation(rules : &[Rule], goal : Option<&str>) -> Expect
{
    let mut owner : BTreeMap<&str, usize> = BTreeMap::new();
    for (i, r) in rules.iter().enumerate()
    {
        for t in r.targets.iter()
        {
            if owner.insert(t.as_str(), i).is_some() { return Expect::DuplicateTarget; }
        }
    }
    let roots : Vec<usize> = match goal
    {
        Some(g) => match owner.get(g) { Some(i) => vec![*i], None => return Expect::GoalMissing },
        None => (0..rules.len()).collect(),
    };
    // reachable set
    let deps = |i : usize| -> Vec<usize> { rules[i].sources.iter().filter_map(|s| owner.get(s.as_str()).cloned()).collect() };
    let mut reach : BTreeSet<usize> = BTreeSet::new();
    let mut work = roots.clone();
    while let Some(i) = work.pop()
    {
        if reach.insert(i) { work.extend(deps(i)); }
    }
    // cycle among reachable rules: repeatedly remove rules all of whose deps are removed
    let mut remaining = reach.clone();
    loop
    {
        let removable : Vec<usize> = remaining.iter().cloned().filter(|i| deps(*i).iter().all(|d| !remaining.contains(d))).collect();
        if removable.is_empty() { break; }
        for i in removable { remaining.remove(&i); }
    }
    if !remaining.is_empty() { return Expect::Cycle; }
    Expect::Plan(reach)
}

fn check_plan(rules : &[Rule], plan_set : &BTreeSet<usize>, pack : &NodePack) -> Result<(), String>
{
    let sorted = |v : &Vec<String>| { let mut w = v.clone(); w.sort(); w };
    let mut owner : BTreeMap<&str, usize> = BTreeMap::new();
    for (i, r) in rules.iter().enumerate() { for t in r.targets.iter() { owner.insert(t.as_str(), i); } }
    // each node is one of the rules, each plan rule exactly once
    let mut seen : BTreeSet<usize> = BTreeSet::new();
    let mut node_rule : Vec<usize> = vec![];
    for n in pack.nodes.iter()
    {
        let first = n.targets.get(0).ok_or("a node without targets")?;
        let ri = *owner.get(first.as_str()).ok_or(format!("node target {} belongs to no rule", first))?;
        if n.targets != sorted(&rules[ri].targets) { return Err(format!("node for {} does not carry its rule's targets", first)); }
        if n.command != rules[ri].command { return Err(format!("node for {} does not carry its rule's command", first)); }
        if !seen.insert(ri) { return Err(format!("the rule of {} is in the plan twice", first)); }
        if n.rule_ticket != rules[ri].get_ticket() { return Err(format!("node for {} carries a wrong rule identity", first)); }
        node_rule.push(ri);
    }
    if &seen != plan_set
    {
        return Err(format!("plan holds rules {:?}, expected exactly {:?}", seen, plan_set));
    }
    // leaves: exactly the non-target sources of plan rules, sorted, duplicate free
    let mut want_leaves : BTreeSet<String> = BTreeSet::new();
    for ri in plan_set.iter() { for s in rules[*ri].sources.iter() { if !owner.contains_key(s.as_str()) { want_leaves.insert(s.clone()); } } }
    if pack.leaves != want_leaves.iter().cloned().collect::<Vec<String>>()
    {
        return Err(format!("leaves are {:?}, expected {:?}", pack.leaves, want_leaves));
    }
    // bindings and order
    for (j, n) in pack.nodes.iter().enumerate()
    {
        let srcs = sorted(&rules[node_rule[j]].sources);
        if srcs.len() != n.source_indices.len() { return Err(format!("node {} has {} bindings for {} sources", j, n.source_indices.len(), srcs.len())); }
        for (s, b) in srcs.iter().zip(n.source_indices.iter())
        {
            match b
            {
                SourceIndex::Leaf(i) =>
                {
                    if pack.leaves.get(*i) != Some(s) { return Err(format!("source {} of node {} is bound to leaf {:?}", s, j, pack.leaves.get(*i))); }
                    if owner.contains_key(s.as_str()) { return Err(format!("source {} is a rule's target but bound to a leaf", s)); }
                },
                SourceIndex::Pair(i, sub) =>
                {
                    if *i >= j { return Err(format!("node {} depends on node {} which does not come before it", j, i)); }
                    if pack.nodes[*i].targets.get(*sub) != Some(s)
                    {
                        return Err(format!("source {} of node {} is bound to target {:?} of node {}", s, j, pack.nodes[*i].targets.get(*sub), i));
                    }
                },
            }
        }
    }
    Ok(())
}

fn run_case(out : &mut Out, kind : &str, rules : &Vec<Rule>, goal : Option<&str>, rng : &mut Rng)
{
    let case = sexp::paren(&["topo".to_string(), sexp::list(rules.iter().map(show_rule).collect()), sexp::option(goal.map(|g| sexp::hex(g.as_bytes())))]);
    let call = |rs : Vec<Rule>| match goal { Some(g) => topological_sort(rs, g), None => topological_sort_all(rs) };
    let r = match catch(|| call(rules.clone()))
    {
        Ok(r) => r,
        Err(m) =>
        {
            out.case(case.clone(), "(panic)".to_string(), true);
            out.violation("C12:sort-panic", format!("topological sort panicked: {}", m), Json::s(&case));
            return;
        },
    };
    let shown = show_result(&r);
    out.case(case.clone(), shown.clone(), rules.len() > 1);
    let exp = expectation(rules, goal);
    out.count(&format!("{}:{}", kind, match &exp { Expect::DuplicateTarget => "duplicate-target", Expect::GoalMissing => "goal-missing", Expect::Cycle => "cycle", Expect::Plan(_) => "valid" }));
    match (&exp, &r)
    {
        (Expect::DuplicateTarget, Err(TopologicalSortError::TargetInMultipleRules(t))) =>
        {
            let count : usize = rules.iter().map(|r| r.targets.iter().filter(|x| *x == t).count()).sum();
            if count < 2 { out.violation("C12:wrong-error-payload", format!("{} is reported as a target of several rules but is not", t), Json::s(&case)); }
        },
        (Expect::GoalMissing, Err(TopologicalSortError::TargetMissing(t))) =>
        {
            if Some(t.as_str()) != goal { out.violation("C12:wrong-error-payload", "TargetMissing names something else than the goal".to_string(), Json::s(&case)); }
        },
        (Expect::Cycle, Err(TopologicalSortError::SelfDependentRule(t))) =>
        {
            let ok = rules.iter().any(|r| r.targets.contains(t) && r.sources.iter().any(|s| r.targets.contains(s)));
            if !ok { out.violation("C12:wrong-error-payload", format!("{} is reported self-dependent but its rule does not list one of its own targets as a source", t), Json::s(&case)); }
        },
        (Expect::Cycle, Err(TopologicalSortError::CircularDependence(_))) => {},
        (Expect::Plan(set), Ok(pack)) =>
        {
            if let Err(msg) = check_plan(rules, set, pack)
            {
                out.violation("C12:wrong-plan", msg, Json::s(&case));
            }
        },
        (Expect::Plan(_), Err(TopologicalSortError::CircularDependence(c))) =>
        {
            out.violation("C12:acyclic-graph-rejected-as-circular", format!("valid acyclic rules are rejected with CircularDependence({:?})", c), Json::s(&case));
        },
        (Expect::Plan(_), Err(e)) =>
        {
            out.violation("C12:valid-graph-rejected", format!("valid rules are rejected: {}", e), Json::s(&case));
        },
        (e, Ok(_)) =>
        {
            out.violation("C12:invalid-graph-accepted", format!("rules with {:?} are accepted", e), Json::s(&case));
        },
        (e, Err(got)) =>
        {
            out.violation("C12:wrong-error-kind", format!("expected {:?}, got error {}", e, got), Json::s(&case));
        },
    }

    // the answer must not depend on the order of the rules in the input
    if rules.len() >= 2
    {
        let mut shuffled = rules.clone();
        rng.shuffle(&mut shuffled);
        if let Ok(r2) = catch(|| call(shuffled))
        {
            let s2 = show_result(&r2);
            // error payloads of different kinds of invalidity may legitimately differ only if several
            // defects coexist; a plan must be identical
            if r.is_ok() && s2 != shown
            {
                out.violation("C12:plan-depends-on-rule-order", "the plan changes when the input rules are reordered".to_string(), Json::s(&case));
            }
            if r.is_ok() != r2.is_ok()
            {
                out.violation("C12:acceptance-depends-on-rule-order", "acceptance changes when the input rules are reordered".to_string(), Json::s(&case));
            }
        }
    }
}

fn name(label : usize, i : usize, n : usize) -> String
{
    // two labelings: names ascending with the index, and descending
    let k = if label == 0 { i } else { n - 1 - i };
    format!("t{}", (b'a' + k as u8) as char)
}

pub fn sorter(ctx : &Ctx, out : &mut Out)
{
    let mut rng = Rng::new(ctx.seed).fork(12);

    // ---- exhaustive small graphs ----
    // adjacency bit (i, j): rule i lists (a target of) rule j as a source
    let max_full = 3;                                  // with self loops
    let max_noself = if ctx.thorough { 5 } else { 4 }; // without self loops
    for n in 1..=max_noself
    {
        let self_loops = n <= max_full;
        let pairs : Vec<(usize, usize)> = (0..n).flat_map(|i| (0..n).map(move |j| (i, j))).filter(|(i, j)| self_loops || i != j).collect();
        let total : u64 = 1u64 << pairs.len();
        let stride : u64 = if n == 5 { 23 } else { 1 };   // n = 5: every 23rd graph of the 2^20
        let mut g : u64 = 0;
        while g < total
        {
            for label in 0..2
            {
                // single-target rules
                let mut rules : Vec<Rule> = vec![];
                for i in 0..n
                {
                    let mut sources : Vec<String> = pairs.iter().enumerate().filter(|(k, (a, _))| *a == i && (g >> k) & 1 == 1).map(|(_, (_, b))| name(label, *b, n)).collect();
                    sources.push(format!("leaf{}", i % 2));
                    rules.push(Rule::new(vec![name(label, i, n)], sources, vec![format!("c{}", i)]));
                }
                let goals : Vec<Option<String>> = if n <= 4 || g % 5 == 0
                {
                    let mut v : Vec<Option<String>> = vec![None];
                    for i in 0..n { v.push(Some(name(label, i, n))); }
                    v
                } else { vec![None, Some(name(label, (g % n as u64) as usize, n))] };
                for goal in goals.iter()
                {
                    run_case(out, &format!("exhaustive-n{}", n), &rules, goal.as_deref(), &mut rng);
                }
                // two-target variant: every rule gets a second target; dependents use either
                if n <= 4 && (g % 3 == 0 || n <= 3)
                {
                    let mut rules2 : Vec<Rule> = vec![];
                    for i in 0..n
                    {
                        let mut sources : Vec<String> = vec![];
                        for (k, (a, b)) in pairs.iter().enumerate()
                        {
                            if *a == i && (g >> k) & 1 == 1
                            {
                                let base = name(label, *b, n);
                                match (g as usize + k + i) % 3 { 0 => sources.push(base), 1 => sources.push(format!("{}2", base)), _ => { sources.push(base.clone()); sources.push(format!("{}2", base)); } }
                            }
                        }
                        if sources.is_empty() { sources.push("leaf".to_string()); }
                        // second target listed first on purpose: out of sorted order in the input
                        rules2.push(Rule::new(vec![format!("{}2", name(label, i, n)), name(label, i, n)], sources, vec![format!("c{}", i)]));
                    }
                    let goal = match g % 3 { 0 => None, 1 => Some(name(label, 0, n)), _ => Some(format!("{}2", name(label, n - 1, n))) };
                    run_case(out, &format!("exhaustive2-n{}", n), &rules2, goal.as_deref(), &mut rng);
                }
            }
            g += stride;
        }
    }

    // ---- random larger graphs ----
    let n_random = if ctx.thorough { 20000 } else { 1500 };
    for i in 0..n_random
    {
        let n = rng.range(2, if i % 10 == 0 { 40 } else { 12 });
        let acyclic = i % 3 != 0;
        let mut names : Vec<String> = (0..n).map(|k| format!("r{:02}", k)).collect();
        rng.shuffle(&mut names);
        let density = rng.range(1, 4);
        let mut rules : Vec<Rule> = vec![];
        for a in 0..n
        {
            let two = rng.chance(1, 4);
            let mut targets = vec![names[a].clone()];
            if two { targets.insert(0, format!("{}.second", names[a])); }
            let mut sources : Vec<String> = vec![];
            for b in 0..n
            {
                let allowed = if acyclic { b < a } else { b != a || rng.chance(1, 30) };
                if allowed && rng.below(n.max(2)) < density
                {
                    if rng.chance(1, 4) { sources.push(format!("{}.second", names[b])); } else { sources.push(names[b].clone()); }
                }
            }
            if sources.is_empty() || rng.chance(1, 3) { sources.push(format!("leaf{}", rng.below(5))); }
            rules.push(Rule::new(targets, sources, vec![format!("cmd {}", a)]));
        }
        // sprinkle defects
        match i % 14
        {
            3 => { let a = rng.below(n); let b = rng.below(n); let t = rules[b].targets[0].clone(); if a != b { rules[a].targets.push(t); } },
            5 => { let a = rng.below(n); let t = rules[a].targets[0].clone(); rules[a].sources.push(t); },
            7 => { let a = rng.below(n); let t = rules[a].targets[0].clone(); rules[a].targets.push(t); },
            _ => {},
        }
        rng.shuffle(&mut rules);
        let goal : Option<String> = match rng.below(4)
        {
            0 => None,
            1 => Some("no-such-target".to_string()),
            _ => { let r = &rules[rng.below(rules.len())]; Some(r.targets[rng.below(r.targets.len())].clone()) },
        };
        // sources that are targets only through ".second" of a single-target rule are plain leaves: fine
        run_case(out, if acyclic { "random-acyclic" } else { "random-any" }, &rules, goal.as_deref(), &mut rng);
    }
}
