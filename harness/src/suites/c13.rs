//! C13: rule identity — history is shared exactly between identical rules.
use crate::json::Json;
use crate::rng::Rng;
use crate::rule::Rule;
use crate::sexp;
use crate::suite::{Ctx, Out};
use crate::suites::c14::show_rule;
use crate::suites::c15::ticket_bytes;
use crate::memsys::ClockMode;
use crate::scenario::disk_files;
use crate::verif_sched::Policy;
use crate::world::{self, Driver, Op, RULES_PATH};

fn catch<R>(f : impl FnOnce() -> R) -> Result<R, String>
{
    std::panic::catch_unwind(std::panic::AssertUnwindSafe(f)).map_err(|p| crate::verif_sched::panic_message(&p))
}

const WORDS : &[&str] = &["a", "b", "c", "ab", "a b", "a:b", ":", "::", " :", ": ", "x.o", "x.c", "lib/x.c", "-o", ";", "é", "A", "a ", " a", "a\t", "ab c", "a:", ":a"];

fn gen_list(rng : &mut Rng, lo : usize, hi : usize) -> Vec<String>
{
    let n = rng.range(lo, hi);
    let mut v : Vec<String> = vec![];
    for _ in 0..n
    {
        let w = rng.pick(WORDS).to_string();
        if !v.contains(&w) { v.push(w); }
    }
    v
}

fn gen_rule(rng : &mut Rng) -> Rule
{
    let mut t = gen_list(rng, 1, 4);
    t.retain(|w| w != ":");
    if t.is_empty() { t.push("t".to_string()); }
    let mut s = gen_list(rng, 1, 4);
    s.retain(|w| w != ":");
    if s.is_empty() { s.push("s".to_string()); }
    let n = rng.range(0, 3);
    let mut c : Vec<String> = (0..n).map(|_| rng.pick(WORDS).to_string()).collect();
    c.retain(|w| w != ":");
    Rule::new(t, s, c)
}

/// the property's notion of "same rule": same set of targets, same set of sources, same command
/// lines in the same order (lists here are duplicate-free, so sets = sorted lists)
fn same_rule(a : &Rule, b : &Rule) -> bool
{
    let sorted = |v : &Vec<String>| { let mut w = v.clone(); w.sort(); w };
    sorted(&a.targets) == sorted(&b.targets) && sorted(&a.sources) == sorted(&b.sources) && a.command == b.command
}

fn mutate(rng : &mut Rng, r : &Rule) -> (Rule, &'static str)
{
    let mut t = r.targets.clone();
    let mut s = r.sources.clone();
    let mut c = r.command.clone();
    let kind = match rng.below(16)
    {
        0 => { rng.shuffle(&mut t); "permute-targets" },
        1 => { rng.shuffle(&mut s); "permute-sources" },
        2 => { rng.shuffle(&mut t); rng.shuffle(&mut s); "permute-both" },
        3 => { if c.len() >= 2 { c.swap(0, 1); } "swap-command-lines" },
        4 => { if t.len() >= 2 { let x = t.pop().unwrap(); s.insert(0, x); } "move-target-to-sources" },
        5 => { if s.len() >= 2 { let x = s.remove(0); t.push(x); } "move-source-to-targets" },
        6 => { if s.len() >= 2 { let x = s.pop().unwrap(); c.insert(0, x); } "move-source-to-command" },
        7 => { if c.len() >= 1 { let x = c.remove(0); s.push(x); } "move-command-to-sources" },
        8 => { if c.len() >= 2 { let x = c.remove(1); c[0] = format!("{} {}", c[0], x); } "merge-command-lines" },
        9 => { if c.len() >= 1 && c[0].contains(' ') { let parts : Vec<String> = c[0].splitn(2, ' ').map(|p| p.to_string()).collect(); if !parts[0].is_empty() && !parts[1].is_empty() { c.remove(0); c.insert(0, parts[1].clone()); c.insert(0, parts[0].clone()); } } "split-command-line" },
        10 => { if c.len() >= 1 { let k = rng.below(c.len()); c[k].push(' '); } "trailing-space-in-command" },
        11 => { if c.len() >= 1 { let k = rng.below(c.len()); c[k] = format!(" {}", c[k]); } "leading-space-in-command" },
        12 => { let k = rng.below(t.len()); t[k].push('x'); "rename-target" },
        13 => { let k = rng.below(s.len()); s[k] = format!("{} ", s[k]); "rename-source-trailing-space" },
        14 => { s.push("extra".to_string()); "add-source" },
        _ => { if t.len() >= 2 { let x = t.remove(0); t[0] = format!("{}{}", x, t[0]); } "merge-two-targets" },
    };
    (Rule::new(t, s, c), kind)
}

pub fn identity(ctx : &Ctx, out : &mut Out)
{
    let mut rng = Rng::new(ctx.seed).fork(13);
    let n = if ctx.thorough { 20000 } else { 1500 };
    for i in 0..n
    {
        let a = gen_rule(&mut rng);
        let (b, kind) = if i % 10 == 0 { (gen_rule(&mut rng), "independent") } else { mutate(&mut rng, &a) };
        let ta = match catch(|| a.get_ticket()) { Ok(t) => t, Err(m) => { out.violation("C13:ticket-panic", m, Json::s(&show_rule(&a))); continue; } };
        let tb = match catch(|| b.get_ticket()) { Ok(t) => t, Err(m) => { out.violation("C13:ticket-panic", m, Json::s(&show_rule(&b))); continue; } };
        out.case(sexp::paren(&["rule_ticket".to_string(), show_rule(&a)]), sexp::hex(&ticket_bytes(&ta)), true);
        out.case(sexp::paren(&["rule_ticket".to_string(), show_rule(&b)]), sexp::hex(&ticket_bytes(&tb)), true);
        let same = same_rule(&a, &b);
        out.count(&format!("{}:{}", kind, if same { "same" } else { "different" }));
        if same && ta != tb
        {
            out.violation("C13:same-rule-different-identity", format!("{}: rules with the same target set, source set and command get different identities", kind),
                Json::s(&format!("{} {}", show_rule(&a), show_rule(&b))));
        }
        if !same && ta == tb
        {
            out.violation("C13:different-rules-share-identity", format!("{}: two different rules get the same identity", kind),
                Json::s(&format!("{} {}", show_rule(&a), show_rule(&b))));
        }
    }

    // long strings (around and beyond the 64-byte block of SHA-256) next to each other, and one character moved across
    // the boundary between two neighbours: same concatenation, different rules
    let lens = [1usize, 2, 55, 56, 63, 64, 65, 100, 127, 128, 129, 200, 300];
    let n_long = if ctx.thorough { 3000 } else { 300 };
    for _ in 0..n_long
    {
        let mk = |rng : &mut Rng, n : usize| -> String { (0..n).map(|_| *rng.pick(&['a', 'b', '/', '.', ' ', 'x'])).collect::<String>().trim().to_string() + "q" };
        let (l1, l2, l3) = (*rng.pick(&lens), *rng.pick(&lens), *rng.pick(&lens));
        let (x, y, z) = (mk(&mut rng, l1), mk(&mut rng, l2), mk(&mut rng, l3));
        let a = match rng.below(3)
        {
            0 => Rule::new(vec!["t".to_string()], vec!["s".to_string()], vec![x.clone(), y.clone(), z.clone()]),
            1 => Rule::new(vec!["t".to_string()], vec![x.clone()], vec![y.clone(), z.clone()]),
            _ => Rule::new(vec![x.clone()], vec![y.clone()], vec![z.clone()]),
        };
        // move the last character of one string to the front of the next one (across a line or a section boundary)
        let mut parts : Vec<Vec<String>> = vec![a.targets.clone(), a.sources.clone(), a.command.clone()];
        let flat : Vec<(usize, usize)> = parts.iter().enumerate().flat_map(|(i, v)| (0..v.len()).map(move |j| (i, j))).collect();
        let k = rng.below(flat.len() - 1);
        let (i1, j1) = flat[k]; let (i2, j2) = flat[k + 1];
        if parts[i1][j1].len() >= 2
        {
            let ch = parts[i1][j1].pop().unwrap();
            parts[i2][j2].insert(0, ch);
        }
        let b = Rule::new(parts[0].clone(), parts[1].clone(), parts[2].clone());
        let ta = match catch(|| a.get_ticket()) { Ok(t) => t, Err(m) => { out.violation("C13:ticket-panic", m, Json::s(&show_rule(&a))); continue; } };
        let tb = match catch(|| b.get_ticket()) { Ok(t) => t, Err(m) => { out.violation("C13:ticket-panic", m, Json::s(&show_rule(&b))); continue; } };
        out.case(sexp::paren(&["rule_ticket".to_string(), show_rule(&a)]), sexp::hex(&ticket_bytes(&ta)), true);
        out.case(sexp::paren(&["rule_ticket".to_string(), show_rule(&b)]), sexp::hex(&ticket_bytes(&tb)), true);
        let same = same_rule(&a, &b);
        out.count(&format!("long-neighbours:{}", if same { "same" } else { "different" }));
        if !same && ta == tb
        {
            out.violation("C13:different-rules-share-identity", "long-neighbours: two different rules (one character moved between neighbouring long strings) get the same identity".to_string(),
                Json::s(&format!("{} {}", show_rule(&a), show_rule(&b))));
        }
    }

    // outside the parser's range (empty strings, embedded newlines): the serialisation collides where
    // the model says it does; compared only through the model, no monitor
    let odd : Vec<Rule> = vec![
        Rule::new(vec!["a".to_string(), "".to_string()], vec!["b".to_string()], vec![]),
        Rule::new(vec!["a".to_string()], vec!["".to_string(), "b".to_string()], vec![]),
        Rule::new(vec!["a\nb".to_string()], vec!["c".to_string()], vec!["d".to_string()]),
        Rule::new(vec!["a".to_string(), "b".to_string()], vec!["c".to_string()], vec!["d".to_string()]),
        Rule::new(vec!["a".to_string()], vec!["b".to_string()], vec!["\n:\n".to_string()]),
        Rule::new(vec![], vec![], vec![]),
        Rule::new(vec!["a".to_string(), "a".to_string()], vec!["b".to_string()], vec!["c".to_string()]),
    ];
    for r in odd.iter()
    {
        if let Ok(t) = catch(|| r.get_ticket())
        {
            out.count("outside-parser-range");
            out.case(sexp::paren(&["rule_ticket".to_string(), show_rule(r)]), sexp::hex(&ticket_bytes(&t)), true);
        }
    }
}


/// C13 at the level of builds: "history is shared exactly between identical rules ... merely re-ordering the target
/// or source lines does not [give a new identity]". One rule with several targets, written in two equivalent
/// notations of the rules file (flat lines in some order / tab-indented directory bundle — where the order in which
/// the parser yields the paths differs from the bytewise order: `dir-`, `dir.log` sort between `dir` and `dir/x`): build with
/// one notation, rewrite the file in the other, build again — nothing may run and nothing may change; clean, switch
/// back, build — every target must come back with ITS content. All of it is a correspondence case as well.
pub fn shared_history(ctx : &Ctx, out : &mut Out)
{
    let mut rng = Rng::new(ctx.seed).fork(1313);
    let n = if ctx.thorough { 600 } else { 60 };
    for i in 0..n
    {
        let mut r = rng.fork(i as u64);
        // targets: at least one inside directory `dir` (which every fresh MemSys disk has), at least one sorting between "dir" and "dir/"
        let inside = ["dir/x", "dir/y.1", "dir/a"];
        let between = ["dir-", "dir.log", "dir+"];
        let other = ["c", "e", "dir0", "dira"];
        let mut targets : Vec<String> = vec![r.pick(&inside).to_string(), r.pick(&between).to_string()];
        for _ in 0..r.range(0, 2) { let t = r.pick(&[inside[0], inside[1], inside[2], between[0], between[1], between[2], other[0], other[1], other[2], other[3]]).to_string(); if !targets.contains(&t) { targets.push(t); } }
        // two sources; the first target (inside the directory) reads `s`, the others read `s2`
        let sources = vec!["s".to_string(), "s2".to_string()];
        let command : Vec<String> = { let mut c = vec![]; for (k, t) in targets.iter().enumerate() { if k > 0 { c.push(";".to_string()); } c.push(format!("gen {} @{} ={}", t, if k == 0 { "s" } else { "s2" }, t.replace('/', "_"))); } c };
        // a second rule depends on the target inside the directory
        let dependent = format!("\ntop\n:\n{}\n:\ngen top =T @{}\n:\n", targets[0], targets[0]);
        let flat = |order : &Vec<String>, srcs : &Vec<String>| -> String
        {
            format!("{}\n:\n{}\n:\n{}\n:\n{}", order.join("\n"), srcs.join("\n"), command.join("\n"), dependent)
        };
        let bundle = |srcs : &Vec<String>| -> String
        {
            // top-level names in any order, the directory d with its children indented below it
            let mut top : Vec<String> = targets.iter().filter(|t| !t.starts_with("dir/")).cloned().collect();
            let mut kids : Vec<String> = targets.iter().filter_map(|t| t.strip_prefix("dir/").map(|k| k.to_string())).collect();
            top.sort(); kids.sort();
            let mut lines : Vec<String> = vec![];
            lines.push("dir".to_string());
            for k in kids.iter() { lines.push(format!("\t{}", k)); }
            lines.extend(top);
            format!("{}\n:\n{}\n:\n{}\n:\n{}", lines.join("\n"), srcs.join("\n"), command.join("\n"), dependent)
        };
        let mut order1 = targets.clone(); r.shuffle(&mut order1);
        let mut order2 = targets.clone(); r.shuffle(&mut order2);
        let mut srcs2 = sources.clone(); srcs2.reverse();
        let texts : Vec<String> = vec![flat(&order1, &sources), bundle(&sources), flat(&order2, &srcs2)];
        let first = r.below(3);
        let second = (first + 1 + r.below(2)) % 3;

        let driver = Driver::new(ClockMode::Fine, 1_000_000);
        let mut ops : Vec<Op> = vec![];
        let mut obs : Vec<String> = vec![];
        let user = |op : Op, ops : &mut Vec<Op>, obs : &mut Vec<String>| { driver.user(&op); driver.tick(); obs.push(world::show_obs(None, &driver.sys.disk())); ops.push(op); };
        let invoke = |op : Op, ops : &mut Vec<Op>, obs : &mut Vec<String>| { let inv = driver.invoke(&op, Policy::Serial); driver.tick(); obs.push(world::show_obs(Some(&inv), &driver.sys.disk())); ops.push(op); inv };
        let replay = |ops : &Vec<Op>| { let mut j = Json::obj(); j.set("suite", Json::s("c13_shared")); j.set("ops", Json::Arr(ops.iter().map(|o| Json::s(&o.describe())).collect())); j.set("case", Json::s(&world::show_history_case(false, 1_000_000, ops)));  j };
        user(Op::Write(RULES_PATH.to_string(), texts[first].clone().into_bytes()), &mut ops, &mut obs);
        user(Op::Write("s".to_string(), b"one".to_vec()), &mut ops, &mut obs);
        user(Op::Write("s2".to_string(), b"two".to_vec()), &mut ops, &mut obs);
        let b0 = invoke(Op::Build(None), &mut ops, &mut obs);
        // C01 through a multi-target rule: only the source of the target that `top` depends on changes
        if b0.verdict.is_ok()
        {
            user(Op::Write("s".to_string(), b"uno".to_vec()), &mut ops, &mut obs);
            let b = invoke(Op::Build(if r.chance(1, 2) { Some("top".to_string()) } else { None }), &mut ops, &mut obs);
            let now = disk_files(&driver.sys.disk());
            let want_inside : Vec<u8> = { let mut v = b"uno".to_vec(); v.extend_from_slice(targets[0].replace('/', "_").as_bytes()); v };
            let want_top : Vec<u8> = { let mut v = b"T".to_vec(); v.extend_from_slice(&want_inside); v };
            if b.verdict.is_ok() && (now.get(&targets[0]) != Some(&want_inside) || now.get("top") != Some(&want_top))
            {
                out.violation("C01:stale-target", format!("build reported success but {:?} holds {:?} and \"top\" holds {:?}; from scratch they hold {:?} and {:?}", targets[0], now.get(&targets[0]).map(|c| String::from_utf8_lossy(c).to_string()), now.get("top").map(|c| String::from_utf8_lossy(c).to_string()), String::from_utf8_lossy(&want_inside), String::from_utf8_lossy(&want_top)), replay(&ops));
            }
        }
        let b1 = invoke(Op::Build(None), &mut ops, &mut obs);
        out.count(&format!("notations:{}->{}", first, second));
        if !b1.verdict.is_ok() { out.count("first-build-not-ok"); out.case(world::show_history_case(false, 1_000_000, &ops), sexp::list(obs), false); continue; }
        let built = disk_files(&driver.sys.disk());
        // the same rule, written differently
        user(Op::Write(RULES_PATH.to_string(), texts[second].clone().into_bytes()), &mut ops, &mut obs);
        let b2 = invoke(Op::Build(None), &mut ops, &mut obs);
        if !b2.verdict.is_ok() || !b2.commands.is_empty()
        {
            out.violation("C13:identical-rule-does-not-share-history", format!("the rule was only written differently (same targets, sources, command), yet the next build gives {} and runs {:?}", b2.verdict.show(), b2.commands.iter().map(|c| c.1.clone()).collect::<Vec<_>>()), replay(&ops));
        }
        // take the targets away and let ruler bring them back from what it remembers
        if r.chance(1, 2) { invoke(Op::Clean(None), &mut ops, &mut obs); } else { for t in targets.iter() { user(Op::Remove(t.clone()), &mut ops, &mut obs); } }
        if r.chance(1, 2) { user(Op::Write(RULES_PATH.to_string(), texts[first].clone().into_bytes()), &mut ops, &mut obs); }
        let b3 = invoke(Op::Build(None), &mut ops, &mut obs);
        let after = disk_files(&driver.sys.disk());
        if b3.verdict.is_ok()
        {
            for t in targets.iter()
            {
                if after.get(t) != built.get(t)
                {
                    out.violation("C13:history-applied-to-the-wrong-target", format!("{:?} holds {:?} after the build, its own output is {:?}", t, after.get(t).map(|c| String::from_utf8_lossy(c).to_string()), built.get(t).map(|c| String::from_utf8_lossy(c).to_string())), replay(&ops));
                    break;
                }
            }
        }
        else
        {
            out.violation("C13:identical-rule-does-not-share-history", format!("after the targets were taken away the build of the identical rule gives {}", b3.verdict.show()), replay(&ops));
        }
        out.case(world::show_history_case(false, 1_000_000, &ops), sexp::list(obs), true);
    }
}

/// C13 "old results are never applied to [another rule]": several rules with the SAME declared sources stand next to
/// each other; one of them fails in the first build for a reason that changes neither its text nor its sources (an
/// undeclared file is missing), the others succeed; the cause is repaired (optionally after a clean) and the build
/// repeated. What each rule finds in its history must be ITS OWN earlier result: every target must end up with its own
/// from-scratch content, nobody may be reported as contradicting a record, and every history file on disk must be named
/// after a rule of the rules file whose remembered outputs are hashes of that rule's own outputs. Correspondence cases too.
pub fn neighbours(ctx : &Ctx, out : &mut Out)
{
    use crate::scenario::{RuleSpec, Scenario};
    let mut rng = Rng::new(ctx.seed).fork(131313);
    let n = if ctx.thorough { 800 } else { 60 };
    for i in 0..n
    {
        let mut r = rng.fork(i as u64);
        // 2..4 rules, all reading `in`; target names in random order so that the failing one is not always spawned first
        let mut names : Vec<String> = vec!["f".to_string(), "g".to_string(), "h".to_string(), "k".to_string()];
        r.shuffle(&mut names);
        let n_rules = r.range(2, 4);
        let failing = r.below(n_rules);
        let mut rules = vec![];
        for k in 0..n_rules
        {
            let t = names[k].clone();
            let script = if k == failing { vec![format!("gen {} @in @extra", t)] } else { vec![format!("gen {} @in ={}", t, t)] };
            rules.push(RuleSpec{targets : vec![t], sources : vec!["in".to_string()], script : script, raw_command : None});
        }
        let sc = Scenario{rules : rules, split_tokens : false};
        let driver = Driver::new(ClockMode::Fine, 1_000_000);
        let mut ops : Vec<Op> = vec![];
        let mut obs : Vec<String> = vec![];
        let user = |op : Op, ops : &mut Vec<Op>, obs : &mut Vec<String>| { driver.user(&op); driver.tick(); obs.push(world::show_obs(None, &driver.sys.disk())); ops.push(op); };
        let invoke = |op : Op, ops : &mut Vec<Op>, obs : &mut Vec<String>| { let inv = driver.invoke(&op, Policy::Serial); driver.tick(); obs.push(world::show_obs(Some(&inv), &driver.sys.disk())); ops.push(op); inv };
        let replay = |ops : &Vec<Op>| { let mut j = Json::obj(); j.set("suite", Json::s("c13_neighbours")); j.set("ops", Json::Arr(ops.iter().map(|o| Json::s(&o.describe())).collect())); j.set("case", Json::s(&world::show_history_case(false, 1_000_000, ops))); j };
        user(Op::Write(RULES_PATH.to_string(), sc.render().into_bytes()), &mut ops, &mut obs);
        user(Op::Write("in".to_string(), b"I".to_vec()), &mut ops, &mut obs);
        // sometimes everything was built once before (so the cache holds everybody's output)
        let prebuilt = r.chance(1, 2);
        if prebuilt
        {
            user(Op::Write("extra".to_string(), b"E".to_vec()), &mut ops, &mut obs);
            invoke(Op::Build(None), &mut ops, &mut obs);
            user(Op::Remove("extra".to_string()), &mut ops, &mut obs);
            user(Op::Remove(names[failing].clone()), &mut ops, &mut obs);
            if r.chance(1, 2) { user(Op::Write("in".to_string(), b"J".to_vec()), &mut ops, &mut obs); }
        }
        let b1 = invoke(Op::Build(None), &mut ops, &mut obs);
        if b1.verdict.is_ok() { out.violation("C04:failure-not-reported", "the undeclared input is missing, yet the build succeeds".to_string(), replay(&ops)); }
        if r.chance(1, 2) { invoke(Op::Clean(None), &mut ops, &mut obs); }
        user(Op::Write("extra".to_string(), b"E".to_vec()), &mut ops, &mut obs);
        let b2 = invoke(Op::Build(None), &mut ops, &mut obs);
        let b3 = invoke(Op::Build(None), &mut ops, &mut obs);
        let now = disk_files(&driver.sys.disk());
        let input = now.get("in").cloned().unwrap_or_default();
        let own = |k : usize| -> Vec<u8> { let mut v = input.clone(); if k == failing { v.extend_from_slice(b"E"); } else { v.extend_from_slice(names[k].as_bytes()); } v };
        if let crate::world::Verdict::WorkErrors(es) = &b2.verdict
        {
            if es.iter().any(|e| e.contains("Contradiction")) { out.violation("C13:record-of-another-rule-contradicts", format!("after the repair the build reports {}: a rule was compared with a record that is not its own", b2.verdict.show()), replay(&ops)); }
        }
        if b2.verdict.is_ok()
        {
            for k in 0..n_rules
            {
                if now.get(&names[k]) != Some(&own(k))
                {
                    let holds = now.get(&names[k]).map(|c| String::from_utf8_lossy(c).to_string());
                    let whose = (0..n_rules).find(|j| now.get(&names[k]) == Some(&own(*j)));
                    out.violation("C13:results-of-another-rule-applied", format!("{:?} holds {:?} after a successful build; its own output is {:?}{}", names[k], holds, String::from_utf8_lossy(&own(k)), match whose { Some(j) => format!(" (that is the output of the rule of {:?})", names[j]), None => String::new() }), replay(&ops));
                    break;
                }
            }
            if b3.verdict.is_ok() && !b3.commands.is_empty()
            {
                out.violation("C13:own-record-not-found", format!("the build was repeated with nothing changed and ran {:?}: a rule did not find its own record", b3.commands.iter().map(|c| c.1.clone()).collect::<Vec<_>>()), replay(&ops));
            }
        }
        out.count(if prebuilt { "neighbours:prebuilt" } else { "neighbours:fresh" });
        out.case(world::show_history_case(false, 1_000_000, &ops), sexp::list(obs), true);
    }
}
