//! C13: rule identity — history is shared exactly between identical rules.
use crate::json::Json;
use crate::rng::Rng;
use crate::rule::Rule;
use crate::sexp;
use crate::suite::{Ctx, Out};
use crate::suites::c14::show_rule;
use crate::suites::c15::ticket_bytes;

fn catch<R>(f : impl FnOnce() -> R) -> Result<R, String>
{
    std::panic::catch_unwind(std::panic::AssertUnwindSafe(f)).map_err(|p| crate::verif_sched::panic_message(&p))
}

const WORDS : &[&str] = &["a", "b", "c", "ab", "a b", "a:b", ":", "::", " :", ": ", "x.o", "x.c", "lib/x.c", "-o", ";", "é", "A", "a ", " a", "a\t", "ab c", "a:", ":a"];

fn gen_list(rng : &mut Rng, lo : usize, hi : usize) -> Vec<String>
{
    let n = rng.range(lo, hi);
    let mut v : Vec<String> = vec![];
    for _ in 0..n
    {
        let w = rng.pick(WORDS).to_string();
        if !v.contains(&w) { v.push(w); }
    }
    v
}

fn gen_rule(rng : &mut Rng) -> Rule
{
    let mut t = gen_list(rng, 1, 4);
    t.retain(|w| w != ":");
    if t.is_empty() { t.push("t".to_string()); }
    let mut s = gen_list(rng, 1, 4);
    s.retain(|w| w != ":");
    if s.is_empty() { s.push("s".to_string()); }
    let n = rng.range(0, 3);
    let mut c : Vec<String> = (0..n).map(|_| rng.pick(WORDS).to_string()).collect();
    c.retain(|w| w != ":");
    Rule::new(t, s, c)
}

/// the property's notion of "same rule": same set of targets, same set of sources, same command
/// lines in the same order (lists here are duplicate-free, so sets = sorted lists)
fn same_rule(a : &Rule, b : &Rule) -> bool
{
    let sorted = |v : &Vec<String>| { let mut w = v.clone(); w.sort(); w };
    sorted(&a.targets) == sorted(&b.targets) && sorted(&a.sources) == sorted(&b.sources) && a.command == b.command
}

fn mutate(rng : &mut Rng, r : &Rule) -> (Rule, &'static str)
{
    let mut t = r.targets.clone();
    let mut s = r.sources.clone();
    let mut c = r.command.clone();
    let kind = match rng.below(16)
    {
        0 => { rng.shuffle(&mut t); "permute-targets" },
        1 => { rng.shuffle(&mut s); "permute-sources" },
        2 => { rng.shuffle(&mut t); rng.shuffle(&mut s); "permute-both" },
        3 => { if c.len() >= 2 { c.swap(0, 1); } "swap-command-lines" },
        4 => { if t.len() >= 2 { let x = t.pop().unwrap(); s.insert(0, x); } "move-target-to-sources" },
        5 => { if s.len() >= 2 { let x = s.remove(0); t.push(x); } "move-source-to-targets" },
        6 => { if s.len() >= 2 { let x = s.pop().unwrap(); c.insert(0, x); } "move-source-to-command" },
        7 => { if c.len() >= 1 { let x = c.remove(0); s.push(x); } "move-command-to-sources" },
        8 => { if c.len() >= 2 { let x = c.remove(1); c[0] = format!("{} {}", c[0], x); } "merge-command-lines" },
        9 => { if c.len() >= 1 && c[0].contains(' ') { let parts : Vec<String> = c[0].splitn(2, ' ').map(|p| p.to_string()).collect(); if !parts[0].is_empty() && !parts[1].is_empty() { c.remove(0); c.insert(0, parts[1].clone()); c.insert(0, parts[0].clone()); } } "split-command-line" },
        10 => { if c.len() >= 1 { let k = rng.below(c.len()); c[k].push(' '); } "trailing-space-in-command" },
        11 => { if c.len() >= 1 { let k = rng.below(c.len()); c[k] = format!(" {}", c[k]); } "leading-space-in-command" },
        12 => { let k = rng.below(t.len()); t[k].push('x'); "rename-target" },
        13 => { let k = rng.below(s.len()); s[k] = format!("{} ", s[k]); "rename-source-trailing-space" },
        14 => { s.push("extra".to_string()); "add-source" },
        _ => { if t.len() >= 2 { let x = t.remove(0); t[0] = format!("{}{}", x, t[0]); } "merge-two-targets" },
    };
    (Rule::new(t, s, c), kind)
}

pub fn identity(ctx : &Ctx, out : &mut Out)
{
    let mut rng = Rng::new(ctx.seed).fork(13);
    let n = if ctx.thorough { 20000 } else { 1500 };
    for i in 0..n
    {
        let a = gen_rule(&mut rng);
        let (b, kind) = if i % 10 == 0 { (gen_rule(&mut rng), "independent") } else { mutate(&mut rng, &a) };
        let ta = match catch(|| a.get_ticket()) { Ok(t) => t, Err(m) => { out.violation("C13:ticket-panic", m, Json::s(&show_rule(&a))); continue; } };
        let tb = match catch(|| b.get_ticket()) { Ok(t) => t, Err(m) => { out.violation("C13:ticket-panic", m, Json::s(&show_rule(&b))); continue; } };
        out.case(sexp::paren(&["rule_ticket".to_string(), show_rule(&a)]), sexp::hex(&ticket_bytes(&ta)), true);
        out.case(sexp::paren(&["rule_ticket".to_string(), show_rule(&b)]), sexp::hex(&ticket_bytes(&tb)), true);
        let same = same_rule(&a, &b);
        out.count(&format!("{}:{}", kind, if same { "same" } else { "different" }));
        if same && ta != tb
        {
            out.violation("C13:same-rule-different-identity", format!("{}: rules with the same target set, source set and command get different identities", kind),
                Json::s(&format!("{} {}", show_rule(&a), show_rule(&b))));
        }
        if !same && ta == tb
        {
            out.violation("C13:different-rules-share-identity", format!("{}: two different rules get the same identity", kind),
                Json::s(&format!("{} {}", show_rule(&a), show_rule(&b))));
        }
    }

    // outside the parser's range (empty strings, embedded newlines): the serialisation collides where
    // the model says it does; compared only through the model, no monitor
    let odd : Vec<Rule> = vec![
        Rule::new(vec!["a".to_string(), "".to_string()], vec!["b".to_string()], vec![]),
        Rule::new(vec!["a".to_string()], vec!["".to_string(), "b".to_string()], vec![]),
        Rule::new(vec!["a\nb".to_string()], vec!["c".to_string()], vec!["d".to_string()]),
        Rule::new(vec!["a".to_string(), "b".to_string()], vec!["c".to_string()], vec!["d".to_string()]),
        Rule::new(vec!["a".to_string()], vec!["b".to_string()], vec!["\n:\n".to_string()]),
        Rule::new(vec![], vec![], vec![]),
        Rule::new(vec!["a".to_string(), "a".to_string()], vec!["b".to_string()], vec!["c".to_string()]),
    ];
    for r in odd.iter()
    {
        if let Ok(t) = catch(|| r.get_ticket())
        {
            out.count("outside-parser-range");
            out.case(sexp::paren(&["rule_ticket".to_string(), show_rule(r)]), sexp::hex(&ticket_bytes(&t)), true);
        }
    }
}
