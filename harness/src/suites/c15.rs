//! C15: content hashes are true SHA-256 and their text form is a bijection.
use crate::json::Json;
use crate::memsys::{ClockMode, MemSys};
use crate::rng::Rng;
use crate::sexp;
use crate::suite::{Ctx, Out};
use crate::system::System;
use crate::ticket::{FromHumanReadableError, Ticket, TicketFactory};
use crypto::digest::Digest;
use crypto::sha2::Sha256;
use num_bigint::BigUint;
use num_traits::{One, ToPrimitive, Zero};

pub fn ticket_from_bytes(b : &[u8; 32]) -> Ticket
{
    bincode::deserialize(&b[..]).expect("32 raw bytes are a ticket")
}

pub fn ticket_bytes(t : &Ticket) -> Vec<u8>
{
    bincode::serialize(t).expect("ticket serialises")
}

/// independent SHA-256 of a byte string (one-shot use of the digest, not through ruler's code)
pub fn sha256_ref(data : &[u8]) -> Vec<u8>
{
    let mut d = Sha256::new();
    d.input(data);
    let mut out = [0u8; 32];
    d.result(&mut out);
    out.to_vec()
}

const ALPHABET : &[u8] = b"0123456789abcdefghijklmnopqrstuvwxyzABCDEFGHIJKLMNOPQRSTUVWXYZ";

/// independent reference encoder: 43 little-endian base-62 digits of any value below 62^43
pub fn enc62_ref(v : &BigUint) -> String
{
    let mut n = v.clone();
    let mut s = String::new();
    let base = BigUint::from(62u32);
    for _ in 0..43
    {
        let d = (&n % &base).to_u32().unwrap();
        s.push(ALPHABET[d as usize] as char);
        n = &n / &base;
    }
    s
}

fn value_to_bytes32(v : &BigUint) -> Option<[u8; 32]>
{
    let le = v.to_bytes_le();
    if le.len() > 32 { return None; }
    let mut b = [0u8; 32];
    for (i, x) in le.iter().enumerate() { b[i] = *x; }
    Some(b)
}

fn show_decode(r : &Result<Ticket, FromHumanReadableError>) -> String
{
    match r
    {
        Ok(t) => sexp::ok(sexp::hex(&ticket_bytes(t))),
        Err(FromHumanReadableError::InvalidLength) => sexp::err("InvalidLength".to_string()),
        Err(FromHumanReadableError::Overflow) => sexp::err("Overflow".to_string()),
        Err(FromHumanReadableError::InvalidCharacter(c)) =>
        {
            let mut buf = [0u8; 4];
            let first = c.encode_utf8(&mut buf).as_bytes()[0];
            sexp::err(sexp::paren(&["InvalidCharacter".to_string(), sexp::num(first as usize)]))
        },
    }
}

fn catch<R>(f : impl FnOnce() -> R) -> Result<R, String>
{
    std::panic::catch_unwind(std::panic::AssertUnwindSafe(f)).map_err(|p| crate::verif_sched::panic_message(&p))
}

pub fn base62(ctx : &Ctx, out : &mut Out)
{
    let mut rng = Rng::new(ctx.seed).fork(15);
    let two256 : BigUint = BigUint::one() << 256;
    let max43 : BigUint = BigUint::from(62u32).pow(43);

    // ---------- values ----------
    let mut values : Vec<BigUint> = vec![BigUint::zero(), BigUint::one(), &two256 - BigUint::one()];
    for k in 0..=42u32
    {
        let p = BigUint::from(62u32).pow(k);
        values.push(p.clone());
        values.push(&p + BigUint::one());
        if k > 0 { values.push(&p - BigUint::one()); }
    }
    for k in 0..256usize
    {
        values.push(BigUint::one() << k);
        values.push((BigUint::one() << k) - BigUint::one());
    }
    let n_random = if ctx.thorough { 40000 } else { 3000 };
    for i in 0..n_random
    {
        let mut b = rng.bytes(32);
        // bias: many leading-zero digits / high bytes zero
        if i % 5 == 0 { let keep = rng.below(32); for j in keep..32 { b[j] = 0; } }
        if i % 7 == 0 { for j in 0..32 { if rng.chance(1, 2) { b[j] = 0xff; } } }
        values.push(BigUint::from_bytes_le(&b));
    }

    for v in values.iter()
    {
        let b = match value_to_bytes32(v) { Some(b) => b, None => continue };
        let ticket = ticket_from_bytes(&b);
        let text = match catch(|| ticket.human_readable())
        {
            Ok(t) => t,
            Err(m) =>
            {
                out.case(sexp::paren(&["encode62".to_string(), sexp::hex(&b)]), format!("(panic)"), true);
                out.violation("C15:encode62-panic", format!("human_readable panicked: {}", m), Json::s(&sexp::hex(&b)));
                continue;
            },
        };
        out.count("encode62");
        out.case(sexp::paren(&["encode62".to_string(), sexp::hex(&b)]), sexp::hex(text.as_bytes()), !v.is_zero());

        // monitor, straight from the property text
        if text.len() != 43 || !text.bytes().all(|c| c.is_ascii_alphanumeric())
        {
            out.violation("C15:text-form-shape", format!("text form {:?} is not 43 alphanumerics", text), Json::s(&sexp::hex(&b)));
        }
        match catch(|| Ticket::from_human_readable(&text))
        {
            Ok(Ok(back)) =>
            {
                if ticket_bytes(&back) != b.to_vec()
                {
                    out.violation("C15:roundtrip", format!("decode(encode(v)) != v for text {}", text), Json::s(&sexp::hex(&b)));
                }
            },
            Ok(Err(e)) => out.violation("C15:roundtrip", format!("decode(encode(v)) failed: {:?} for {}", e, text), Json::s(&sexp::hex(&b))),
            Err(m) => out.violation("C15:decode62-panic", format!("from_human_readable panicked: {}", m), Json::s(&sexp::hex(&b))),
        }
        if text != enc62_ref(v)
        {
            out.violation("C15:text-form-value", format!("text form {} is not the base-62 little-endian form of the value", text), Json::s(&sexp::hex(&b)));
        }
    }

    // ---------- strings ----------
    let mut strings : Vec<String> = vec![];
    // valid encodings (decode side of the bijection)
    for v in values.iter().take(400) { if v < &two256 { strings.push(enc62_ref(v)); } }
    // values in [2^256, 62^43): well-formed but too large
    let gap = &max43 - &two256;
    let n_over = if ctx.thorough { 4000 } else { 400 };
    for i in 0..n_over
    {
        let r = BigUint::from_bytes_le(&rng.bytes(40)) % &gap;
        let v = if i == 0 { two256.clone() } else if i == 1 { &max43 - BigUint::one() } else { &two256 + r };
        strings.push(enc62_ref(&v));
    }
    // just below the limit
    strings.push(enc62_ref(&(&two256 - BigUint::one())));
    // all lengths 0..60 over an alphabet with non-alphanumerics
    let soup : Vec<char> = "09azAZ_-/.:% \n\t+=~é€".chars().collect();
    let n_soup = if ctx.thorough { 200 } else { 20 };
    for len in 0..=60usize
    {
        for _ in 0..n_soup
        {
            let s : String = (0..len).map(|_| *rng.pick(&soup)).collect();
            strings.push(s);
        }
        strings.push("0".repeat(len));
        strings.push("Z".repeat(len));
    }
    // 43 characters, one foreign character at each position
    for pos in 0..43
    {
        for bad in ['_', '-', '/', '.', ' ', '@', '[', '`', '{', ':', '\u{e9}']
        {
            let mut s : Vec<char> = enc62_ref(&BigUint::from_bytes_le(&rng.bytes(31))).chars().collect();
            s[pos] = bad;
            strings.push(s.into_iter().collect());
        }
    }
    // 43 *bytes* containing multi-byte characters, and 43 characters that are more than 43 bytes
    for _ in 0..50
    {
        let mut s = String::new();
        while s.len() < 41 { if rng.chance(1, 6) { s.push('é'); } else { s.push(*rng.pick(&soup[..6])); } }
        while s.len() < 43 { s.push('a'); }
        strings.push(s);
        let t : String = (0..43).map(|i| if i == 7 { '€' } else { 'b' }).collect();
        strings.push(t);
    }
    // 43 BYTES with characters outside ASCII whose code point, cut to its low byte, is an ASCII digit or letter
    // (U+0130 -> '0', U+0141 -> 'A', U+0161 -> 'a', U+4E61 -> 'a', U+4E39 -> '9'): foreign all the same
    for _ in 0..60
    {
        let tricky = ['\u{130}', '\u{141}', '\u{161}', '\u{4e61}', '\u{4e39}', '\u{17a}'];
        let mut chars : Vec<char> = vec![];
        let mut bytes = 0usize;
        let n_tricky = rng.range(1, 3);
        for _ in 0..n_tricky { let c = *rng.pick(&tricky); bytes += c.len_utf8(); chars.push(c); }
        while bytes < 43 { chars.push(*rng.pick(&soup[..6])); bytes += 1; }
        if bytes == 43 { rng.shuffle(&mut chars); strings.push(chars.into_iter().collect()); }
    }
    // two invalid characters: the first one must be reported
    for _ in 0..100
    {
        let mut s : Vec<char> = enc62_ref(&BigUint::from_bytes_le(&rng.bytes(31))).chars().collect();
        let i = rng.below(43);
        let j = rng.below(43);
        s[i] = '!';
        s[j] = '?';
        strings.push(s.into_iter().collect());
    }

    for s in strings.iter()
    {
        let r = match catch(|| Ticket::from_human_readable(s))
        {
            Ok(r) => r,
            Err(m) =>
            {
                out.case(sexp::paren(&["decode62".to_string(), sexp::hex(s.as_bytes())]), "(panic)".to_string(), true);
                out.violation("C15:decode62-panic", format!("from_human_readable panicked: {}", m), Json::s(s));
                continue;
            },
        };
        out.count(match &r
        {
            Ok(_) => "decode62:ok",
            Err(FromHumanReadableError::InvalidLength) => "decode62:InvalidLength",
            Err(FromHumanReadableError::Overflow) => "decode62:Overflow",
            Err(FromHumanReadableError::InvalidCharacter(_)) => "decode62:InvalidCharacter",
        });
        out.case(sexp::paren(&["decode62".to_string(), sexp::hex(s.as_bytes())]), show_decode(&r), !s.is_empty());

        // monitor: accepted exactly when s is the text form of some 256-bit value
        let is_encoding = s.len() == 43 && s.bytes().all(|c| c.is_ascii_alphanumeric()) &&
        {
            let mut v = BigUint::zero();
            for c in s.bytes().rev()
            {
                let d = ALPHABET.iter().position(|a| *a == c).unwrap();
                v = v * BigUint::from(62u32) + BigUint::from(d as u32);
            }
            v < two256
        };
        match (&r, is_encoding)
        {
            (Ok(t), true) =>
            {
                if &ticket_from_bytes(&{ let mut a = [0u8; 32]; a.copy_from_slice(&ticket_bytes(t)); a }).human_readable() != s
                {
                    out.violation("C15:decode-not-inverse", format!("decoding {} gives a value whose text form differs", s), Json::s(s));
                }
            },
            (Err(_), false) => {},
            (Ok(_), false) => out.violation("C15:accepts-non-encoding", format!("{:?} is not a 43-character encoding of a 256-bit value but was accepted", s), Json::s(s)),
            (Err(e), true) => out.violation("C15:rejects-encoding", format!("{:?} is a valid encoding but was rejected: {:?}", s, e), Json::s(s)),
        }
    }
}

pub fn sha(ctx : &Ctx, out : &mut Out)
{
    let mut rng = Rng::new(ctx.seed).fork(1515);
    let mut lengths : Vec<usize> = (0..=1100).collect();
    let n_big = if ctx.thorough { 60 } else { 6 };
    for _ in 0..n_big { lengths.push(1100 + rng.below(if ctx.thorough { 20000 } else { 3000 })); }
    let chunkings : [Option<usize>; 6] = [None, Some(1), Some(255), Some(256), Some(257), Some(7)];

    for (i, len) in lengths.iter().enumerate()
    {
        let content = match i % 4 { 0 => vec![0u8; *len], 1 => vec![0xffu8; *len], _ => rng.bytes(*len) };
        let sys = MemSys::new(ClockMode::Fine, 1_000_000);
        let path = if i % 2 == 0 { "f".to_string() } else { format!("dir/sub/file{}", i) };
        sys.user_write(&path, &content);
        let chunk = chunkings[i % chunkings.len()];
        sys.with(|s| s.read_chunk = chunk);
        let got = match catch(|| TicketFactory::from_file(&sys, &path).map(|mut f| f.result()))
        {
            Ok(Ok(t)) => ticket_bytes(&t),
            Ok(Err(e)) =>
            {
                out.violation("C15:file-hash-error", format!("hashing a {}-byte file failed: {}", len, e), Json::i(*len));
                continue;
            },
            Err(m) =>
            {
                out.violation("C15:file-hash-panic", format!("hashing a {}-byte file panicked: {}", len, m), Json::i(*len));
                continue;
            },
        };
        out.count(&format!("chunk:{:?}", chunk));
        out.case(sexp::paren(&["sha256".to_string(), sexp::hex(&content)]), sexp::hex(&got), *len > 0);

        // monitor: equals SHA-256 of the bytes, whatever the path, age and read chunking
        if got != sha256_ref(&content)
        {
            out.violation("C15:file-hash-not-sha256", format!("hash of a {}-byte file (read chunk {:?}) is not the SHA-256 of its bytes", len, chunk), Json::s(&sexp::hex(&content)));
        }
        if i % 10 == 0
        {
            sys.tick();
            sys.user_write("other/place", &content);
            sys.with(|s| s.read_chunk = chunkings[(i / 10) % chunkings.len()]);
            match catch(|| TicketFactory::from_path(&sys, "other/place").map(|mut f| f.result()))
            {
                Ok(Ok(t)) => if ticket_bytes(&t) != got
                {
                    out.violation("C15:file-hash-depends-on-path-or-age", format!("the same {} bytes hash differently at another path / time", len), Json::s(&sexp::hex(&content)));
                },
                _ => out.violation("C15:file-hash-error", format!("hashing via from_path failed for {} bytes", len), Json::i(*len)),
            }
        }
    }
}
