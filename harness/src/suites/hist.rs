//! Histories over the C01 alphabet, run on the implementation under the serial schedule, with the
//! monitors of C01, C02, C07, C08, C09, C10, C20 (each written from the property text, none of them
//! consulting the model). The same run is the model's correspondence case (R-hist).
use crate::json::Json;
use crate::memsys::{Call, ClockMode, Disk, MemSys};
use crate::rng::Rng;
use crate::scenario::{self, disk_files, from_scratch, Flavor, GenParams, RuleOutcome, RuleSpec, Scenario};
use crate::sexp;
use crate::suite::{Ctx, Out};
use crate::suites::c15::{enc62_ref, sha256_ref};
use crate::verif_sched::Policy;
use crate::world::{self, cache_prefix, history_prefix, in_ruler_dir, Driver, Invocation, Op, Verdict, RULES_PATH};
use num_bigint::BigUint;
use std::collections::{BTreeMap, BTreeSet};

pub fn cache_name_of(content : &[u8]) -> String
{
    enc62_ref(&BigUint::from_bytes_le(&sha256_ref(content)))
}

/// the 43-character text form of a ticket given as raw bytes
pub fn text_of_ticket(ticket : &[u8]) -> String
{
    enc62_ref(&BigUint::from_bytes_le(ticket))
}

/// user `mv` operations in generated histories (needs the model's OMove: coq/Model/Ops.v)
pub const MOVE_OPS : bool = true;

/// short text form of a ticket given as raw bytes (diagnostics)
pub fn cache_name_of_ticket(ticket : &[u8]) -> String
{
    enc62_ref(&BigUint::from_bytes_le(ticket)).chars().take(8).collect()
}

#[derive(Clone)]
pub struct HistParams
{
    pub flavor : Flavor,
    pub max_rules : usize,
    pub max_ops : usize,
    pub coarse : bool,
    pub t0 : u64,
    /// include deletions of the ruler directory and its parts
    pub delete_ruler : bool,
    /// include rules-file edits (valid mutations and invalid texts)
    pub edit_rules : bool,
    pub policy : Policy,
}

pub struct Step
{
    pub op : Op,
    pub obs : String,
}

pub struct HistoryRun
{
    pub steps : Vec<Step>,
    pub builds : usize,
    pub ok_builds : usize,
}

/// What the monitors remember along a history.
pub struct Tracker
{
    pub scenario : Option<Scenario>,        // None: the rules file does not come from a scenario (garbage text)
    pub ever_targets : BTreeSet<String>,
    /// C02 ledger: (identity) -> list of (source contents in sorted-source order, outputs in sorted-target order)
    pub ledger : Vec<((Vec<String>, Vec<String>, Vec<String>), Vec<Vec<u8>>, Vec<Vec<u8>>)>,
    pub deterministic : bool,
    /// the last operation was a successful build with this goal and nothing happened since
    pub last_ok_build : Option<Option<String>>,
    pub label : String,
    /// contents that were at a target path or in the cache before some ruler invocation of this history and nowhere
    /// after it (C08's violation), remembered so that C02 can say why a later rebuild was unnecessary
    pub lost_by_ruler : BTreeSet<Vec<u8>>,
    /// C10: the last operation was a clean that directly followed a successful build of the same goal:
    /// (number of operations up to and including the clean, goal, the in-scope targets as they were before the clean)
    pub cleaned_up_to_date : Option<(usize, Option<String>, BTreeMap<String, (Vec<u8>, bool)>)>,
}

impl Tracker
{
    pub fn new(label : &str, deterministic : bool) -> Tracker
    {
        Tracker{scenario : None, ever_targets : BTreeSet::new(), ledger : vec![], deterministic : deterministic, last_ok_build : None, label : label.to_string(), lost_by_ruler : BTreeSet::new(), cleaned_up_to_date : None}
    }
}

fn replay_json(label : &str, coarse : bool, t0 : u64, ops : &[Op]) -> Json
{
    let mut j = Json::obj();
    j.set("suite", Json::s(label));
    j.set("clock", Json::s(if coarse { "coarse" } else { "fine" }));
    j.set("t0", Json::Int(t0 as i64));
    j.set("ops", Json::Arr(ops.iter().map(|o| Json::s(&o.describe())).collect()));
    j.set("case", Json::s(&world::show_history_case(coarse, t0, ops)));
    j
}

fn contents_at_risk(disk : &Disk, ever_targets : &BTreeSet<String>) -> BTreeSet<Vec<u8>>
{
    let mut set = BTreeSet::new();
    for (p, n) in disk.files.iter()
    {
        if p.starts_with(&cache_prefix()) || ever_targets.contains(p) { set.insert((*n.content).clone()); }
    }
    set
}

/// Monitors after one invocation. `ops_so_far` includes the invocation's own op.
pub fn monitor_invocation(out : &mut Out, tr : &mut Tracker, inv : &Invocation, op : &Op, coarse : bool, t0 : u64, ops_so_far : &[Op])
{
    let label_for_replay = tr.label.clone();
    let replay = || replay_json(&label_for_replay, coarse, t0, ops_so_far);
    // the properties that assume "distinct writes carry distinct modification times" are monitored whenever
    // that is actually the case on this disk (always under the fine clock)
    let mtimes_distinct = |d : &Disk| -> bool
    {
        let mut seen : BTreeMap<u64, Vec<u8>> = BTreeMap::new();
        for (p, n) in d.files.iter()
        {
            if in_ruler_dir(p) && !p.starts_with(&cache_prefix()) { continue; }
            if let Some(prev) = seen.insert(n.mtime, (*n.content).clone()) { if prev != *n.content { return false; } }
        }
        true
    };
    let coarse = coarse && !(mtimes_distinct(&inv.before) && mtimes_distinct(&inv.after));
    let (is_build, goal) = match op { Op::Build(g) => (true, g.clone()), Op::Clean(g) => (false, g.clone()), _ => return };

    // ---- C05 (serial part): no panic, no deadlock, no internal error ----
    if let Verdict::Panic(m) = &inv.verdict
    {
        out.violation("C05:panic", format!("{} panicked: {}", if is_build { "build" } else { "clean" }, m), replay());
    }
    if inv.deadlock { out.violation("C05:deadlock", "all threads blocked".to_string(), replay()); }
    if !inv.panicked_tasks.is_empty() { out.violation("C05:thread-panic", format!("worker threads {:?} panicked", inv.panicked_tasks), replay()); }

    // ---- C07: the cache is content-addressed at every quiescent point ----
    for (p, n) in inv.after.files.iter()
    {
        if let Some(name) = p.strip_prefix(&cache_prefix())
        {
            // C07 does not depend on the clock: checked under the coarse clock as well
            if name != cache_name_of(&n.content)
            {
                out.violation("C07:cache-entry-misnamed", format!("cache entry {} holds content whose hash is {}", name, cache_name_of(&n.content)), replay());
                break;
            }
        }
    }

    let sc = match &tr.scenario { Some(s) => s.clone(), None => { tr.last_ok_build = None; return; } };
    let scope = sc.scope(&goal);
    let in_scope_targets : BTreeSet<String> = match &scope
    {
        Some(set) => set.iter().flat_map(|i| sc.rules[*i].targets.iter().cloned()).collect(),
        None => BTreeSet::new(),
    };

    // ---- C09: ruler touches only in-scope targets and its own directory ----
    for c in inv.calls.iter().filter(|c| c.mutating && !c.in_command)
    {
        for p in [&c.path, &c.path2]
        {
            if p.is_empty() || in_ruler_dir(p) { continue; }
            if !in_scope_targets.contains(p)
            {
                out.violation("C09:touches-out-of-scope-path", format!("ruler's own {} touches {:?}, which is not an in-scope target", c.op, p), replay());
            }
        }
    }
    for (p, n) in inv.before.files.iter()
    {
        if in_ruler_dir(p) || in_scope_targets.contains(p) { continue; }
        // out of scope: must keep content, mtime, permissions (commands of in-scope rules only write their targets here)
        match inv.after.files.get(p)
        {
            Some(m) => if m != n { out.violation("C09:out-of-scope-file-changed", format!("{:?} is out of scope but its content, mtime or permissions changed", p), replay()); },
            None => out.violation("C09:out-of-scope-file-changed", format!("{:?} is out of scope but was removed", p), replay()),
        }
    }

    // ---- C08: nothing that existed at a declared target path or in the cache is lost ----
    if tr.deterministic && !coarse
    {
        let before = contents_at_risk(&inv.before, &tr.ever_targets);
        let after = contents_at_risk(&inv.after, &tr.ever_targets);
        for c in before.iter()
        {
            if !after.contains(c)
            {
                tr.lost_by_ruler.insert(c.clone());
                out.violation("C08:content-lost", format!("content {:?} was at a target path or in the cache before the {} and is nowhere afterwards", String::from_utf8_lossy(c), if is_build { "build" } else { "clean" }), replay());
                break;
            }
        }
        for c in inv.calls.iter().filter(|c| c.op == "rename" && !c.in_command && c.ok)
        {
            // only what C08 protects: files at target paths and in the cache (ruler replaces its own state files)
            let protected_destination = c.path2.starts_with(&cache_prefix()) || !in_ruler_dir(&c.path2);
            if c.dest_state == 2 && protected_destination
            {
                out.violation("C08:rename-over-different-content", format!("ruler renamed {:?} over {:?}, which held different content", c.path, c.path2), replay());
            }
        }
    }

    let files_before = disk_files(&inv.before);
    let files_after = disk_files(&inv.after);
    let scratch = from_scratch(&sc, &files_before);

    if is_build
    {
        // ---- C10 (second half): the build that directly follows a clean of up-to-date targets brings them back ----
        if let Some((n, g, snap)) = tr.cleaned_up_to_date.take()
        {
            if ops_so_far.len() == n + 1 && g == goal && tr.deterministic
            {
                if !inv.verdict.is_ok()
                {
                    out.violation("C10:build-after-clean-fails", format!("the targets were up to date before the clean, yet the following build gives {}", inv.verdict.show()), replay());
                }
                else
                {
                    let distinct : BTreeSet<&Vec<u8>> = snap.values().map(|(c, _)| c).collect();
                    let unique = distinct.len() == snap.len();
                    for (t, (c, x)) in snap.iter()
                    {
                        match inv.after.files.get(t)
                        {
                            None => { out.violation("C10:target-not-brought-back", format!("{:?} is missing after the build that follows the clean", t), replay()); break; },
                            Some(node) => if *node.content != *c { out.violation("C10:target-not-identical", format!("{:?} came back with other content than it had before the clean", t), replay()); break; }
                                          else if unique && node.exec != *x { out.violation("C10:permission-lost", format!("{:?} came back with executable = {} (was {})", t, node.exec, x), replay()); break; },
                        }
                    }
                    if unique && !inv.commands.is_empty()
                    {
                        out.violation("C10:command-ran-after-clean", format!("the cleaned targets' contents are pairwise different, yet the following build ran {:?}", inv.commands.iter().map(|c| c.1.clone()).collect::<Vec<_>>()), replay());
                    }
                }
            }
        }
        // which rules ran their command in this build (a rule's script lines are unique to it up to equal scripts)
        let mut ran : BTreeMap<usize, usize> = BTreeMap::new();
        {
            // group executed lines by task: one execute_command call = one task's whole script
            let mut by_task : BTreeMap<Option<usize>, Vec<String>> = BTreeMap::new();
            for (t, l) in inv.commands.iter() { by_task.entry(*t).or_insert(vec![]).push(l.clone()); }
            let mut claimed : BTreeSet<usize> = BTreeSet::new();
            for (_, lines) in by_task.iter()
            {
                // a task may have executed its script once (or, wrongly, several times)
                for (i, r) in sc.rules.iter().enumerate()
                {
                    if r.script.is_empty() || claimed.contains(&i) { continue; }
                    if lines.len() % r.script.len() == 0 && lines.chunks(r.script.len()).all(|ch| ch == &r.script[..])
                    {
                        *ran.entry(i).or_insert(0) += lines.len() / r.script.len();
                        claimed.insert(i);
                        break;
                    }
                }
            }
        }

        // ---- C02: at most once per build ----
        for (i, n) in ran.iter()
        {
            if *n > 1 { out.violation("C02:command-ran-twice", format!("the command of rule {:?} ran {} times in one build", sc.rules[*i].targets, n), replay()); }
        }

        // ---- C01: a successful build equals a from-scratch build ----
        if inv.verdict.is_ok() && tr.deterministic && !coarse
        {
            if let (Some(scope), Some(scratch)) = (&scope, &scratch)
            {
                for i in scope.iter()
                {
                    match &scratch[*i]
                    {
                        RuleOutcome::Built(contents) =>
                        {
                            for (t, c) in sc.rules[*i].targets.iter().zip(contents.iter())
                            {
                                if files_after.get(t) != Some(c)
                                {
                                    out.violation(if t0 == 0 { "C01:stale-target-mtime-zero" } else { "C01:stale-target" },
                                        format!("build reported success but target {:?} holds {:?}; from scratch it would hold {:?}", t,
                                            files_after.get(t).map(|c| String::from_utf8_lossy(c).to_string()), String::from_utf8_lossy(c)), replay());
                                }
                            }
                        },
                        other =>
                        {
                            out.violation("C01:success-reported-for-failing-graph", format!("build reported success but from scratch rule {:?} would be {:?}", sc.rules[*i].targets, other), replay());
                        },
                    }
                }
            }
        }

        // ---- C02: no unnecessary work ----
        if tr.deterministic && !coarse
        {
            let cache_before : Vec<Vec<u8>> = inv.before.files.iter().filter(|(p, _)| p.starts_with(&cache_prefix())).map(|(_, n)| (*n.content).clone()).collect();
            if let Some(scope) = &scope
            {
                // contents wanted from the cache by in-scope targets that do not hold their remembered output
                let mut wanted : Vec<Vec<u8>> = vec![];
                let mut per_rule : BTreeMap<usize, Option<Vec<Vec<u8>>>> = BTreeMap::new();
                for i in scope.iter()
                {
                    let r = &sc.rules[*i];
                    let ident = r.identity(sc.split_tokens);
                    let mut sorted_sources = r.sources.clone();
                    sorted_sources.sort();
                    // sources must be final before we can compare: use the from-scratch values of produced sources
                    let mut src_contents : Option<Vec<Vec<u8>>> = Some(vec![]);
                    for s in sorted_sources.iter()
                    {
                        let c = match sc.owner(s)
                        {
                            Some(j) => match scratch.as_ref().map(|v| &v[j]) { Some(RuleOutcome::Built(cs)) => { let k = sc.rules[j].targets.iter().position(|t| t == s).unwrap(); Some(cs[k].clone()) }, _ => None },
                            None => files_before.get(s).cloned(),
                        };
                        match (c, &mut src_contents) { (Some(c), Some(v)) => v.push(c), _ => { src_contents = None; } }
                    }
                    let remembered = match &src_contents
                    {
                        Some(sc_) => tr.ledger.iter().find(|(id, srcs, _)| *id == ident && srcs == sc_).map(|(_, _, outs)| outs.clone()),
                        None => None,
                    };
                    // what this rule's targets will want from the cache: their from-scratch contents wherever the file in place
                    // is something else. (Computed from the independent evaluator, NOT from the ledger: ruler's own history of a
                    // rule can outlive the ledger's entry — e.g. after the user deleted ANOTHER rule's history file — and such a
                    // rule competes for a shared cache entry all the same.)
                    if let Some(RuleOutcome::Built(cs)) = scratch.as_ref().map(|v| &v[*i])
                    {
                        for (t, c) in r.targets.iter().zip(cs.iter())
                        {
                            if files_before.get(t) != Some(c) { wanted.push(c.clone()); }
                        }
                    }
                    per_rule.insert(*i, remembered);
                }
                for (i, remembered) in per_rule.iter()
                {
                    let r = &sc.rules[*i];
                    if let Some(outs) = remembered
                    {
                        let mut sorted_targets = r.targets.clone();
                        sorted_targets.sort();
                        let mut obliged = true;
                        let mut obliged_literally = true;
                        for (t, o) in sorted_targets.iter().zip(outs.iter())
                        {
                            if files_before.get(t) == Some(o) { continue; }
                            let available = cache_before.iter().any(|c| c == o);
                            let contested = wanted.iter().filter(|w| *w == o).count() > 1;
                            if !available || contested { obliged = false; }
                            if !available { obliged_literally = false; }
                            // the output is not in the cache because ruler itself lost it earlier in this history
                            if !available && tr.lost_by_ruler.contains(o) && ran.contains_key(i)
                            {
                                out.violation("C02:rebuild-of-an-output-ruler-lost", format!("rule {:?} was already built from identical sources; its earlier output {:?} should have been in the cache but an earlier build or clean of this history dropped it, so the command ran again", r.targets, String::from_utf8_lossy(o)), replay());
                            }
                        }
                        if obliged && ran.contains_key(i)
                        {
                            out.violation("C02:unnecessary-rebuild", format!("rule {:?} was already built from identical sources and its outputs were in place or in the cache, yet its command ran", r.targets), replay());
                        }
                        else if obliged_literally && ran.contains_key(i)
                        {
                            // the literal reading of C02: the output IS in the cache when the build starts, but another target
                            // wants the same (byte-identical) cache entry and a restore moves it out — a known finding
                            out.violation("C02:revert-reruns-byte-identical-outputs", format!("rule {:?} was already built from identical sources and its earlier output was in the cache when the build started, yet its command ran: another target with byte-identical content took the one cache entry", r.targets), replay());
                        }
                    }
                }
            }
            // repeating a build with nothing changed: no command, nothing outside the ruler directory modified
            if tr.last_ok_build == Some(goal.clone())
            {
                if !inv.commands.is_empty()
                {
                    out.violation("C02:repeat-build-runs-command", format!("a repeated build with nothing changed ran {:?}", inv.commands.iter().map(|c| c.1.clone()).collect::<Vec<_>>()), replay());
                }
                if let Some(c) = inv.calls.iter().find(|c| c.mutating && (!in_ruler_dir(&c.path) || (!c.path2.is_empty() && !in_ruler_dir(&c.path2))))
                {
                    out.violation("C02:repeat-build-modifies-files", format!("a repeated build with nothing changed did {} on {:?}", c.op, c.path), replay());
                }
            }
        }

        // ---- C20: status lines tell the truth ----
        {
            let mut per_path : BTreeMap<String, Vec<String>> = BTreeMap::new();
            for (b, p) in inv.banners.iter() { per_path.entry(p.clone()).or_insert(vec![]).push(b.clone()); }
            // which rules finished successfully, by an independent reading: a rule finished iff it is in
            // scope and neither failed nor was blocked from scratch... but recovered rules can finish even
            // when their command would fail now only if sources are identical; use ruler-independent facts:
            // a target got a banner => check the banner against what happened to the file
            for (p, bs) in per_path.iter()
            {
                if bs.len() != 1
                {
                    out.violation("C20:several-status-lines", format!("target {:?} got {} status lines: {:?}", p, bs.len(), bs), replay());
                    continue;
                }
                let owner = sc.owner(p);
                let ran_cmd = owner.map(|i| ran.contains_key(&i)).unwrap_or(false);
                let moved_in = inv.calls.iter().any(|c| c.op == "rename" && c.ok && !c.in_command && c.path.starts_with(&cache_prefix()) && &c.path2 == p);
                let touched = inv.calls.iter().any(|c| c.mutating && c.ok && (&c.path == p || &c.path2 == p));
                let expected = if ran_cmd { "Built" } else if moved_in { "Recovered" } else if !touched { "Up-to-date" } else { "?" };
                if bs[0] != expected && !(expected == "?" )
                {
                    out.violation("C20:wrong-status", format!("target {:?} is reported {:?} but what happened is {:?} (command ran: {}, moved in from cache: {}, touched: {})", p, bs[0], expected, ran_cmd, moved_in, touched), replay());
                }
                if owner.is_none() { out.violation("C20:status-for-non-target", format!("{:?} got a status line but is no rule's target", p), replay()); }
            }
            // every target of every rule that finished gets a line: a rule whose command ran and whose build
            // did not report an error for it finished; with verdict ok every in-scope rule finished
            if inv.verdict.is_ok()
            {
                for t in in_scope_targets.iter()
                {
                    if !per_path.contains_key(t) { out.violation("C20:missing-status", format!("build succeeded but target {:?} got no status line", t), replay()); }
                }
            }
            // a rule whose command ran in this build, and whose command succeeds on the current sources, has
            // finished — whatever happened to other rules: each of its targets needs its line
            if let (Some(scratch), Some(scope)) = (&scratch, &scope)
            {
                if tr.deterministic && !matches!(inv.verdict, Verdict::Panic(_) | Verdict::Fatal(_)) && !inv.deadlock
                {
                    for i in scope.iter()
                    {
                        if let RuleOutcome::Built(cs) = &scratch[*i]
                        {
                            if !ran.contains_key(i) { continue; }
                            let in_place = sc.rules[*i].targets.iter().zip(cs.iter()).all(|(t, c)| files_after.get(t) == Some(c));
                            if !in_place { continue; }
                            for t in sc.rules[*i].targets.iter()
                            {
                                if !per_path.contains_key(t) { out.violation("C20:missing-status-for-finished-rule", format!("the command of {:?} ran in this build and its targets are in place, but {:?} got no status line", sc.rules[*i].targets, t), replay()); break; }
                            }
                        }
                    }
                }
            }
            // targets of failed or blocked rules get no success status
            if let (Some(scratch), Some(scope)) = (&scratch, &scope)
            {
                if tr.deterministic && !coarse
                {
                    for i in scope.iter()
                    {
                        if matches!(scratch[*i], RuleOutcome::Blocked)
                        {
                            for t in sc.rules[*i].targets.iter()
                            {
                                if per_path.contains_key(t) { out.violation("C20:status-for-cancelled-rule", format!("rule of {:?} cannot have finished (a prerequisite fails or is missing) but got a status line", t), replay()); }
                            }
                        }
                    }
                }
            }
        }

        // ---- C04 (serial part): failures contained, reported once, not remembered ----
        if tr.deterministic && !coarse
        {
            if let (Some(scratch), Some(scope)) = (&scratch, &scope)
            {
                // a dependent of a failing/blocked rule never runs its command
                for i in scope.iter()
                {
                    if matches!(scratch[*i], RuleOutcome::Blocked) && ran.contains_key(i)
                    {
                        out.violation("C04:dependent-of-failure-ran", format!("rule {:?} depends on something that failed or is missing, yet its command ran", sc.rules[*i].targets), replay());
                    }
                }
                // a missing leaf is reported, by name, exactly once
                let mut missing : BTreeSet<String> = BTreeSet::new();
                for i in scope.iter() { for s in sc.rules[*i].sources.iter() { if sc.owner(s).is_none() && !files_before.contains_key(s) { missing.insert(s.clone()); } } }
                if let Verdict::WorkErrors(es) = &inv.verdict
                {
                    for m in missing.iter()
                    {
                        let want = sexp::paren(&["FileNotFound".to_string(), sexp::hex(m.as_bytes())]);
                        let n = es.iter().filter(|e| **e == want).count();
                        if n != 1 { out.violation("C04:missing-leaf-not-reported-once", format!("missing source {:?} is reported {} times", m, n), replay()); }
                    }
                }
                if !missing.is_empty() && inv.verdict.is_ok()
                {
                    out.violation("C04:failure-not-reported", format!("sources {:?} are missing but the build reports success", missing), replay());
                }
                // nothing is recorded for a failed execution: the file-state table on disk has no entry for a target of a
                // rule that failed in this build
                if let Some(tbl) = inv.after.files.get(&world::table_path()).and_then(|n| world::bincode_table(&n.content))
                {
                    for i in scope.iter()
                    {
                        if !matches!(scratch[*i], RuleOutcome::Fails(_)) || !ran.contains_key(i) { continue; }
                        if let Some(t) = sc.rules[*i].targets.iter().find(|t| tbl.iter().any(|(k, _)| k == t.as_bytes()))
                        {
                            out.violation("C04:failed-execution-recorded", format!("the command of {:?} failed in this build, yet the file-state table written afterwards remembers a state for {:?}", sc.rules[*i].targets, t), replay());
                            break;
                        }
                    }
                }
                // exactly one error per failed rule (its command exits non-zero or leaves a declared target ungenerated
                // when run from scratch on the current sources) and per missing leaf; rules that only depend on a
                // failure add none
                let failing : Vec<usize> = scope.iter().filter(|i| matches!(scratch[**i], RuleOutcome::Fails(_))).cloned().collect();
                let expected = failing.len() + missing.len();
                match &inv.verdict
                {
                    Verdict::Ok if !failing.is_empty() =>
                    {
                        let i = failing[0];
                        out.violation("C04:failed-rule-not-reported", format!("rule {:?} fails when run on the current sources ({}), yet the build reports success", sc.rules[i].targets, match &scratch[i] { RuleOutcome::Fails(w) => w.clone(), _ => String::new() }), replay());
                    },
                    Verdict::WorkErrors(es) if es.len() != expected =>
                    {
                        out.violation("C04:wrong-number-of-errors", format!("{} rules fail and {} leaves are missing, but {} errors are reported: {:?}", failing.len(), missing.len(), es.len(), es), replay());
                        out.violation("C20:failure-not-reported-once", format!("{} rules fail and {} leaves are missing, but {} errors are reported: {:?}", failing.len(), missing.len(), es.len(), es), replay());
                    },
                    _ => {},
                }
            }
        }

        // ---- ledger update (C02): rules whose command ran and that finished (banner Built) ----
        if !matches!(inv.verdict, Verdict::Fatal(_) | Verdict::Panic(_))
        {
            for (i, _) in ran.iter()
            {
                let r = &sc.rules[*i];
                if !r.targets.iter().all(|t| inv.banners.iter().any(|(b, p)| p == t && b == "Built")) { continue; }
                let mut sorted_sources = r.sources.clone();
                sorted_sources.sort();
                let srcs : Option<Vec<Vec<u8>>> = sorted_sources.iter().map(|s| files_after.get(s).cloned()).collect();
                let mut sorted_targets = r.targets.clone();
                sorted_targets.sort();
                let outs : Option<Vec<Vec<u8>>> = sorted_targets.iter().map(|t| files_after.get(t).cloned()).collect();
                if let (Some(srcs), Some(outs)) = (srcs, outs)
                {
                    let ident = r.identity(sc.split_tokens);
                    if !tr.ledger.iter().any(|(id, s, _)| *id == ident && *s == srcs) { tr.ledger.push((ident, srcs, outs)); }
                }
            }
        }
        tr.last_ok_build = if inv.verdict.is_ok() { Some(goal.clone()) } else { None };
    }
    else
    {
        // ---- C10 (first half): after a clean no in-scope target exists and each one's content is in the cache ----
        if inv.verdict.is_ok()
        {
            for t in in_scope_targets.iter()
            {
                if inv.after.files.contains_key(t)
                {
                    out.violation("C10:target-survives-clean", format!("target {:?} still exists after clean", t), replay());
                }
                if let Some(n) = inv.before.files.get(t)
                {
                    let kept = inv.after.files.iter().any(|(p, m)| p.starts_with(&cache_prefix()) && m.content == n.content);
                    if !kept { out.violation("C10:cleaned-content-not-in-cache", format!("the content of {:?} is not in the cache after clean", t), replay()); }
                }
            }
            if !inv.commands.is_empty() { out.violation("C10:clean-runs-command", "clean ran a command".to_string(), replay()); }
        }
        // C10 (second half) is checked at the build that directly follows, when the targets were up to date before this clean
        tr.cleaned_up_to_date = None;
        if inv.verdict.is_ok() && tr.last_ok_build == Some(goal.clone()) && ops_so_far.len() >= 2 && matches!(&ops_so_far[ops_so_far.len() - 2], Op::Build(g) if *g == goal)
        {
            let snap : BTreeMap<String, (Vec<u8>, bool)> = in_scope_targets.iter().filter_map(|t| inv.before.files.get(t).map(|n| (t.clone(), ((*n.content).clone(), n.exec)))).collect();
            tr.cleaned_up_to_date = Some((ops_so_far.len(), goal.clone(), snap));
        }
        tr.last_ok_build = None;
    }
}

/// Generate and run one history. The ops are chosen while running (they depend on what is on disk).
pub type BuildResult = (usize, String, BTreeMap<String, Vec<u8>>);

pub fn run_history(out : &mut Out, rng : &mut Rng, params : &HistParams, label : &str) -> (Vec<Op>, Vec<String>, usize, usize, Vec<BuildResult>)
{
    let driver = Driver::new(if params.coarse { ClockMode::Coarse } else { ClockMode::Fine }, params.t0);
    let mut tr = Tracker::new(label, params.flavor != Flavor::Undeclared);
    let mut ops : Vec<Op> = vec![];
    let mut obs : Vec<String> = vec![];
    let mut builds = 0;
    let mut ok_builds = 0;
    let mut results : Vec<BuildResult> = vec![];

    let gp = GenParams{max_rules : params.max_rules, flavor : params.flavor};
    let mut scenario = scenario::gen_scenario(rng, &gp);
    let mut source_pool : BTreeSet<String> = BTreeSet::new();
    for r in &scenario.rules { for s in &r.sources { if scenario.owner(s).is_none() { source_pool.insert(s.clone()); } } }

    let mut apply_user = |op : Op, ops : &mut Vec<Op>, obs : &mut Vec<String>, tr : &mut Tracker|
    {
        driver.user(&op);
        driver.tick();
        obs.push(world::show_obs(None, &driver.sys.disk()));
        ops.push(op);
        tr.last_ok_build = None;
    };

    // initial state: rules file and sources
    apply_user(Op::Write(RULES_PATH.to_string(), scenario.render().into_bytes()), &mut ops, &mut obs, &mut tr);
    tr.scenario = Some(scenario.clone());
    tr.ever_targets.extend(scenario.all_targets());
    for s in source_pool.clone().iter()
    {
        if params.flavor == Flavor::WithFailures && rng.chance(1, 8) { continue; }   // a missing leaf
        apply_user(Op::Write(s.clone(), rng.pick(scenario::CONTENTS).as_bytes().to_vec()), &mut ops, &mut obs, &mut tr);
    }
    if params.flavor == Flavor::Undeclared
    {
        apply_user(Op::Write("undeclared".to_string(), b"U0".to_vec()), &mut ops, &mut obs, &mut tr);
    }

    let n_ops = rng.range(params.max_ops / 2, params.max_ops);
    for step in 0..n_ops
    {
        let disk = driver.sys.disk();
        let targets : Vec<String> = tr.scenario.as_ref().map(|s| s.all_targets().into_iter().collect()).unwrap_or(vec![]);
        let existing_targets : Vec<String> = targets.iter().filter(|t| disk.files.contains_key(*t)).cloned().collect();
        let cache_entries : Vec<String> = disk.files.keys().filter_map(|p| p.strip_prefix(&cache_prefix()).map(|s| s.to_string())).collect();
        let hist_files : Vec<String> = disk.files.keys().filter_map(|p| p.strip_prefix(&history_prefix()).map(|s| s.to_string())).collect();
        // a goal is mostly a declared target; one in eight is NOT one (a prefix of a target's name, a target's name
        // with a trailing slash, a leaf, a name that occurs nowhere): ruler must refuse it and touch nothing
        let leaves_now : Vec<String> = source_pool.iter().cloned().collect();
        let goal = |rng : &mut Rng| -> Option<String>
        {
            if targets.is_empty() || rng.chance(1, 2) { return None; }
            if rng.chance(1, 8)
            {
                let t = rng.pick(&targets).clone();
                return Some(match rng.below(4)
                {
                    0 => format!("{}/", t),
                    1 => t.chars().take(std::cmp::max(1, t.chars().count() / 2)).collect(),
                    2 => if leaves_now.is_empty() { "nosuch".to_string() } else { rng.pick(&leaves_now).clone() },
                    _ => "nosuch".to_string(),
                });
            }
            Some(rng.pick(&targets).clone())
        };
        let roll = if step == 0 { 0 } else { rng.below(100) };
        // the user moves a target aside (`mv t t.bak`) and, later, an older copy back (`mv t.bak t`): the file keeps
        // its modification time, which is OLDER than what ruler remembers for the path by then
        let stashed : Vec<String> = disk.files.keys().filter(|p| p.ends_with(".bak")).cloned().collect();
        let move_op : Option<Op> =
            if !MOVE_OPS || step == 0 || !rng.chance(1, 10) { None }
            else if !stashed.is_empty() && rng.chance(2, 3) { let b = rng.pick(&stashed).clone(); Some(Op::Move(b.clone(), b[..b.len() - 4].to_string())) }
            else if !existing_targets.is_empty() { let t = rng.pick(&existing_targets).clone(); Some(Op::Move(t.clone(), format!("{}.bak", t))) }
            else { None };
        let op : Op =
        if let Some(m) = move_op { m }
        else if roll < 34 { Op::Build(goal(rng)) }
        else if roll < 42 { Op::Clean(goal(rng)) }
        else if roll < 60
        {
            // edit or revert a source
            let pool : Vec<String> = source_pool.iter().cloned().collect();
            Op::Write(rng.pick(&pool).clone(), rng.pick(scenario::CONTENTS).as_bytes().to_vec())
        }
        else if roll < 68 && !existing_targets.is_empty() { Op::Write(rng.pick(&existing_targets).clone(), rng.pick(&["tampered", "X", "Y", ""]).as_bytes().to_vec()) }
        else if roll < 75 && !existing_targets.is_empty() { Op::Remove(rng.pick(&existing_targets).clone()) }
        else if roll < 81 && !cache_entries.is_empty() { Op::RmCache(rng.pick(&cache_entries).clone()) }
        else if roll < 84 && !existing_targets.is_empty() { Op::Chmod(rng.pick(&existing_targets).clone(), rng.chance(2, 3)) }
        else if roll < 90 && params.edit_rules
        {
            if rng.chance(1, 6)
            {
                // an invalid rules file
                let bad = *rng.pick(&["P\n:\na\n:\n", "P\n:\na\n:\ngen P @a\n:\n\nP\n:\nb\n:\ngen P @b\n:\n", "P\n:\nQ\n:\ngen P @Q\n:\n\nQ\n:\nP\n:\ngen Q @P\n:\n", ":\n", "P\n\n:\n"]);
                tr.scenario = None;
                Op::Write(RULES_PATH.to_string(), bad.as_bytes().to_vec())
            }
            else
            {
                scenario = scenario::mutate_scenario(rng, &scenario);
                for r in &scenario.rules { for s in &r.sources { if scenario.owner(s).is_none() { source_pool.insert(s.clone()); } } }
                tr.scenario = Some(scenario.clone());
                tr.ever_targets.extend(scenario.all_targets());
                Op::Write(RULES_PATH.to_string(), scenario.render().into_bytes())
            }
        }
        else if roll < 94 && params.delete_ruler
        {
            match rng.below(5)
            {
                0 => Op::RmRuler,
                1 => Op::RmCacheDir,
                2 => Op::RmHistDir,
                3 => Op::RmTable,
                _ => if hist_files.is_empty() { Op::RmTable } else { Op::RmHist(rng.pick(&hist_files).clone()) },
            }
        }
        else if roll < 97
        {
            // delete a source (missing leaf) — only where failures are wanted
            if params.flavor == Flavor::WithFailures { let pool : Vec<String> = source_pool.iter().cloned().collect(); Op::Remove(rng.pick(&pool).clone()) }
            else { Op::Build(None) }
        }
        else { Op::Build(goal(rng)) };

        match &op
        {
            Op::Build(_) | Op::Clean(_) =>
            {
                let inv = driver.invoke(&op, params.policy.clone());
                driver.tick();
                ops.push(op.clone());
                obs.push(world::show_obs(Some(&inv), &driver.sys.disk()));
                if let Op::Build(_) = op { builds += 1; if inv.verdict.is_ok() { ok_builds += 1; } }
                results.push((ops.len() - 1, inv.verdict.show(), disk_files(&inv.after)));
                out.count(&format!("{}:{}", match op { Op::Build(_) => "build", _ => "clean" }, match &inv.verdict { Verdict::Ok => "ok", Verdict::WorkErrors(_) => "errs", Verdict::Fatal(_) => "fatal", Verdict::Panic(_) => "panic" }));
                for (b, _) in inv.banners.iter() { out.count(&format!("status:{}", b)); }
                monitor_invocation(out, &mut tr, &inv, &op, params.coarse, params.t0, &ops);
            },
            Op::RmRuler | Op::RmHistDir | Op::RmHist(_) =>
            {
                // the persisted record of earlier builds is gone (wholly or partly): C02's obligation is void
                tr.ledger.clear();
                out.count(&format!("op:{}", op.show().split(|c| c == ' ' || c == ')').next().unwrap_or("?").trim_start_matches('(')));
                apply_user(op, &mut ops, &mut obs, &mut tr);
            },
            _ =>
            {
                out.count(&format!("op:{}", op.show().split(|c| c == ' ' || c == ')').next().unwrap_or("?").trim_start_matches('(')));
                apply_user(op, &mut ops, &mut obs, &mut tr);
            },
        }
    }
    (ops, obs, builds, ok_builds, results)
}

/// Run a given list of operations (corpus case, replay, or the second run of a pair).
pub fn run_fixed(out : &mut Out, label : &str, coarse : bool, t0 : u64, ops : &[Op], deterministic : bool, policy : &Policy, monitors : bool)
    -> (Vec<String>, Vec<BuildResult>)
{
    let driver = Driver::new(if coarse { ClockMode::Coarse } else { ClockMode::Fine }, t0);
    // swap_ops' undeclared input `u`: commands are then no functions of their declared sources
    let deterministic = deterministic && !ops.iter().any(|o| matches!(o, Op::Write(p, _) if p == "u"));
    let mut tr = Tracker::new(label, deterministic);
    let mut obs : Vec<String> = vec![];
    let mut results : Vec<BuildResult> = vec![];
    for (k, op) in ops.iter().enumerate()
    {
        match op
        {
            Op::Build(_) | Op::Clean(_) =>
            {
                let inv = driver.invoke(op, policy.clone());
                driver.tick();
                obs.push(world::show_obs(Some(&inv), &driver.sys.disk()));
                results.push((k, inv.verdict.show(), disk_files(&inv.after)));
                if monitors { monitor_invocation(out, &mut tr, &inv, op, coarse, t0, &ops[..k + 1]); }
            },
            _ =>
            {
                if let Op::Write(p, c) = op
                {
                    if p == RULES_PATH
                    {
                        tr.scenario = scenario::scenario_from_text(&String::from_utf8_lossy(c)).filter(|s| s.well_formed());
                        if let Some(sc) = &tr.scenario { tr.ever_targets.extend(sc.all_targets()); }
                    }
                }
                if matches!(op, Op::RmRuler | Op::RmHistDir | Op::RmHist(_)) { tr.ledger.clear(); }
                driver.user(op);
                driver.tick();
                obs.push(world::show_obs(None, &driver.sys.disk()));
                tr.last_ok_build = None;
            },
        }
    }
    (obs, results)
}

/// corpus cases of a suite run first, through the same monitors and as correspondence cases
pub fn run_corpus(out : &mut Out, suite : &str, deterministic : bool)
{
    for (name, line) in world::corpus_cases(suite)
    {
        if let Some((coarse, t0, ops)) = world::parse_history_case(&line)
        {
            let (obs, _) = run_fixed(out, &format!("corpus:{}", name), coarse, t0, &ops, deterministic, &Policy::Serial, true);
            out.count("corpus-case");
            emit_case(out, coarse, t0, &ops, &obs, true);
        }
    }
}

fn emit_case(out : &mut Out, coarse : bool, t0 : u64, ops : &[Op], obs : &[String], nontrivial : bool)
{
    out.case(world::show_history_case(coarse, t0, ops), sexp::list(obs.to_vec()), nontrivial);
}

/// C01/C02/C07/C08/C09/C20 histories: deterministic commands, fine clock, full alphabet.
pub fn histories(ctx : &Ctx, out : &mut Out)
{
    run_corpus(out, "hist", true);
    let mut rng = Rng::new(ctx.seed).fork(1);
    let n = if ctx.thorough { 4000 } else { 260 };
    for i in 0..n
    {
        let params = HistParams
        {
            flavor : if i % 4 == 3 { Flavor::WithFailures } else { Flavor::Plain },
            max_rules : if ctx.thorough { 9 } else { 6 },
            max_ops : if ctx.thorough { 24 } else { 12 },
            coarse : false,
            t0 : 1_000_000,
            delete_ruler : i % 3 != 0,
            edit_rules : i % 2 == 0,
            policy : Policy::Serial,
        };
        let mut r = rng.fork(i as u64);
        // a fifth of the histories on a file system whose reads come in pieces of 3 bytes
        crate::memsys::set_default_read_chunk(if i % 5 == 2 { 3 } else { 0 });
        let (ops, obs, builds, ok_builds, _) = run_history(out, &mut r, &params, "hist");
        crate::memsys::set_default_read_chunk(0);
        emit_case(out, false, params.t0, &ops, &obs, ok_builds > 0);
    }
}



/// Histories aimed at what the modification-time shortcut can get wrong: a two-target rule (or two rules) copying
/// the leaves `a` and `b`, whose values are exchanged and put back between builds, so that files written in one
/// tick travel through the cache and come back at paths whose remembered state carries the same time; an extra
/// rule that a rules-file edit makes fail (and later repairs), cleans (all / one target) and repeated builds.
pub fn swap_ops(r : &mut Rng) -> Vec<Op>
{
    let two_target = r.chance(1, 2);
    let with_top = r.chance(1, 3);
    // the two-target rule reads an UNDECLARED (always empty) file `u`: while `u` is away the rule's command fails for a
    // reason that changes neither the rule nor its sources — possibly after some of its targets were already restored
    let with_undeclared = two_target && r.chance(1, 3);
    let render = |bad : bool| -> Vec<u8>
    {
        let mk = |ts : Vec<&str>, ss : Vec<&str>, script : Vec<String>| RuleSpec{targets : ts.iter().map(|x| x.to_string()).collect(), sources : ss.iter().map(|x| x.to_string()).collect(), script : script, raw_command : None};
        let mut rules = vec![];
        if two_target { rules.push(mk(vec!["t1", "t2"], vec!["a", "b"], vec![if with_undeclared { "gen t1 @a @u".to_string() } else { "gen t1 @a".to_string() }, "gen t2 @b".to_string()])); }
        else { rules.push(mk(vec!["t1"], vec!["a"], vec!["gen t1 @a".to_string()])); rules.push(mk(vec!["t2"], vec!["b"], vec!["gen t2 @b".to_string()])); }
        if with_top { rules.push(mk(vec!["top"], vec!["t1", "t2"], vec!["gen top @t1 =+ @t2".to_string()])); }
        if bad { rules.push(mk(vec!["bad"], vec!["a"], vec!["fail".to_string()])); }
        Scenario{rules : rules, split_tokens : false}.render().into_bytes()
    };
    let vals = ["1", "2", "3"];
    let mut ops = vec![];
    let mut bad = false;
    ops.push(Op::Write(RULES_PATH.to_string(), render(bad)));
    let mut cur = (0usize, 1usize);
    let mut seen : Vec<(usize, usize)> = vec![cur];
    ops.push(Op::Write("a".to_string(), vals[cur.0].as_bytes().to_vec()));
    ops.push(Op::Write("b".to_string(), vals[cur.1].as_bytes().to_vec()));
    if with_undeclared { ops.push(Op::Write("u".to_string(), vec![])); }
    let mut u_there = true;
    ops.push(Op::Build(None));
    for _ in 0..r.range(3, 7)
    {
        if with_undeclared && r.chance(1, 3) { if u_there { ops.push(Op::Remove("u".to_string())); } else { ops.push(Op::Write("u".to_string(), vec![])); } u_there = !u_there; }
        // new leaf values: exchange, go back to an earlier pair, or something new
        let next = match r.below(5) { 0 | 1 => (cur.1, cur.0), 2 | 3 => *r.pick(&seen), _ => (r.below(3), r.below(3)) };
        if next.0 != cur.0 { ops.push(Op::Write("a".to_string(), vals[next.0].as_bytes().to_vec())); }
        if next.1 != cur.1 { ops.push(Op::Write("b".to_string(), vals[next.1].as_bytes().to_vec())); }
        cur = next;
        if !seen.contains(&cur) { seen.push(cur); }
        if r.chance(1, 3) { bad = !bad; ops.push(Op::Write(RULES_PATH.to_string(), render(bad))); }
        if r.chance(1, 4) { ops.push(Op::Clean(if r.chance(1, 2) { None } else { Some(r.pick(&["t1", "t2"]).to_string()) })); }
        ops.push(Op::Build(if r.chance(1, 6) { Some(r.pick(&["t1", "t2"]).to_string()) } else { None }));
        if r.chance(1, 5) { ops.push(Op::Build(None)); }
    }
    if bad { ops.push(Op::Write(RULES_PATH.to_string(), render(false))); }
    if with_undeclared && !u_there { ops.push(Op::Write("u".to_string(), vec![])); }
    ops.push(Op::Build(None));
    ops.push(Op::Clean(None));
    ops.push(Op::Build(None));
    ops
}

/// C18: the modification-time shortcut never changes a result. Every history is run twice — as is, and
/// with the file-state table erased before every build — under both clock models; verdicts and
/// workspace contents after every build must agree. All runs are correspondence cases as well.
pub fn shortcut(ctx : &Ctx, out : &mut Out)
{
    // corpus: paired as well
    for (name, line) in world::corpus_cases("c18")
    {
        if let Some((coarse, t0, ops)) = world::parse_history_case(&line)
        {
            out.count("corpus-case");
            paired(out, &format!("corpus:{}", name), coarse, t0, &ops, None);
        }
    }
    let mut rng = Rng::new(ctx.seed).fork(18);
    let n = if ctx.thorough { 3000 } else { 120 };
    for i in 0..n
    {
        let coarse = i % 2 == 0;
        let params = HistParams
        {
            flavor : Flavor::Plain,
            max_rules : if ctx.thorough { 8 } else { 5 },
            max_ops : if ctx.thorough { 22 } else { 14 },
            coarse : coarse,
            t0 : 1_000_000,
            delete_ruler : i % 5 == 0,
            edit_rules : i % 3 == 0,
            policy : Policy::Serial,
        };
        let mut r = rng.fork(i as u64);
        // monitors of the other properties assume distinct mtimes: run_history switches them off for coarse
        let (ops, obs, _, ok_builds, results) = run_history(out, &mut r, &params, "c18");
        emit_case(out, coarse, params.t0, &ops, &obs, ok_builds > 0);
        paired(out, "c18", coarse, params.t0, &ops, Some(results));
    }
}


/// Histories aimed at rules with several targets whose targets end up in DIFFERENT states in one build: each
/// target of one rule depends on its own subset of the leaves, single leaves are edited and put back, single
/// targets deleted or tampered with, so that one build finds some targets up to date, some recoverable from the
/// cache, some absent — in every order of the (sorted) target list.
pub fn mixed_ops(r : &mut Rng) -> Vec<Op>
{
    let mk = |ts : Vec<&str>, ss : Vec<&str>, script : Vec<String>| RuleSpec{targets : ts.iter().map(|x| x.to_string()).collect(), sources : ss.iter().map(|x| x.to_string()).collect(), script : script, raw_command : None};
    let leaves = ["a", "b", "c"];
    let n_targets = r.range(2, 3);
    let names = ["t1", "t2", "t3"];
    let mut script = vec![];
    for k in 0..n_targets
    {
        // target k reads a non-empty subset of the leaves, and carries its own tag so that contents differ
        let mut pieces = vec![format!("={}", names[k])];
        let mut any = false;
        for l in leaves.iter() { if r.chance(1, 2) { pieces.push(format!("@{}", l)); any = true; } }
        if !any { pieces.push(format!("@{}", leaves[k % 3])); }
        script.push(format!("gen {} {}", names[k], pieces.join(" ")));
    }
    let mut rules = vec![mk(names[..n_targets].to_vec(), leaves.to_vec(), script)];
    if r.chance(1, 2) { rules.push(mk(vec!["top"], vec!["t1", "t2"], vec!["gen top @t1 @t2".to_string()])); }
    let text = Scenario{rules : rules, split_tokens : false}.render().into_bytes();
    let vals = ["1", "2"];
    let mut ops = vec![Op::Write(RULES_PATH.to_string(), text)];
    for l in leaves.iter() { ops.push(Op::Write(l.to_string(), vals[0].as_bytes().to_vec())); }
    ops.push(Op::Build(None));
    for _ in 0..r.range(3, 8)
    {
        match r.below(6)
        {
            0 | 1 | 2 => { let l = *r.pick(&leaves); ops.push(Op::Write(l.to_string(), r.pick(&vals).as_bytes().to_vec())); },
            3 => { ops.push(Op::Remove(r.pick(&names[..n_targets]).to_string())); },
            4 => { ops.push(Op::Write(r.pick(&names[..n_targets]).to_string(), b"tampered".to_vec())); },
            _ => { ops.push(Op::Clean(if r.chance(1, 2) { None } else { Some(r.pick(&names[..n_targets]).to_string()) })); },
        }
        if r.chance(2, 3) { ops.push(Op::Build(None)); }
    }
    ops.push(Op::Build(None));
    // now and then: one target deleted while a leaf it reads goes back and forth, a build after every change (what
    // was displaced in one build must still be recoverable two builds later)
    if r.chance(1, 3)
    {
        let l = *r.pick(&leaves);
        let t = r.pick(&names[..n_targets]).to_string();
        let flip = |v : &str| if v == "1" { "2" } else { "1" };
        let mut v = *r.pick(&vals);
        ops.push(Op::Write(l.to_string(), v.as_bytes().to_vec())); ops.push(Op::Build(None));
        ops.push(Op::Remove(t));
        for _ in 0..4 { v = flip(v); ops.push(Op::Write(l.to_string(), v.as_bytes().to_vec())); ops.push(Op::Build(None)); }
    }
    // now and then: an early copy of a target is moved aside, the target is rebuilt with other content and cleaned
    // into the cache, the early copy (older than what ruler remembers for the path) is moved back, a leaf changes, build
    if MOVE_OPS && r.chance(1, 3)
    {
        let t = r.pick(&names[..n_targets]).to_string();
        ops.push(Op::Move(t.clone(), format!("{}.bak", t)));
        for l in leaves.iter() { ops.push(Op::Write(l.to_string(), b"3".to_vec())); }
        ops.push(Op::Build(None));
        ops.push(Op::Clean(if r.chance(1, 2) { None } else { Some(t.clone()) }));
        ops.push(Op::Move(format!("{}.bak", t), t.clone()));
        if r.chance(1, 2) { ops.push(Op::Write(r.pick(&leaves).to_string(), b"4".to_vec())); }
        ops.push(Op::Build(None));
        ops.push(Op::Build(None));
    }
    // now and then: everything brought up to date from leaf values "1"; one target moved aside; the leaves change and
    // come back with a build in between; the copy (what the history remembers for these sources, only OLDER than what
    // the table remembers for the path) is moved back: the next builds must run nothing
    if MOVE_OPS && r.chance(1, 3)
    {
        let t = r.pick(&names[..n_targets]).to_string();
        for l in leaves.iter() { ops.push(Op::Write(l.to_string(), b"1".to_vec())); }
        ops.push(Op::Build(None));
        ops.push(Op::Move(t.clone(), format!("{}.bak", t)));
        for l in leaves.iter() { ops.push(Op::Write(l.to_string(), b"7".to_vec())); }
        ops.push(Op::Build(None));
        for l in leaves.iter() { ops.push(Op::Write(l.to_string(), b"1".to_vec())); }
        ops.push(Op::Move(format!("{}.bak", t), t.clone()));
        ops.push(Op::Build(None));
        ops.push(Op::Build(None));
    }
    ops
}

pub fn mixed(ctx : &Ctx, out : &mut Out)
{
    let mut rng = Rng::new(ctx.seed).fork(2020);
    let n = if ctx.thorough { 3000 } else { 120 };
    for i in 0..n
    {
        let mut r = rng.fork(i as u64);
        let ops = mixed_ops(&mut r);
        let (obs, _) = run_fixed(out, "mixed", false, 1_000_000, &ops, true, &Policy::Serial, true);
        emit_case(out, false, 1_000_000, &ops, &obs, true);
    }
}


/// A path changes its role: it is a target of a rule, gets built and cleaned (so ruler remembers it and the cache
/// holds it), then the rule is dropped from the rules file while another rule still lists the path as a source — it is
/// now an undeclared plain source that does not exist. Ruler must report the missing file and create nothing there.
/// Later the rule comes back. All monitors (C09 scope, C04 failure reporting, C01) and the model comparison apply.
pub fn dropped_rule(ctx : &Ctx, out : &mut Out)
{
    let mut rng = Rng::new(ctx.seed).fork(909);
    let n = if ctx.thorough { 1500 } else { 80 };
    for i in 0..n
    {
        let mut r = rng.fork(i as u64);
        let sc = scenario::gen_scenario(&mut r, &GenParams{max_rules : if ctx.thorough { 6 } else { 4 }, flavor : Flavor::Plain});
        if !sc.well_formed() { continue; }
        // a rule some other rule depends on
        let producers : Vec<usize> = (0..sc.rules.len()).filter(|j| sc.rules.iter().any(|o| o.sources.iter().any(|s| sc.rules[*j].targets.contains(s)))).collect();
        if producers.is_empty() { out.count("dropped:no-dependency"); continue; }
        let j = *r.pick(&producers);
        let mut without = sc.clone();
        without.rules.remove(j);
        if !without.well_formed() { continue; }
        let mut ops : Vec<Op> = vec![Op::Write(RULES_PATH.to_string(), sc.render().into_bytes())];
        let mut leaves : BTreeSet<String> = BTreeSet::new();
        for rule in &sc.rules { for s in &rule.sources { if sc.owner(s).is_none() { leaves.insert(s.clone()); } } }
        for l in leaves.iter() { ops.push(Op::Write(l.clone(), r.pick(scenario::CONTENTS).as_bytes().to_vec())); }
        ops.push(Op::Build(None));
        if r.chance(1, 3) { let l : Vec<String> = leaves.iter().cloned().collect(); ops.push(Op::Write(r.pick(&l).clone(), b"edited".to_vec())); ops.push(Op::Build(None)); }
        ops.push(Op::Clean(if r.chance(2, 3) { None } else { Some(r.pick(&sc.rules[j].targets).clone()) }));
        ops.push(Op::Write(RULES_PATH.to_string(), without.render().into_bytes()));
        ops.push(Op::Build(None));
        if r.chance(1, 2) { ops.push(Op::Build(None)); }
        ops.push(Op::Write(RULES_PATH.to_string(), sc.render().into_bytes()));
        ops.push(Op::Build(None));
        out.count("dropped:histories");
        let (obs, _) = run_fixed(out, "dropped", false, 1_000_000, &ops, true, &Policy::Serial, true);
        emit_case(out, false, 1_000_000, &ops, &obs, true);
        // the same rule written twice (as when two rules files carry a shared rule): the rules are rejected, and a build or
        // clean of a goal must leave the workspace exactly as it is — in particular the targets of the OTHER rules
        if sc.rules.len() >= 2
        {
            let mut twice = sc.clone();
            let dup = twice.rules[r.below(twice.rules.len())].clone();
            twice.rules.insert(0, dup);
            let mut ops2 = ops.clone();
            ops2.push(Op::Write(RULES_PATH.to_string(), twice.render().into_bytes()));
            let goal = r.pick(&sc.all_targets().into_iter().collect::<Vec<String>>()).clone();
            ops2.push(if r.chance(1, 2) { Op::Clean(Some(goal)) } else { Op::Build(Some(goal)) });
            let d = Driver::new(ClockMode::Fine, 1_000_000);
            let mut before = BTreeMap::new();
            let mut last : Option<Invocation> = None;
            for (k, op) in ops2.iter().enumerate()
            {
                if k + 1 == ops2.len() { before = disk_files(&d.sys.disk()); }
                match op { Op::Build(_) | Op::Clean(_) => { last = Some(d.invoke(op, Policy::Serial)); }, _ => d.user(op) }
                d.tick();
            }
            let after = disk_files(&d.sys.disk());
            out.count("dropped:rule-written-twice");
            if after != before
            {
                let changed : Vec<String> = after.iter().filter(|(p, c)| before.get(*p) != Some(c)).map(|(p, _)| p.clone()).chain(before.keys().filter(|p| !after.contains_key(*p)).cloned()).collect();
                out.violation("C09:touches-out-of-scope-path", format!("a rule is written twice in the rules file (no plan exists); {} changed {:?}; verdict {}", ops2.last().unwrap().describe(), changed, last.map(|i| i.verdict.show()).unwrap_or_default()), replay_json("dropped", false, 1_000_000, &ops2));
            }
            let (obs2, _) = run_fixed(out, "dropped", false, 1_000_000, &ops2, true, &Policy::Serial, false);
            emit_case(out, false, 1_000_000, &ops2, &obs2, false);
        }
    }
}

/// exchanged and restored leaf values (see swap_ops), with all monitors, mostly under the coarse clock; paired runs
/// (with / without the saved table) as in `shortcut`
pub fn swap(ctx : &Ctx, out : &mut Out)
{
    let mut rng = Rng::new(ctx.seed).fork(1818);
    let n_swap = if ctx.thorough { 3000 } else { 100 };
    for i in 0..n_swap
    {
        let coarse = i % 4 != 3;
        let mut r = rng.fork(1_000_000 + i as u64);
        let ops = swap_ops(&mut r);
        out.count(if coarse { "swap-histories:coarse" } else { "swap-histories:fine" });
        let (obs, results) = run_fixed(out, "swap", coarse, 1_000_000, &ops, true, &Policy::Serial, true);
        emit_case(out, coarse, 1_000_000, &ops, &obs, true);
        paired(out, "swap", coarse, 1_000_000, &ops, Some(results));
    }
}

/// The clock starts at 0 and the very first thing that happens is the user writing a TARGET path by hand, with a
/// value the rules will later produce: that file carries modification time 0 — the time of "nothing remembered"
/// (FileState::empty()) — is displaced into the cache by the first build and comes back through recoveries of the
/// swap histories. All monitors, both clocks, paired runs. (Files dated 1970-01-01 are what reproducible-build tools
/// and some archivers produce; defect F5 lived here.)
pub fn epoch(ctx : &Ctx, out : &mut Out)
{
    let mut rng = Rng::new(ctx.seed).fork(1970);
    let n = if ctx.thorough { 2000 } else { 80 };
    for i in 0..n
    {
        let coarse = i % 2 == 1;
        let mut r = rng.fork(i as u64);
        let mut ops = vec![];
        if coarse && i % 4 == 1
        {
            // directed: a copy dated 0 is kept aside, moved into the target path later (the user restores a backup), so that
            // ruler displaces it into the cache, later RECOVERS it (a file dated 0 at a path whose remembered state describes
            // another file), and displaces it again after the next edit
            let (x, y, z) = (r.pick(&["1", "2"]).to_string(), "3".to_string(), r.pick(&["4", "5"]).to_string());
            // (with the single rule no two files are ever written in one tick, so the monitors that assume distinct
            // modification times stay switched on although the clock is the coarse one)
            let mut rule_list = vec![RuleSpec{targets : vec!["t1".to_string()], sources : vec!["a".to_string()], script : vec!["gen t1 @a".to_string()], raw_command : None}];
            if i % 8 == 5 { rule_list.push(RuleSpec{targets : vec!["t2".to_string()], sources : vec!["t1".to_string()], script : vec!["gen t2 =T @t1".to_string()], raw_command : None}); }
            let rules = Scenario{rules : rule_list, split_tokens : false}.render().into_bytes();
            ops.push(Op::Write("t1.bak".to_string(), x.as_bytes().to_vec()));
            ops.push(Op::Write(RULES_PATH.to_string(), rules));
            ops.push(Op::Write("a".to_string(), x.as_bytes().to_vec())); ops.push(Op::Build(None));
            ops.push(Op::Write("a".to_string(), y.as_bytes().to_vec())); ops.push(Op::Build(None));
            ops.push(Op::Move("t1.bak".to_string(), "t1".to_string())); ops.push(Op::Build(None));
            ops.push(Op::Write("a".to_string(), x.as_bytes().to_vec())); ops.push(Op::Build(None));
            ops.push(Op::Write("a".to_string(), z.as_bytes().to_vec())); ops.push(Op::Build(None));
            ops.push(Op::Write("a".to_string(), y.as_bytes().to_vec())); ops.push(Op::Build(None));
            ops.push(Op::Write("a".to_string(), x.as_bytes().to_vec())); ops.push(Op::Build(None));
            ops.push(Op::Clean(None)); ops.push(Op::Build(None));
        }
        else
        {
            let target = if r.chance(1, 2) { "t1" } else { "t2" };
            ops.push(Op::Write(target.to_string(), r.pick(&["1", "2", "3"]).as_bytes().to_vec()));
            ops.extend(swap_ops(&mut r));
        }
        out.count(if coarse { "epoch-histories:coarse" } else { "epoch-histories:fine" });
        let (obs, results) = run_fixed(out, "epoch", coarse, 0, &ops, true, &Policy::Serial, true);
        emit_case(out, coarse, 0, &ops, &obs, true);
        paired(out, "epoch", coarse, 0, &ops, Some(results));
    }
}

fn paired(out : &mut Out, label : &str, coarse : bool, t0 : u64, ops : &[Op], first : Option<Vec<BuildResult>>)
{
    let first = match first
    {
        Some(r) => r,
        None => { let (obs, r) = run_fixed(out, label, coarse, t0, ops, true, &Policy::Serial, false); emit_case(out, coarse, t0, ops, &obs, true); r },
    };
    // second run: the table erased before every build
    let mut ops2 : Vec<Op> = vec![];
    let mut map_index : Vec<usize> = vec![];      // index in ops2 of each op of ops
    for op in ops.iter()
    {
        if let Op::Build(_) = op { ops2.push(Op::RmTable); }
        map_index.push(ops2.len());
        ops2.push(op.clone());
    }
    let (obs2, second) = run_fixed(out, label, coarse, t0, &ops2, true, &Policy::Serial, false);
    emit_case(out, coarse, t0, &ops2, &obs2, true);
    out.count(if coarse { "pairs:coarse" } else { "pairs:fine" });
    for (k, verdict, files) in first.iter()
    {
        if !matches!(ops[*k], Op::Build(_)) { continue; }
        let k2 = map_index[*k];
        if let Some((_, verdict2, files2)) = second.iter().find(|(j, _, _)| *j == k2)
        {
            if verdict != verdict2 || files != files2
            {
                let diff : Vec<String> = files.iter().filter(|(p, c)| files2.get(*p) != Some(c)).map(|(p, c)| format!("{}: {:?} with the table vs {:?} without", p, String::from_utf8_lossy(c), files2.get(p).map(|c| String::from_utf8_lossy(c).to_string()))).collect();
                out.violation(if coarse { "C18:shortcut-changes-result-coarse-clock" } else { "C18:shortcut-changes-result-fine-clock" },
                    format!("build #{} gives verdict {} with the saved file-state table and {} without it; {}", k, verdict, verdict2, diff.join("; ")),
                    replay_json(label, coarse, t0, &ops[..k + 1]));
                break;
            }
        }
    }
}

/// C17 and kills: "the earlier record is kept". A repeated build with nothing changed (which rewrites every rule's history
/// file) is killed at EVERY point of its mutation sequence; from each crash state the undeclared input changes, a
/// re-execution is forced and the build must still report the contradiction: the record must have survived the kill.
pub fn contradiction_after_kill(ctx : &Ctx, out : &mut Out)
{
    let mut rng = Rng::new(ctx.seed).fork(1711);
    let n = if ctx.thorough { 60 } else { 6 };
    let mut points = 0usize;
    for i in 0..n
    {
        let mut r = rng.fork(i as u64);
        let two = r.chance(1, 2);
        let mut rules = vec![RuleSpec{targets : if two { vec!["t".to_string(), "t.log".to_string()] } else { vec!["t".to_string()] }, sources : vec!["s".to_string()],
                                      script : if two { vec!["gen t @s @undeclared".to_string(), "gen t.log =log @s".to_string()] } else { vec!["gen t @s @undeclared".to_string()] }, raw_command : None}];
        if r.chance(1, 2) { rules.push(RuleSpec{targets : vec!["other".to_string()], sources : vec!["s".to_string()], script : vec!["gen other =o @s".to_string()], raw_command : None}); }
        if r.chance(1, 3) { rules.push(RuleSpec{targets : vec!["top".to_string()], sources : vec!["t".to_string()], script : vec!["gen top =T @t".to_string()], raw_command : None}); }
        let sc = Scenario{rules : rules, split_tokens : false};
        let mut driver = Driver::new(ClockMode::Fine, 1_000_000);
        let prep = vec![Op::Write(RULES_PATH.to_string(), sc.render().into_bytes()), Op::Write("s".to_string(), r.pick(scenario::CONTENTS).as_bytes().to_vec()), Op::Write("undeclared".to_string(), b"U0".to_vec()), Op::Build(None)];
        for op in prep.iter() { match op { Op::Build(_) | Op::Clean(_) => { driver.invoke(op, Policy::Serial); }, _ => driver.user(op) } driver.tick(); }
        driver.record_snapshots = true;
        let victim = driver.fork();
        let inv = victim.invoke(&Op::Build(None), Policy::Serial);
        let clock = victim.sys.with(|s| s.clock) + 5000;
        let mut snaps : Vec<(Disk, String)> = inv.snapshots.clone();
        snaps.push((inv.after.clone(), "end".to_string()));
        for (j, (disk, what)) in snaps.iter().enumerate()
        {
            points += 1;
            let d = Driver{sys : MemSys::from_disk(disk.clone(), ClockMode::Fine, clock), record_snapshots : false};
            let cont = vec![Op::Write("undeclared".to_string(), b"U1".to_vec()), if r.chance(1, 2) { Op::Remove("t".to_string()) } else { Op::Write("t".to_string(), b"tampered".to_vec()) }];
            for op in cont.iter() { d.user(op); d.tick(); }
            let b = d.invoke(&Op::Build(None), Policy::Serial);
            let reported = match &b.verdict { Verdict::WorkErrors(es) => es.iter().any(|e| e.starts_with("(Contradiction")), _ => false };
            if !reported
            {
                let mut j2 = Json::obj();
                j2.set("suite", Json::s("c17_kill"));
                j2.set("ops", Json::Arr(prep.iter().map(|o| Json::s(&o.describe())).collect()));
                j2.set("case", Json::s(&world::show_history_case(false, 1_000_000, &prep)));
                j2.set("killed", Json::s(&format!("a repeated build, killed before its mutation #{} ({})", j, what)));
                j2.set("then", Json::Arr(cont.iter().map(|o| Json::s(&o.describe())).chain(std::iter::once(Json::s("build None"))).collect()));
                out.violation("C17:record-lost-by-a-kill", format!("a repeated build was killed before `{}`; afterwards the undeclared input changed and the rule ran again on identical declared sources with a different result, but the build gives {} instead of a contradiction: the earlier record did not survive", what, b.verdict.show()), j2);
                break;
            }
        }
        out.count("c17-kill-scenarios");
    }
    out.extra.set("c17_kill_points", Json::i(points));
}

/// C17: a rule that is not reproducible is reported, never silently accepted.
pub fn contradiction(ctx : &Ctx, out : &mut Out)
{
    let mut rng = Rng::new(ctx.seed).fork(17);
    let n = if ctx.thorough { 3000 } else { 250 };
    for i in 0..n
    {
        let mut r = rng.fork(i as u64);
        let mut sc = scenario::gen_scenario(&mut r, &GenParams{max_rules : if ctx.thorough { 7 } else { 5 }, flavor : Flavor::Undeclared});
        if !sc.well_formed() { continue; }
        // in a third of the cases one output is nothing but the undeclared input
        if r.chance(1, 3)
        {
            if let Some(rule) = sc.rules.iter_mut().find(|rule| rule.script.iter().any(|l| l.contains("@undeclared")))
            {
                if let Some(line) = rule.script.iter_mut().find(|l| l.contains("@undeclared")) { let t = line.split(' ').nth(1).unwrap().to_string(); *line = format!("gen {} @undeclared", t); }
            }
        }
        let culprit = match sc.rules.iter().position(|rule| rule.script.iter().any(|l| l.contains("@undeclared"))) { Some(k) => k, None => continue };
        // in a third of the cases an unrelated rule fails in every build: the culprit's first execution must be
        // recorded all the same ("builds of other rules are unaffected" cuts both ways)
        let with_failing_neighbour = r.chance(1, 3);
        if with_failing_neighbour
        {
            let leaf = sc.rules.iter().flat_map(|rule| rule.sources.iter()).find(|s| sc.owner(s).is_none()).cloned().unwrap_or("a".to_string());
            sc.rules.push(RuleSpec{targets : vec!["zz".to_string()], sources : vec![leaf], script : vec!["fail".to_string()], raw_command : None});
            out.count("with-failing-neighbour");
        }
        // a quarter of the scenarios on a file system whose reads come in pieces of 2 bytes
        crate::memsys::set_default_read_chunk(if i % 4 == 1 { 2 } else { 0 });
        let driver = Driver::new(ClockMode::Fine, 1_000_000);
        crate::memsys::set_default_read_chunk(0);
        let mut ops : Vec<Op> = vec![];
        let mut obs : Vec<String> = vec![];
        let user = |op : Op, ops : &mut Vec<Op>, obs : &mut Vec<String>| { driver.user(&op); driver.tick(); obs.push(world::show_obs(None, &driver.sys.disk())); ops.push(op); };
        let invoke = |op : Op, ops : &mut Vec<Op>, obs : &mut Vec<String>| -> Invocation { let inv = driver.invoke(&op, Policy::Serial); driver.tick(); obs.push(world::show_obs(Some(&inv), &driver.sys.disk())); ops.push(op); inv };
        user(Op::Write(RULES_PATH.to_string(), sc.render().into_bytes()), &mut ops, &mut obs);
        let mut leaves : BTreeSet<String> = BTreeSet::new();
        for rule in &sc.rules { for s in &rule.sources { if sc.owner(s).is_none() { leaves.insert(s.clone()); } } }
        for l in leaves.iter() { user(Op::Write(l.clone(), r.pick(scenario::CONTENTS).as_bytes().to_vec()), &mut ops, &mut obs); }
        // the undeclared input starts out empty in a third of the cases (so that a target is recorded as an
        // empty file, e.g. a warnings log), otherwise "U0"
        let u0 : Vec<u8> = if r.chance(1, 3) { vec![] } else { b"U0".to_vec() };
        user(Op::Write("undeclared".to_string(), u0.clone()), &mut ops, &mut obs);
        let first = invoke(Op::Build(None), &mut ops, &mut obs);
        let culprit_built = sc.rules[culprit].targets.iter().all(|t| first.after.files.contains_key(t)) && first.banners.iter().any(|(b, p)| b == "Built" && sc.rules[culprit].targets.contains(p));
        if !first.verdict.is_ok() && !(with_failing_neighbour && culprit_built) { out.count("first-build-not-ok"); emit_case(out, false, 1_000_000, &ops, &obs, false); continue; }
        let recorded = disk_files(&first.after);

        // the undeclared input changes; a re-execution of the culprit is forced
        user(Op::Write("undeclared".to_string(), if r.chance(1, 8) { u0.clone() } else { b"U1".to_vec() }), &mut ops, &mut obs);
        let changed_input = driver.sys.read("undeclared") != Some(u0.clone());
        let victim = r.pick(&sc.rules[culprit].targets).clone();
        match r.below(3)
        {
            0 => user(Op::Remove(victim.clone()), &mut ops, &mut obs),
            1 =>
            {
                // tamper, build (the tampered copy goes to the cache, the recorded output is not there): same effect
                user(Op::Write(victim.clone(), b"tampered".to_vec()), &mut ops, &mut obs);
            },
            _ =>
            {
                // clean, then delete the cache entry of the victim's recorded content
                invoke(Op::Clean(None), &mut ops, &mut obs);
                if let Some(c) = recorded.get(&victim) { user(Op::RmCache(cache_name_of(c)), &mut ops, &mut obs); }
            },
        }
        let hist_before : BTreeMap<String, Vec<u8>> = driver.sys.disk().files.iter().filter(|(p, _)| p.starts_with(&history_prefix())).map(|(p, n)| (p.clone(), (*n.content).clone())).collect();
        let files_before = disk_files(&driver.sys.disk());
        let second = invoke(Op::Build(None), &mut ops, &mut obs);
        emit_case(out, false, 1_000_000, &ops, &obs, true);

        // what must happen: the culprit's command ran again on identical declared sources; the targets whose
        // content now differs from what was recorded are exactly those that must be named
        let ran = second.commands.iter().any(|(_, l)| sc.rules[culprit].script.contains(l) && l.contains("@undeclared"));
        if !ran { out.count("culprit-not-re-executed"); continue; }
        // declared sources identical? (they are: nothing else was edited) — compute the fresh outputs independently
        let mut env = files_before.clone();
        for j in sc.order().unwrap_or(vec![])
        {
            if j == culprit { break; }
        }
        let scratch = from_scratch(&sc, &files_before);
        let fresh : Vec<Vec<u8>> = match scratch.as_ref().map(|v| &v[culprit]) { Some(RuleOutcome::Built(cs)) => cs.clone(), _ => { out.count("culprit-not-buildable"); continue; } };
        let _ = env;
        let mut sorted_targets : Vec<(String, Vec<u8>)> = sc.rules[culprit].targets.iter().cloned().zip(fresh.into_iter()).collect();
        sorted_targets.sort();
        let differing : Vec<String> = sorted_targets.iter().filter(|(t, c)| recorded.get(t) != Some(c)).map(|(t, _)| t.clone()).collect();
        let replay = replay_json("c17", false, 1_000_000, &ops);
        out.count(if differing.is_empty() { "reproducible-this-time" } else { "not-reproducible" });
        let want = sexp::paren(&["Contradiction".to_string(), sexp::strs(&differing)]);
        match &second.verdict
        {
            Verdict::WorkErrors(es) =>
            {
                let contradictions : Vec<&String> = es.iter().filter(|e| e.starts_with("(Contradiction")).collect();
                if differing.is_empty()
                {
                    if !contradictions.is_empty() { out.violation("C17:contradiction-reported-for-reproducible-rule", format!("the outputs are identical to what was recorded but {} is reported", contradictions[0]), replay.clone()); }
                }
                else if contradictions.len() != 1 || *contradictions[0] != want
                {
                    out.violation("C17:wrong-contradiction-report", format!("targets {:?} differ from what was recorded; reported: {:?}", differing, contradictions), replay.clone());
                }
            },
            other => if !differing.is_empty()
            {
                out.violation("C17:non-reproducible-rule-accepted", format!("re-running the command on identical declared sources changed {:?} but the build verdict is {} (changed input: {})", differing, other.show(), changed_input), replay.clone());
            },
        }
        if !differing.is_empty()
        {
            // the earlier record is kept unchanged
            let hist_after : BTreeMap<String, Vec<u8>> = second.after.files.iter().filter(|(p, _)| p.starts_with(&history_prefix())).map(|(p, n)| (p.clone(), (*n.content).clone())).collect();
            let culprit_identity = { let rule = &sc.rules[culprit]; crate::rule::Rule::new(rule.targets.clone(), rule.sources.clone(), rule.command_lines(sc.split_tokens)).get_ticket().human_readable() };
            let key = format!("{}{}", history_prefix(), culprit_identity);
            if world::bincode_history(hist_before.get(&key).map(|v| &v[..]).unwrap_or(&[])) != world::bincode_history(hist_after.get(&key).map(|v| &v[..]).unwrap_or(&[]))
            {
                out.violation("C17:record-changed-by-contradicting-run", "the history of the non-reproducible rule was changed by the contradicting execution".to_string(), replay.clone());
            }
            // rules that do not depend on the culprit are brought up to date all the same
            if let Some(scratch) = &scratch
            {
                let mut tainted : BTreeSet<usize> = BTreeSet::new();
                tainted.insert(culprit);
                loop
                {
                    let more : Vec<usize> = (0..sc.rules.len()).filter(|j| !tainted.contains(j) && sc.rules[*j].sources.iter().any(|s| sc.owner(s).map(|o| tainted.contains(&o)).unwrap_or(false))).collect();
                    if more.is_empty() { break; }
                    tainted.extend(more);
                }
                let after = disk_files(&second.after);
                for j in 0..sc.rules.len()
                {
                    if tainted.contains(&j) { continue; }
                    if let RuleOutcome::Built(cs) = &scratch[j]
                    {
                        for (t, c) in sc.rules[j].targets.iter().zip(cs.iter())
                        {
                            if after.get(t) != Some(c) { out.violation("C17:other-rules-affected", format!("rule {:?} does not depend on the non-reproducible rule but {:?} was not brought up to date", sc.rules[j].targets, t), replay.clone()); }
                        }
                    }
                }
            }
        }
    }
}

/// C10: clean removes targets into the cache and the next build brings them back.
pub fn clean_build(ctx : &Ctx, out : &mut Out)
{
    run_corpus(out, "c10", true);
    let mut rng = Rng::new(ctx.seed).fork(10);
    let n = if ctx.thorough { 2000 } else { 150 };
    for i in 0..n
    {
        let mut r = rng.fork(i as u64);
        let mut sc = scenario::gen_scenario(&mut r, &GenParams{max_rules : if ctx.thorough { 8 } else { 5 }, flavor : Flavor::Plain});
        if !sc.well_formed() { continue; }
        let unique = i % 2 == 0;
        if unique
        {
            // every target gets a piece naming it: contents are pairwise different
            for rule in sc.rules.iter_mut() { for l in rule.script.iter_mut() { if l.starts_with("gen ") { let t = l.split(' ').nth(1).unwrap().to_string(); l.push_str(&format!(" ={}", t)); } } }
        }
        let driver = Driver::new(ClockMode::Fine, 1_000_000);
        let mut tr = Tracker::new("c10", true);
        let mut ops : Vec<Op> = vec![];
        let mut obs : Vec<String> = vec![];
        let user = |op : Op, ops : &mut Vec<Op>, obs : &mut Vec<String>| { driver.user(&op); driver.tick(); obs.push(world::show_obs(None, &driver.sys.disk())); ops.push(op); };
        user(Op::Write(RULES_PATH.to_string(), sc.render().into_bytes()), &mut ops, &mut obs);
        tr.scenario = Some(sc.clone());
        tr.ever_targets.extend(sc.all_targets());
        let mut leaves : BTreeSet<String> = BTreeSet::new();
        for rule in &sc.rules { for s in &rule.sources { if sc.owner(s).is_none() { leaves.insert(s.clone()); } } }
        for l in leaves.iter() { user(Op::Write(l.clone(), r.pick(scenario::CONTENTS).as_bytes().to_vec()), &mut ops, &mut obs); }
        let targets : Vec<String> = sc.all_targets().into_iter().collect();
        let mut invoke = |op : Op, ops : &mut Vec<Op>, obs : &mut Vec<String>, tr : &mut Tracker, out : &mut Out| -> Invocation
        {
            let inv = driver.invoke(&op, Policy::Serial);
            driver.tick();
            obs.push(world::show_obs(Some(&inv), &driver.sys.disk()));
            ops.push(op.clone());
            monitor_invocation(out, tr, &inv, &op, false, 1_000_000, ops);
            inv
        };
        // some prior history, then a full successful build
        if r.chance(1, 3) { invoke(Op::Build(Some(r.pick(&targets).clone())), &mut ops, &mut obs, &mut tr, out); }
        if r.chance(1, 4) { let l : Vec<String> = leaves.iter().cloned().collect(); user(Op::Write(r.pick(&l).clone(), b"edited".to_vec()), &mut ops, &mut obs); tr.last_ok_build = None; }
        let built = invoke(Op::Build(None), &mut ops, &mut obs, &mut tr, out);
        if !built.verdict.is_ok() { emit_case(out, false, 1_000_000, &ops, &obs, false); continue; }
        // now and then the user puts OLDER copies of all targets back with their old modification times: every target
        // moved aside, everything rebuilt from other leaf values, the leaves put back, the copies moved back — the
        // targets are up to date again, only older than what ruler remembers for their paths
        if MOVE_OPS && r.chance(1, 3)
        {
            let originals : Vec<(String, Vec<u8>)> = leaves.iter().filter_map(|l| driver.sys.read(l).map(|c| (l.clone(), c))).collect();
            for t in targets.iter() { user(Op::Move(t.clone(), format!("{}.bak", t)), &mut ops, &mut obs); }
            for (l, _) in originals.iter() { user(Op::Write(l.clone(), b"other".to_vec()), &mut ops, &mut obs); }
            tr.last_ok_build = None;
            let other = invoke(Op::Build(None), &mut ops, &mut obs, &mut tr, out);
            for (l, c) in originals.iter() { user(Op::Write(l.clone(), c.clone()), &mut ops, &mut obs); }
            for t in targets.iter() { user(Op::Move(format!("{}.bak", t), t.clone()), &mut ops, &mut obs); }
            tr.last_ok_build = None;
            out.count("older-copies-moved-back");
            if !other.verdict.is_ok() { emit_case(out, false, 1_000_000, &ops, &obs, false); continue; }
        }
        // some targets executable by the user
        if r.chance(1, 3) { let t = r.pick(&targets).clone(); user(Op::Chmod(t, true), &mut ops, &mut obs); }
        let up_to_date = disk_files(&driver.sys.disk());
        let exec_bits : BTreeMap<String, bool> = driver.sys.disk().files.iter().map(|(p, n)| (p.clone(), n.exec)).collect();

        // one to three rounds of clean / build: every round but the last builds everything, so that all targets are
        // up to date again before the next clean (a round after a build that only RECOVERED the targets is a
        // different state of ruler's bookkeeping than the first round: nothing is remembered about a recovered file)
        let rounds = 1 + r.below(3);
        out.count(&format!("rounds:{}", rounds));
        let mut ok = true;
        for round in 0..rounds
        {
            let last = round + 1 == rounds;
            let clean_goal = if r.chance(1, 2) { None } else { Some(r.pick(&targets).clone()) };
            let before_clean = driver.sys.disk();
            let cleaned = invoke(Op::Clean(clean_goal.clone()), &mut ops, &mut obs, &mut tr, out);
            let after_clean = driver.sys.disk();
            let build_goal = if !last || r.chance(1, 2) { None } else { Some(r.pick(&targets).clone()) };
            let rebuilt = invoke(Op::Build(build_goal.clone()), &mut ops, &mut obs, &mut tr, out);
            out.count(&format!("clean:{}-build:{}", if clean_goal.is_some() { "goal" } else { "all" }, if build_goal.is_some() { "goal" } else { "all" }));

            let replay = replay_json("c10", false, 1_000_000, &ops);
            if !cleaned.verdict.is_ok() { out.violation("C10:clean-fails", format!("clean gives {}", cleaned.verdict.show()), replay.clone()); ok = false; break; }
            let cleaned_scope : BTreeSet<String> = sc.scope(&clean_goal).map(|s| s.iter().flat_map(|j| sc.rules[*j].targets.iter().cloned()).collect()).unwrap_or(BTreeSet::new());
            // after a clean none of the in-scope target files exists and each one's content is in the cache
            for t in cleaned_scope.iter()
            {
                if after_clean.files.contains_key(t)
                {
                    out.violation("C10:target-still-there-after-clean", format!("{:?} is in the scope of the clean (round {}) and still exists afterwards", t, round + 1), replay.clone());
                }
                if let Some(node) = before_clean.files.get(t)
                {
                    let in_cache = after_clean.files.iter().any(|(p, n)| p.starts_with(&cache_prefix()) && n.content == node.content);
                    if !in_cache { out.violation("C10:cleaned-content-not-in-cache", format!("the content {:?} had before the clean (round {}) is not in the cache afterwards", t, round + 1), replay.clone()); }
                }
            }
            if !rebuilt.verdict.is_ok() { out.violation("C10:build-after-clean-fails", format!("the targets were up to date before the clean, but the following build gives {}", rebuilt.verdict.show()), replay.clone()); ok = false; break; }
            let scope_b : BTreeSet<String> = sc.scope(&build_goal).map(|s| s.iter().flat_map(|j| sc.rules[*j].targets.iter().cloned()).collect()).unwrap_or(BTreeSet::new());
            let after = driver.sys.disk();
            for t in scope_b.iter()
            {
                match after.files.get(t)
                {
                    None => out.violation("C10:target-not-brought-back", format!("{:?} is missing after the build that follows the clean", t), replay.clone()),
                    Some(node) =>
                    {
                        if Some(&*node.content) != up_to_date.get(t) { out.violation("C10:target-not-identical", format!("{:?} came back with different content", t), replay.clone()); }
                        // the executable permission: claimed when contents are pairwise different (one cache file per target)
                        if unique && Some(&node.exec) != exec_bits.get(t) { out.violation("C10:permission-lost", format!("{:?} came back with executable = {} instead of {:?}", t, node.exec, exec_bits.get(t)), replay.clone()); }
                    },
                }
            }
            let contents : Vec<&Vec<u8>> = cleaned_scope.iter().filter_map(|t| up_to_date.get(t)).collect();
            let pairwise_different = contents.iter().collect::<BTreeSet<_>>().len() == contents.len();
            out.count(if pairwise_different { "cleaned-contents:pairwise-different" } else { "cleaned-contents:some-equal" });
            if pairwise_different && !rebuilt.commands.is_empty()
            {
                out.violation("C10:command-ran-after-clean", format!("the cleaned targets' contents are pairwise different, yet the build after the clean ran {:?}", rebuilt.commands.iter().map(|c| c.1.clone()).collect::<Vec<_>>()), replay.clone());
            }
        }
        let _ = ok;
        emit_case(out, false, 1_000_000, &ops, &obs, true);
    }
}

/// `./check Cnn --replay file`: the check driver extracts the `(history ...)` case of a replay file into a
/// text file and passes its path; the case is re-run with all monitors — serially, and, when the replay
/// recorded a schedule (env VERIF_REPLAY_CHOICES = comma-separated choice indices), with its last
/// operation under exactly that schedule, compared with the serial outcome.
pub fn replay(ctx : &Ctx, out : &mut Out)
{
    let path = match &ctx.replay { Some(p) => p.clone(), None => return };
    let text = std::fs::read_to_string(&path).unwrap_or(String::new());
    let choices : Option<Vec<usize>> = std::env::var("VERIF_REPLAY_CHOICES").ok().map(|s| s.split(',').filter_map(|x| x.trim().parse::<usize>().ok()).collect());
    for line in text.lines()
    {
        if let Some((coarse, t0, ops)) = world::parse_history_case(line)
        {
            let (obs, serial) = run_fixed(out, "replay", coarse, t0, &ops, true, &Policy::Serial, true);
            emit_case(out, coarse, t0, &ops, &obs, true);
            out.count("replayed-serial");
            if let Some(ch) = &choices
            {
                if ops.is_empty() { continue; }
                // prefix serially, last op under the recorded schedule
                let driver = Driver::new(if coarse { ClockMode::Coarse } else { ClockMode::Fine }, t0);
                let mut tr = Tracker::new("replay", true);
                let (prep, last) = ops.split_at(ops.len() - 1);
                for op in prep
                {
                    match op
                    {
                        Op::Build(_) | Op::Clean(_) => { driver.invoke(op, Policy::Serial); driver.tick(); },
                        _ =>
                        {
                            if let Op::Write(p, c) = op { if p == RULES_PATH { tr.scenario = scenario::scenario_from_text(&String::from_utf8_lossy(c)).filter(|s| s.well_formed()); if let Some(sc) = &tr.scenario { tr.ever_targets.extend(sc.all_targets()); } } }
                            driver.user(op); driver.tick();
                        },
                    }
                }
                let inv = driver.invoke(&last[0], Policy::Replay(ch.clone()));
                out.count("replayed-schedule");
                monitor_invocation(out, &mut tr, &inv, &last[0], coarse, t0, &ops);
                if let Some((_, verdict, files)) = serial.last()
                {
                    if inv.verdict.show() != *verdict
                    {
                        out.violation("C06:verdict-depends-on-schedule", format!("the recorded schedule gives {} but the serial schedule gives {}", inv.verdict.show(), verdict), replay_json("replay", coarse, t0, &ops));
                    }
                    else if disk_files(&inv.after) != *files
                    {
                        out.violation("C06:content-depends-on-schedule", "the recorded schedule leaves different workspace contents than the serial one".to_string(), replay_json("replay", coarse, t0, &ops));
                    }
                }
                if inv.deadlock { out.violation("C05:deadlock", "all threads blocked".to_string(), replay_json("replay", coarse, t0, &ops)); }
                if let Verdict::Panic(m) = &inv.verdict { out.violation("C05:panic", format!("panicked: {}", m), replay_json("replay", coarse, t0, &ops)); }
            }
        }
    }
}
