//! C19 "while `ruler serve` runs": the real serve() (warp over loopback) runs in this process on the instrumented
//! in-memory file system while builds and cleans of the same workspace go on; after every invocation every rule
//! history entry and every cache entry that is on disk NOW must be served (200, exact body), names that are not
//! there get a clean 404. The clock does not advance between invocations (coarse clock), so state files rewritten by
//! consecutive builds carry the same modification time.
use crate::json::Json;
use crate::memsys::{ClockMode, Disk};
use crate::rng::Rng;
use crate::sexp;
use crate::suite::{Ctx, Out};
use crate::suites::hist::swap_ops;
use crate::verif_sched::Policy;
use crate::world::{self, cache_prefix, history_prefix, Driver, Op, RULER_DIR};
use std::io::{Read, Write};
use std::net::TcpStream;
use std::time::Duration;

fn http_get(port : u16, path : &str) -> Option<(u16, Vec<u8>)>
{
    for _ in 0..50
    {
        if let Ok(mut s) = TcpStream::connect(("127.0.0.1", port))
        {
            let _ = s.set_read_timeout(Some(Duration::from_secs(5)));
            let req = format!("GET {} HTTP/1.1\r\nHost: localhost\r\nConnection: close\r\n\r\n", path);
            if s.write_all(req.as_bytes()).is_err() { return None; }
            let mut buf = vec![];
            let _ = s.read_to_end(&mut buf);
            let text_end = buf.windows(4).position(|w| w == b"\r\n\r\n")?;
            let head = String::from_utf8_lossy(&buf[..text_end]).to_string();
            let status : u16 = head.split(' ').nth(1)?.parse().ok()?;
            let mut body = buf[text_end + 4..].to_vec();
            if head.to_lowercase().contains("transfer-encoding: chunked")
            {
                // de-chunk
                let mut out = vec![]; let mut pos = 0;
                loop
                {
                    let nl = match body[pos..].windows(2).position(|w| w == b"\r\n") { Some(i) => i, None => break };
                    let n = usize::from_str_radix(String::from_utf8_lossy(&body[pos..pos + nl]).trim(), 16).unwrap_or(0);
                    if n == 0 { break; }
                    pos += nl + 2;
                    if pos + n > body.len() { break; }
                    out.extend_from_slice(&body[pos..pos + n]);
                    pos += n + 2;
                }
                body = out;
            }
            return Some((status, body));
        }
        std::thread::sleep(Duration::from_millis(20));
    }
    None
}

fn free_port() -> u16
{
    std::net::TcpListener::bind(("127.0.0.1", 0)).ok().and_then(|l| l.local_addr().ok()).map(|a| a.port()).unwrap_or(18099)
}

/// what must be served for the disk as it is now: (request path, expected status, expected body)
fn expectations(disk : &Disk, rng : &mut Rng) -> Vec<(String, u16, Vec<u8>)>
{
    let mut v = vec![];
    for (p, n) in disk.files.iter()
    {
        if let Some(name) = p.strip_prefix(&cache_prefix())
        {
            v.push((format!("/files/{}", name), 200, (*n.content).clone()));
            if rng.chance(1, 4) { v.push((format!("/files/{}/extra", name), 404, vec![])); }
        }
        if let Some(name) = p.strip_prefix(&history_prefix())
        {
            if name.ends_with(".partial") { continue; }
            if let Some(entries) = world::bincode_history(&n.content)
            {
                for (key, states) in entries.iter()
                {
                    let body = states.iter().map(|s| crate::suites::hist::text_of_ticket(&s.0)).collect::<Vec<_>>().join("\n");
                    v.push((format!("/rules/{}/{}", name, crate::suites::hist::text_of_ticket(key)), 200, body.into_bytes()));
                }
                // path-like names that merely START with a recorded rule / key pair
                if let Some((key, _)) = entries.first()
                {
                    let k = crate::suites::hist::text_of_ticket(key);
                    for tail in ["extra", "..%2F..%2Fbuild.rules", &k] { v.push((format!("/rules/{}/{}/{}", name, k, tail), 404, vec![])); }
                }
                // a key that is not recorded
                v.push((format!("/rules/{}/{}", name, crate::suites::hist::cache_name_of(format!("nokey{}", rng.below(1000)).as_bytes())), 404, vec![]));
            }
        }
    }
    v.push((format!("/files/{}", crate::suites::hist::cache_name_of(b"never stored")), 404, vec![]));
    v.push(("/files/short".to_string(), 404, vec![]));
    v.push(("/files/..%2F..%2Fbuild.rules".to_string(), 404, vec![]));
    v.push((format!("/rules/{}/{}", crate::suites::hist::cache_name_of(b"no rule"), crate::suites::hist::cache_name_of(b"no key")), 404, vec![]));
    v
}

pub fn live_server(ctx : &Ctx, out : &mut Out)
{
    let mut rng = Rng::new(ctx.seed).fork(1919);
    let n = if ctx.thorough { 60 } else { 8 };
    for i in 0..n
    {
        let mut r = rng.fork(i as u64);
        let ops = swap_ops(&mut r);
        let driver = Driver::new(ClockMode::Coarse, 1_000_000);
        // the ruler directory must exist before the server starts (serve() initialises it itself, too)
        let port = free_port();
        {
            let sys = driver.sys.clone();
            std::thread::spawn(move || { let _ = crate::server::serve(sys, RULER_DIR, port); });
        }
        if http_get(port, "/files/short").is_none() { out.count("server-did-not-start"); continue; }
        out.count("servers");
        let mut done : Vec<Op> = vec![];
        for op in ops.iter()
        {
            match op
            {
                Op::Build(_) | Op::Clean(_) => { driver.invoke(op, Policy::Serial); /* no tick: consecutive writes share a time */ },
                _ => { driver.user(op); },
            }
            done.push(op.clone());
            if !matches!(op, Op::Build(_) | Op::Clean(_)) { continue; }
            let disk = driver.sys.disk();
            let mut replay = Json::obj();
            replay.set("suite", Json::s("c19_live"));
            replay.set("ops", Json::Arr(done.iter().map(|o| Json::s(&o.describe())).collect()));
            replay.set("case", Json::s(&world::show_history_case(true, 1_000_000, &done)));
            replay.set("note", Json::s("the server was started before the first operation and kept running; the clock was not advanced between operations"));
            // a request for a cached file that a build beside the server takes out of the cache (restore = rename)
            // between the server's look and its open: the answer must still be the exact bytes or a clean 404
            {
                let cached : Vec<(String, Vec<u8>)> = disk.files.iter().filter_map(|(p, n)| p.strip_prefix(&cache_prefix()).map(|_| (p.clone(), (*n.content).clone()))).collect();
                if !cached.is_empty()
                {
                    let (p, content) = r.pick(&cached).clone();
                    let name = p[cache_prefix().len()..].to_string();
                    driver.sys.set_race(&p, "raced-away");
                    out.count("requests:raced-with-a-restore");
                    let answer = http_get(port, &format!("/files/{}", name));
                    // put the file back (if the race fired) and disarm
                    driver.sys.user_move("raced-away", &p);
                    driver.sys.set_race("", "");
                    match answer
                    {
                        None => { out.violation("C19:server-died", format!("no answer to GET /files/{} (raced with a restore)", name), replay.clone()); },
                        Some((st, b)) => if !(st == 404 || (st == 200 && b == content))
                        {
                            let mut rj = replay.clone();
                            rj.set("request", Json::s(&format!("/files/{}", name)));
                            rj.set("race", Json::s("the cache file was renamed away right after the server's is_file answered true"));
                            out.violation("C19:unclean-answer", format!("GET /files/{} while a build restores that entry: expected the bytes or 404, got {} ({:?})", name, st, String::from_utf8_lossy(&b[..std::cmp::min(b.len(), 80)])), rj);
                        },
                    }
                }
            }
            for (path, status, body) in expectations(&disk, &mut r)
            {
                out.count(if status == 200 { "requests:expect-200" } else { "requests:expect-404" });
                match http_get(port, &path)
                {
                    None => { out.violation("C19:server-died", format!("no answer to GET {}", path), replay.clone()); break; },
                    Some((st, b)) =>
                    {
                        if st != status || (status == 200 && b != body)
                        {
                            let mut rj = replay.clone();
                            rj.set("request", Json::s(&path));
                            out.violation(if status == 200 { "C19:recorded-content-not-served" } else { "C19:unclean-answer" },
                                format!("GET {} while the server runs: expected {} ({} bytes), got {} ({} bytes: {:?})", path, status, body.len(), st, b.len(), String::from_utf8_lossy(&b[..std::cmp::min(b.len(), 60)])), rj);
                            break;
                        }
                    },
                }
            }
        }
    }
}
