use crate::suite::{Ctx, Out};
pub mod c15;
pub mod c16;

pub fn run(name : &str, ctx : &Ctx, out : &mut Out) -> bool
{
    match name
    {
        "c15_base62" => c15::base62(ctx, out),
        "c15_sha" => c15::sha(ctx, out),
        "c16_history" => c16::history(ctx, out),
        "c16_table" => c16::table(ctx, out),
        _ => return false,
    }
    true
}
