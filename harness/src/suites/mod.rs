use crate::suite::{Ctx, Out};
pub mod c12;
pub mod c13;
pub mod c14;
pub mod c15;
pub mod c16;
pub mod crash;
pub mod hist;
pub mod sched;
pub mod selftest;
pub mod live;

pub fn run(name : &str, ctx : &Ctx, out : &mut Out) -> bool
{
    match name
    {
        "c12_sorter" => c12::sorter(ctx, out),
        "c13_identity" => c13::identity(ctx, out),
        "c13_shared" => c13::shared_history(ctx, out),
        "c13_neighbours" => c13::neighbours(ctx, out),
        "c14_parser" => c14::parser(ctx, out),
        "c14_files_bundles" => c14::parse_all_and_bundle(ctx, out),
        "c15_base62" => c15::base62(ctx, out),
        "c15_sha" => c15::sha(ctx, out),
        "c16_history" => c16::history(ctx, out),
        "c16_table" => c16::table(ctx, out),
        "hist" => hist::histories(ctx, out),
        "c18_shortcut" => hist::shortcut(ctx, out),
        "replay" => hist::replay(ctx, out),
        "memsys_selftest" => selftest::memsys_vs_real(ctx, out),
        "c17_contradiction" => hist::contradiction(ctx, out),
        "c17_kill" => hist::contradiction_after_kill(ctx, out),
        "c10_clean_build" => hist::clean_build(ctx, out),
        "swap" => hist::swap(ctx, out),
        "epoch" => hist::epoch(ctx, out),
        "mixed" => hist::mixed(ctx, out),
        "dropped" => hist::dropped_rule(ctx, out),
        "sched" => sched::schedules(ctx, out),
        "crash" => crash::crashes(ctx, out),
        "c19_live" => live::live_server(ctx, out),
        "crash_coarse" => crash::crashes_coarse(ctx, out),
        _ => return false,
    }
    true
}
