use crate::suite::{Ctx, Out};
pub mod c15;

pub fn run(name : &str, ctx : &Ctx, out : &mut Out) -> bool
{
    match name
    {
        "c15_base62" => c15::base62(ctx, out),
        "c15_sha" => c15::sha(ctx, out),
        _ => return false,
    }
    true
}
