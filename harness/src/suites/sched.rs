//! C03–C06 (and the schedule columns of C07, C08, C20): one invocation explored under many thread
//! schedules from the same disk state. Serial schedule = the model's case (R-hist); every other
//! schedule must give the same verdict and workspace (C06), never deadlock, panic or hit a channel
//! error (C05), start commands only on final sources (C03), contain failures (C04).
use crate::json::Json;
use crate::memsys::ClockMode;
use crate::rng::Rng;
use crate::scenario::{self, disk_files, from_scratch, Flavor, GenParams, RuleOutcome, RuleSpec, Scenario};
use crate::sexp;
use crate::suite::{Ctx, Out};
use crate::suites::hist::{monitor_invocation, Tracker};
use crate::verif_sched::Policy;
use crate::world::{self, cache_prefix, Driver, Invocation, Op, Verdict, RULES_PATH};
use std::collections::{BTreeMap, BTreeSet};

fn replay_json(label : &str, prep : &[Op], op : &Op, policy : &str, choices : &[(usize, usize)]) -> Json
{
    let mut all : Vec<Op> = prep.to_vec();
    all.push(op.clone());
    let mut j = Json::obj();
    j.set("suite", Json::s(label));
    j.set("clock", Json::s("fine"));
    j.set("t0", Json::Int(1_000_000));
    j.set("ops", Json::Arr(all.iter().map(|o| Json::s(&o.describe())).collect()));
    j.set("case", Json::s(&world::show_history_case(false, 1_000_000, &all)));
    j.set("schedule_policy", Json::s(policy));
    j.set("schedule_choices", Json::Arr(choices.iter().map(|(c, _)| Json::Int(*c as i64)).collect()));
    j
}

/// rule graphs that stress the protocol: wide fan-in / fan-out, diamonds, chains, disconnected parts,
/// many byte-identical outputs (copies of the same leaf)
fn gen_shape(rng : &mut Rng, flavor : Flavor, max_rules : usize) -> Scenario
{
    if rng.chance(1, 2) { return scenario::gen_scenario(rng, &GenParams{max_rules : max_rules, flavor : flavor}); }
    let mut rules : Vec<RuleSpec> = vec![];
    let shape = rng.below(4);
    let mk = |t : &str, sources : Vec<String>, script : Vec<String>| RuleSpec{targets : vec![t.to_string()], sources : sources, script : script, raw_command : None};
    match shape
    {
        0 =>
        {
            // fan-in: k copies of leaves, one rule consuming all
            let k = rng.range(2, if max_rules > 8 { 12 } else { 5 });
            let mut all = vec![];
            for i in 0..k
            {
                let t = format!("M{}", i);
                let leaf = if rng.chance(1, 2) { "a" } else { "b" };
                rules.push(mk(&t, vec![leaf.to_string()], vec![format!("gen {} @{}", t, leaf)]));
                all.push(t);
            }
            let line = format!("gen TOP {}", all.iter().map(|t| format!("@{}", t)).collect::<Vec<_>>().join(" "));
            rules.push(mk("TOP", all, vec![line]));
        },
        1 =>
        {
            // fan-out: one rule, k dependents that all copy it (byte-identical outputs)
            let k = rng.range(2, if max_rules > 8 { 10 } else { 5 });
            rules.push(mk("BASE", vec!["a".to_string()], vec!["gen BASE @a".to_string()]));
            for i in 0..k
            {
                let t = format!("D{}", i);
                rules.push(mk(&t, vec!["BASE".to_string()], vec![format!("gen {} @BASE", t)]));
            }
        },
        2 =>
        {
            // independent rules with byte-identical outputs (the shared-cache-entry situation)
            let k = rng.range(2, 4);
            for i in 0..k
            {
                let t = format!("I{}", i);
                let leaf = format!("{}", (b'a' + (i % 2) as u8) as char);
                rules.push(mk(&t, vec![leaf.clone()], vec![format!("gen {} @{}", t, leaf)]));
            }
        },
        _ =>
        {
            // chain with a diamond on top
            rules.push(mk("C0", vec!["a".to_string()], vec!["gen C0 =t @a".to_string()]));
            rules.push(mk("C1", vec!["C0".to_string()], vec!["gen C1 @C0".to_string()]));
            rules.push(mk("C2", vec!["C0".to_string()], vec!["gen C2 @C0".to_string()]));
            rules.push(mk("C3", vec!["C1".to_string(), "C2".to_string(), "C0".to_string()], vec!["gen C3 @C1 @C2 @C0".to_string()]));
        },
    }
    if flavor == Flavor::WithFailures
    {
        let n = rules.len();
        for _ in 0..rng.range(1, 2)
        {
            let i = rng.below(n);
            let t0 = rules[i].targets[0].clone();
            rules[i].script = match rng.below(4) { 0 => vec![format!("true {}", t0), "fail".to_string()], 1 => vec![format!("true {}", t0)], 2 => { let mut v = vec!["fail".to_string()]; v.extend(rules[i].script.clone()); v }, _ => vec![format!("gen {} @no-such-file", t0)] };
        }
    }
    rng.shuffle(&mut rules);
    Scenario{rules : rules, split_tokens : false}
}

struct Prepared
{
    driver : Driver,
    prep : Vec<Op>,
    tracker : Tracker,
    scenario : Scenario,
}

/// bring a fresh disk into one of the interesting initial states by a short serial history
fn prepare(rng : &mut Rng, sc : &Scenario, flavor : Flavor, out : &mut Out) -> Prepared
{
    let driver = Driver::new(ClockMode::Fine, 1_000_000);
    let mut tr = Tracker::new("sched", true);
    let mut prep : Vec<Op> = vec![];
    let mut apply = |op : Op, prep : &mut Vec<Op>, tr : &mut Tracker, out : &mut Out|
    {
        match &op
        {
            Op::Build(_) | Op::Clean(_) =>
            {
                let inv = driver.invoke(&op, Policy::Serial);
                driver.tick();
                prep.push(op.clone());
                let ops_so_far = prep.clone();
                monitor_invocation(out, tr, &inv, &op, false, 1_000_000, &ops_so_far);
            },
            _ => { driver.user(&op); driver.tick(); prep.push(op); tr.last_ok_build = None; },
        }
    };
    apply(Op::Write(RULES_PATH.to_string(), sc.render().into_bytes()), &mut prep, &mut tr, out);
    tr.scenario = Some(sc.clone());
    tr.ever_targets.extend(sc.all_targets());
    let mut leaves : BTreeSet<String> = BTreeSet::new();
    for r in &sc.rules { for s in &r.sources { if sc.owner(s).is_none() && s != "no-such-file" { leaves.insert(s.clone()); } } }
    // leaves get contents from a pool of two, so equal files are common
    for l in leaves.iter()
    {
        if flavor == Flavor::WithFailures && rng.chance(1, 8) { continue; }
        apply(Op::Write(l.clone(), rng.pick(&["X", "X", "Y"]).as_bytes().to_vec()), &mut prep, &mut tr, out);
    }
    let state = rng.below(10);
    out.count(&format!("initial-state:{}", ["fresh", "built", "built-cleaned", "built-edited", "built-cleaned-edited", "built-tampered", "built-partly-cleaned-edited", "built-partly-cleaned-edited", "built-tampered-cleaned-edited", "built-tampered-cleaned-edited"][state]));
    if state >= 1 { apply(Op::Build(None), &mut prep, &mut tr, out); }
    match state
    {
        2 => { apply(Op::Clean(None), &mut prep, &mut tr, out); },
        3 => { if let Some(l) = leaves.iter().next() { apply(Op::Write(l.clone(), b"Y".to_vec()), &mut prep, &mut tr, out); } },
        4 =>
        {
            apply(Op::Clean(None), &mut prep, &mut tr, out);
            if let Some(l) = leaves.iter().last() { apply(Op::Write(l.clone(), b"X".to_vec()), &mut prep, &mut tr, out); }
        },
        5 =>
        {
            let targets : Vec<String> = sc.all_targets().into_iter().collect();
            if !targets.is_empty()
            {
                let t = rng.pick(&targets).clone();
                if rng.chance(1, 2) { apply(Op::Write(t, b"tampered".to_vec()), &mut prep, &mut tr, out); } else { apply(Op::Remove(t), &mut prep, &mut tr, out); }
            }
        },
        8 | 9 =>
        {
            // a target that another rule reads (else any target) is overwritten by hand, everything is cleaned, a leaf is
            // edited: the build must not hand the scribbled file to the dependent as if it were the rule's output
            let targets : Vec<String> = sc.all_targets().into_iter().collect();
            let read_by_others : Vec<String> = targets.iter().filter(|t| sc.rules.iter().any(|r| r.sources.contains(t))).cloned().collect();
            if !targets.is_empty()
            {
                let t = if !read_by_others.is_empty() { rng.pick(&read_by_others).clone() } else { rng.pick(&targets).clone() };
                apply(Op::Write(t.clone(), b"scribbled".to_vec()), &mut prep, &mut tr, out);
                apply(Op::Clean(None), &mut prep, &mut tr, out);
                // preferably a leaf that a reader of the scribbled target reads and the target's own rule does not: the
                // reader's command then runs again, on whatever ruler put at the target
                let own : Vec<String> = sc.owner(&t).map(|i| sc.rules[i].sources.clone()).unwrap_or(vec![]);
                let beside : Vec<String> = sc.rules.iter().filter(|r| r.sources.contains(&t)).flat_map(|r| r.sources.iter().cloned()).filter(|s| leaves.contains(s) && !own.contains(s)).collect();
                let ls : Vec<String> = leaves.iter().cloned().collect();
                if !beside.is_empty() && rng.chance(3, 4) { let l = rng.pick(&beside).clone(); apply(Op::Write(l, b"Z".to_vec()), &mut prep, &mut tr, out); }
                else if !ls.is_empty() && rng.chance(3, 4) { let l = rng.pick(&ls).clone(); apply(Op::Write(l, b"Z".to_vec()), &mut prep, &mut tr, out); }
            }
        },
        6 | 7 =>
        {
            // some targets cleaned (they will be restored), others left in place, then a leaf edited so that
            // rules whose stale targets get backed up run beside rules that restore
            let targets : Vec<String> = sc.all_targets().into_iter().collect();
            for _ in 0..rng.range(1, 2) { if !targets.is_empty() { let t = rng.pick(&targets).clone(); apply(Op::Clean(Some(t)), &mut prep, &mut tr, out); } }
            let ls : Vec<String> = leaves.iter().cloned().collect();
            if !ls.is_empty() { let l = rng.pick(&ls).clone(); apply(Op::Write(l, rng.pick(&["X", "Y"]).as_bytes().to_vec()), &mut prep, &mut tr, out); }
        },
        _ => {},
    }
    Prepared{driver : driver, prep : prep, tracker : tr, scenario : sc.clone()}
}

fn tracker_clone(t : &Tracker) -> Tracker
{
    Tracker{scenario : t.scenario.clone(), ever_targets : t.ever_targets.clone(), ledger : t.ledger.clone(), deterministic : t.deterministic, last_ok_build : t.last_ok_build.clone(), label : t.label.clone(), lost_by_ruler : t.lost_by_ruler.clone(), cleaned_up_to_date : t.cleaned_up_to_date.clone()}
}

/// C03: every command starts on final sources and nobody changes them afterwards
fn monitor_exec(out : &mut Out, sc : &Scenario, inv : &Invocation, replay : &Json)
{
    let files_before = disk_files(&inv.before);
    let scratch = match from_scratch(sc, &files_before) { Some(s) => s, None => return };
    for (at, lines, files) in inv.exec_snapshots.iter()
    {
        let rule = match sc.rules.iter().position(|r| !r.script.is_empty() && r.script == *lines) { Some(i) => i, None => continue };
        for s in sc.rules[rule].sources.iter()
        {
            let expected : Option<Vec<u8>> = match sc.owner(s)
            {
                Some(j) => match &scratch[j] { RuleOutcome::Built(cs) => { let k = sc.rules[j].targets.iter().position(|t| t == s).unwrap(); Some(cs[k].clone()) }, _ => None },
                None => files_before.get(s).cloned(),
            };
            match expected
            {
                None => out.violation("C03:command-started-without-source", format!("the command of {:?} started although its source {:?} cannot be produced (its rule fails or is blocked, or the file is missing)", sc.rules[rule].targets, s), replay.clone()),
                Some(c) => if files.get(s) != Some(&c)
                {
                    out.violation("C03:command-started-before-source-final", format!("when the command of {:?} started, its source {:?} held {:?} instead of its final content {:?}", sc.rules[rule].targets, s, files.get(s).map(|c| String::from_utf8_lossy(c).to_string()), String::from_utf8_lossy(&c)), replay.clone());
                },
            }
            if let Some(c) = inv.calls[*at..].iter().find(|c| c.mutating && c.ok && (&c.path == s || &c.path2 == s))
            {
                out.violation("C03:source-changed-after-command-started", format!("source {:?} of {:?} was touched ({}) after that rule's command had started", s, sc.rules[rule].targets, c.op), replay.clone());
            }
        }
    }
}


/// the schedule's trace in the vocabulary of coq/Model/Protocol.v (worker = task - 1; the work step is the
/// execute_command call, or — for workers that run no command — placed just before their first send / finish)
pub fn protocol_events(inv : &Invocation) -> String
{
    let mut worked : BTreeSet<usize> = BTreeSet::new();
    let mut out : Vec<String> = vec![];
    for e in inv.trace.iter()
    {
        let parts : Vec<&str> = e.what.split(' ').collect();
        if e.task == 0
        {
            match parts[0]
            {
                "spawn" => out.push(format!("(spawn #{})", parts[1].parse::<usize>().unwrap_or(1) - 1)),
                "join" => out.push(format!("(join #{})", parts[1].parse::<usize>().unwrap_or(1) - 1)),
                _ => {},
            }
            continue;
        }
        let w = e.task - 1;
        match parts[0]
        {
            "recv" => out.push(format!("(recv #{} #{})", w, parts[1])),
            "exec" => { if worked.insert(w) { out.push(format!("(work #{})", w)); } },
            "send" => { if worked.insert(w) { out.push(format!("(work #{})", w)); } out.push(format!("(send #{} #{})", w, parts[1])); },
            "finish" => { if worked.insert(w) { out.push(format!("(work #{})", w)); } out.push(format!("(finish #{})", w)); },
            _ => {},
        }
    }
    format!("(l {})", out.join(" "))
}

fn explore(out : &mut Out, rng : &mut Rng, p : &Prepared, op : &Op, n_random : usize, n_pct : usize, dfs_budget : usize, n_order : usize)
{
    // serial reference
    let d0 = p.driver.fork();
    let reference = d0.invoke(op, Policy::Serial);
    d0.tick();
    let ref_files = disk_files(&reference.after);
    // the serial run is the model's case
    {
        let mut all = p.prep.clone();
        all.push(op.clone());
        // re-run the whole history for the observation list (cheap): fixed ops, serial, no monitors
        let (obs, _) = crate::suites::hist::run_fixed(out, "sched", false, 1_000_000, &all, true, &Policy::Serial, false);
        out.case(world::show_history_case(false, 1_000_000, &all), sexp::list(obs), true);
    }
    {
        let mut tr = tracker_clone(&p.tracker);
        let mut all = p.prep.clone();
        all.push(op.clone());
        monitor_invocation(out, &mut tr, &reference, op, false, 1_000_000, &all);
        monitor_exec(out, &p.scenario, &reference, &replay_json("sched", &p.prep, op, "serial", &[]));
    }

    let mut distinct_traces : BTreeSet<u64> = BTreeSet::new();
    let mut run_one = |policy : Policy, name : String, out : &mut Out, distinct : &mut BTreeSet<u64>| -> Vec<(usize, usize)>
    {
        let d = p.driver.fork();
        let inv = d.invoke(op, policy);
        let replay = replay_json("sched", &p.prep, op, &name, &inv.choices);
        out.count("schedules");
        // R-trace: every behaviour the implementation shows must be a behaviour of the protocol model
        if !matches!(inv.verdict, Verdict::Fatal(_))
        {
            let (goal, is_clean) = match op { Op::Build(g) => (g.clone(), false), Op::Clean(g) => (g.clone(), true), _ => (None, false) };
            let case = sexp::paren(&["trace".to_string(), sexp::hex(p.scenario.render().as_bytes()), sexp::option(goal.map(|g| sexp::hex(g.as_bytes()))), sexp::boolean(is_clean), protocol_events(&inv)]);
            out.case(case, "(ok finished)".to_string(), true);
            out.count("traces-validated");
        }
        // R-fine: the order in which the threads operated on the cache (back-up rename, is_file check, restore rename),
        // replayed through Model/Fine.v, must be a run of that model with this very outcome (commands as a multiset:
        // the model performs thread-local steps eagerly)
        if let Op::Build(goal) = op
        {
            if !inv.deadlock && !matches!(inv.verdict, Verdict::Panic(_) | Verdict::Fatal(_)) && inv.panicked_tasks.is_empty()
            {
                let mut events : Vec<String> = vec![];
                for c in inv.calls.iter()
                {
                    let t = match c.task { Some(t) if t >= 1 => t - 1, _ => continue };
                    if c.in_command { continue; }
                    let kind = if c.op == "rename" && c.path2.starts_with(&cache_prefix()) { 0 }
                               else if c.op == "is_file" && c.path.starts_with(&cache_prefix()) { 1 }
                               else if c.op == "rename" && c.path.starts_with(&cache_prefix()) { 2 }
                               else { continue };
                    events.push(format!("(#{} #{})", t, kind));
                }
                let dd = d.sys.clone();
                let disk_after = { dd.tick(); dd.disk() };
                let mut sorted_inv_cmds : Vec<String> = inv.commands.iter().map(|(_, l)| l.clone()).collect();
                sorted_inv_cmds.sort_by(|a, b| a.as_bytes().cmp(b.as_bytes()));
                let mut obs = vec!["obs".to_string(), inv.verdict.show(), sexp::list(sorted_inv_cmds.iter().map(|l| sexp::hex(l.as_bytes())).collect()),
                                   sexp::list(inv.banners.iter().map(|(b, p)| sexp::paren(&[b.clone(), sexp::hex(p.as_bytes())])).collect())];
                obs.extend(world::show_disk(&disk_after));
                let case = sexp::paren(&["fine".to_string(), sexp::boolean(false), sexp::num64(1_000_000), sexp::list(p.prep.iter().map(|o| o.show()).collect()),
                                         sexp::option(goal.clone().map(|g| sexp::hex(g.as_bytes()))), sexp::list(events.clone())]);
                out.case(case, sexp::paren(&["fine".to_string(), "#0".to_string(), sexp::boolean(true), sexp::paren(&obs)]), true);
                out.count(&format!("fine-runs:cache-ops:{}", match events.len() { 0 => "0", 1..=3 => "1-3", 4..=9 => "4-9", _ => "10+" }));
            }
        }
        // R-cleanfine: the order in which the clean threads moved files into the cache, replayed through Model/CleanFine.v,
        // must be a run of that model with this very outcome (the whole observation, cache entries' attributes included)
        if let Op::Clean(goal) = op
        {
            if !inv.deadlock && !matches!(inv.verdict, Verdict::Panic(_) | Verdict::Fatal(_)) && inv.panicked_tasks.is_empty()
            {
                let mut events : Vec<String> = vec![];
                for c in inv.calls.iter()
                {
                    let t = match c.task { Some(t) if t >= 1 => t - 1, _ => continue };
                    if c.in_command { continue; }
                    if c.op == "rename" && c.ok && c.path2.starts_with(&cache_prefix()) { events.push(format!("#{}", t)); }
                }
                let dd = d.sys.clone();
                let disk_after = { dd.tick(); dd.disk() };
                let case = sexp::paren(&["cleanfine".to_string(), sexp::boolean(false), sexp::num64(1_000_000), sexp::list(p.prep.iter().map(|o| o.show()).collect()),
                                         sexp::option(goal.clone().map(|g| sexp::hex(g.as_bytes()))), sexp::list(events.clone())]);
                out.case(case, sexp::paren(&["cleanfine".to_string(), "#0".to_string(), sexp::boolean(true), world::show_obs(Some(&inv), &disk_after)]), true);
                out.count(&format!("cleanfine-runs:moves:{}", match events.len() { 0 => "0", 1..=3 => "1-3", 4..=9 => "4-9", _ => "10+" }));
            }
        }
        // distinctness of schedules: by the sequence of (task, event) pairs
        let mut h : u64 = 0xcbf29ce484222325;
        for e in inv.trace.iter() { for b in format!("{}:{};", e.task, e.what).bytes() { h ^= b as u64; h = h.wrapping_mul(0x100000001b3); } }
        distinct.insert(h);

        // C05
        if inv.deadlock { out.violation("C05:deadlock", "all threads blocked".to_string(), replay.clone()); }
        if let Verdict::Panic(m) = &inv.verdict { out.violation("C05:panic", format!("panicked: {}", m), replay.clone()); }
        if !inv.panicked_tasks.is_empty() { out.violation("C05:thread-panic", format!("worker threads {:?} panicked", inv.panicked_tasks), replay.clone()); }
        if inv.trace.iter().any(|e| e.what.starts_with("send-fail") || e.what.starts_with("recv-fail"))
        {
            out.violation("C05:channel-error", "a send or receive failed on a closed channel".to_string(), replay.clone());
        }
        // C06
        let files = disk_files(&inv.after);
        if inv.verdict != reference.verdict
        {
            let text = format!("{} {}", inv.verdict.show(), reference.verdict.show());
            let race = crate::suites::sched::mentions_cache_error(&inv.verdict) || crate::suites::sched::mentions_cache_error(&reference.verdict);
            out.violation(if race { "C06:restore-race-rule-fails-on-shared-cache-entry" } else { "C06:verdict-depends-on-schedule" },
                format!("this schedule gives verdict {} but the serial schedule gives {}", inv.verdict.show(), reference.verdict.show()), replay.clone());
        }
        else if files != ref_files
        {
            let diff : Vec<String> = files.iter().filter(|(p, c)| ref_files.get(*p) != Some(c)).map(|(p, _)| p.clone()).chain(ref_files.keys().filter(|p| !files.contains_key(*p)).cloned()).collect();
            out.violation("C06:content-depends-on-schedule", format!("files {:?} differ from the serial schedule's result", diff), replay.clone());
        }
        // C03, and C01/C02/C04/C07/C08/C09/C20 on this schedule
        monitor_exec(out, &p.scenario, &inv, &replay);
        let mut tr = tracker_clone(&p.tracker);
        tr.label = format!("sched:{}", name);
        let mut all = p.prep.clone();
        all.push(op.clone());
        let before = out.violations.len();
        monitor_invocation(out, &mut tr, &inv, op, false, 1_000_000, &all);
        for v in out.violations[before..].iter_mut()
        {
            v.replay.set("schedule_policy", Json::s(&name));
            v.replay.set("schedule_choices", Json::Arr(inv.choices.iter().map(|(c, _)| Json::Int(*c as i64)).collect()));
        }
        inv.choices.clone()
    };

    // R-order: work-atomic schedules (Policy::Order) are the schedules of Model/Sched.v: the whole observation —
    // verdict, executed lines in execution order, status lines, workspace, cache, histories, table — of the
    // implementation under such a schedule is compared with `build_ord` run in the order the work steps took
    if let Op::Build(goal) = op
    {
        let nworkers = reference.trace.iter().filter(|e| e.task == 0 && e.what.starts_with("spawn")).count();
        for _ in 0..n_order
        {
            let mut prio : Vec<usize> = (1..=nworkers).collect();
            rng.shuffle(&mut prio);
            let d = p.driver.fork();
            let inv = d.invoke(op, Policy::Order(prio.clone()));
            d.tick();
            out.count("schedules");
            out.count("work-order-runs");
            if inv.deadlock || matches!(inv.verdict, Verdict::Panic(_)) || !inv.panicked_tasks.is_empty()
            {
                out.violation("C05:deadlock-or-panic", format!("under the work order priorities {:?}: {}", prio, inv.verdict.show()), replay_json("sched", &p.prep, op, &format!("order({:?})", prio), &inv.choices));
                continue;
            }
            // the order in which the workers did their work
            let events = protocol_events(&inv);
            let order : Vec<String> = events.split("(work #").skip(1).map(|x| format!("#{}", x.split(')').next().unwrap_or("0"))).collect();
            if order.iter().map(|x| x.clone()).collect::<BTreeSet<String>>().len() != order.len() { out.count("work-order:duplicate-work-event"); continue; }
            out.count(if order.iter().enumerate().all(|(i, x)| *x == format!("#{}", i)) { "work-order:spawn-order" } else { "work-order:other" });
            let case = sexp::paren(&["order".to_string(), sexp::boolean(false), sexp::num64(1_000_000), sexp::list(p.prep.iter().map(|o| o.show()).collect()),
                                     sexp::option(goal.clone().map(|g| sexp::hex(g.as_bytes()))), sexp::list(order)]);
            out.case(case, sexp::paren(&["order".to_string(), sexp::boolean(true), world::show_obs(Some(&inv), &d.sys.disk())]), true);
            // C06 on this schedule
            if inv.verdict != reference.verdict || disk_files(&inv.after) != ref_files
            {
                out.violation("C06:outcome-depends-on-work-order", format!("work order priorities {:?} give verdict {} / different files; the serial schedule gives {}", prio, inv.verdict.show(), reference.verdict.show()), replay_json("sched", &p.prep, op, &format!("order({:?})", prio), &inv.choices));
            }
        }
    }

    for k in 0..n_random { let seed = rng.next_u64(); run_one(Policy::Random(seed), format!("random({})", seed), out, &mut distinct_traces); let _ = k; }
    for _ in 0..n_pct { let seed = rng.next_u64(); let depth = rng.range(1, 3); run_one(Policy::Pct(seed, depth), format!("pct({},{})", seed, depth), out, &mut distinct_traces); }

    // bounded exhaustive depth-first exploration of the choice tree (small scenarios)
    if dfs_budget > 0
    {
        let mut prefix : Vec<usize> = vec![];
        let mut runs = 0;
        loop
        {
            let choices = run_one(Policy::Replay(prefix.clone()), format!("dfs({:?})", prefix), out, &mut distinct_traces);
            runs += 1;
            // next prefix: the deepest choice point that still has an untried alternative
            let mut next : Option<Vec<usize>> = None;
            let mut k = choices.len();
            while k > 0
            {
                k -= 1;
                let (c, n) = choices[k];
                if c + 1 < n
                {
                    let mut v : Vec<usize> = choices[..k].iter().map(|(c, _)| *c).collect();
                    v.push(c + 1);
                    next = Some(v);
                    break;
                }
            }
            match next
            {
                Some(v) if runs < dfs_budget => prefix = v,
                Some(_) => { out.count("dfs:budget-exhausted"); break; },
                None => { out.count("dfs:complete"); break; },
            }
        }
    }
    out.count(&format!("distinct-traces-per-scenario:{}", match distinct_traces.len() { 0..=1 => "1", 2..=5 => "2-5", 6..=20 => "6-20", _ => "21+" }));
}

pub fn mentions_cache_error(v : &Verdict) -> bool
{
    match v
    {
        Verdict::WorkErrors(es) => es.iter().any(|e| e.starts_with("(Other ")),
        _ => false,
    }
}

/// C05 speaks of "every rule graph the tool accepts": graphs ruler must REJECT (dependency cycles at any depth,
/// between siblings, through the goal or beside it; duplicate targets) are run too — under the serial and some
/// random schedules build and clean must return (no deadlock, no panic), and the serial run is a correspondence
/// case (the model says which sort error is reported).
fn ill_formed_graphs(ctx : &Ctx, out : &mut Out)
{
    let mut rng = Rng::new(ctx.seed).fork(5150);
    let mk = |t : &str, sources : Vec<&str>| RuleSpec{targets : vec![t.to_string()], sources : sources.iter().map(|s| s.to_string()).collect(), script : vec![format!("gen {} {}", t, sources.iter().map(|s| format!("@{}", s)).collect::<Vec<_>>().join(" "))], raw_command : None};
    let mut shapes : Vec<(String, Vec<RuleSpec>)> = vec![
        ("self-loop".to_string(), vec![mk("A", vec!["A", "a"])]),
        ("two-cycle".to_string(), vec![mk("A", vec!["B"]), mk("B", vec!["A"])]),
        ("sibling-cycle-below-top".to_string(), vec![mk("TOP", vec!["S1", "S2"]), mk("S1", vec!["S2", "a"]), mk("S2", vec!["S1", "a"])]),
        ("sibling-cycle-deeper".to_string(), vec![mk("TOP", vec!["M", "a"]), mk("M", vec!["S1", "S2"]), mk("S1", vec!["S2"]), mk("S2", vec!["S1"])]),
        ("three-cycle-below-top".to_string(), vec![mk("TOP", vec!["X", "Y", "Z"]), mk("X", vec!["Y"]), mk("Y", vec!["Z"]), mk("Z", vec!["X"])]),
        ("cycle-beside-acyclic-part".to_string(), vec![mk("OK1", vec!["a"]), mk("OK2", vec!["OK1"]), mk("P", vec!["Q"]), mk("Q", vec!["P", "OK1"])]),
        ("cycle-through-shared-child".to_string(), vec![mk("TOP", vec!["L", "R"]), mk("L", vec!["C"]), mk("R", vec!["C"]), mk("C", vec!["L"])]),
    ];
    let n_random = if ctx.thorough { 400 } else { 40 };
    for i in 0..n_random
    {
        let mut r = rng.fork(i as u64);
        let k = r.range(2, 6);
        let names : Vec<String> = (0..k).map(|j| format!("T{}", j)).collect();
        let mut rules = vec![];
        for j in 0..k
        {
            let mut sources : Vec<&str> = vec![];
            for _ in 0..r.range(1, 3) { let c = if r.chance(1, 5) { "a".to_string() } else { r.pick(&names).clone() }; let c : &str = if c == "a" { "a" } else { names.iter().find(|n| **n == c).unwrap().as_str() }; if !sources.contains(&c) { sources.push(c); } }
            rules.push(mk(&names[j], sources));
        }
        r.shuffle(&mut rules);
        shapes.push((format!("random-{}", i), rules));
    }
    for (name, rules) in shapes
    {
        let sc = Scenario{rules : rules, split_tokens : false};
        if sc.well_formed() { out.count("ill-formed:random-graph-was-acyclic"); continue; }
        out.count(&format!("ill-formed:{}", if name.starts_with("random") { "random" } else { name.as_str() }));
        let driver = Driver::new(ClockMode::Fine, 1_000_000);
        let mut prep : Vec<Op> = vec![];
        for op in [Op::Write(RULES_PATH.to_string(), sc.render().into_bytes()), Op::Write("a".to_string(), b"X".to_vec())] { driver.user(&op); driver.tick(); prep.push(op); }
        let targets : Vec<String> = sc.all_targets().into_iter().collect();
        let mut ops : Vec<Op> = vec![Op::Build(None), Op::Clean(None)];
        for t in targets.iter().take(3) { ops.push(Op::Build(Some(t.clone()))); }
        for op in ops
        {
            let mut policies = vec![(Policy::Serial, "serial".to_string())];
            for _ in 0..3 { let seed = rng.next_u64(); policies.push((Policy::Random(seed), format!("random({})", seed))); }
            for (policy, pname) in policies
            {
                let d = driver.fork();
                let inv = d.invoke(&op, policy);
                out.count("schedules");
                let replay = replay_json("sched", &prep, &op, &pname, &inv.choices);
                if inv.deadlock { out.violation("C05:deadlock", format!("{}: all threads blocked: the rule threads wait for each other ({})", name, op.describe()), replay.clone()); }
                if let Verdict::Panic(m) = &inv.verdict { out.violation("C05:panic", format!("{}: panicked: {}", name, m), replay.clone()); }
                if !inv.panicked_tasks.is_empty() { out.violation("C05:thread-panic", format!("{}: worker threads {:?} panicked", name, inv.panicked_tasks), replay.clone()); }
                if inv.trace.iter().any(|e| e.what.starts_with("send-fail") || e.what.starts_with("recv-fail")) { out.violation("C05:channel-error", format!("{}: a send or receive failed on a closed channel", name), replay.clone()); }
            }
            let mut all = prep.clone();
            all.push(op.clone());
            let (obs, _) = crate::suites::hist::run_fixed(out, "sched", false, 1_000_000, &all, true, &Policy::Serial, false);
            out.case(world::show_history_case(false, 1_000_000, &all), sexp::list(obs), true);
        }
    }
}

/// Independent rules whose CURRENT targets are byte-identical (so their back-ups meet at one cache entry) and which
/// rebuild in the same build, one of them with a command that fails, exits 0 without writing its target, or reads a
/// missing file: built first with plain copy commands, then the rules file is edited and the leaves change.
fn twin_targets(ctx : &Ctx, out : &mut Out)
{
    let mut rng = Rng::new(ctx.seed).fork(7117);
    let n = if ctx.thorough { 120 } else { 12 };
    let mk = |t : &str, sources : Vec<&str>, script : Vec<String>| RuleSpec{targets : vec![t.to_string()], sources : sources.iter().map(|s| s.to_string()).collect(), script : script, raw_command : None};
    for i in 0..n
    {
        let mut r = rng.fork(i as u64);
        let k = r.range(2, 3);
        let with_dependent = r.chance(1, 2);
        let names : Vec<String> = (0..k).map(|j| format!("I{}", j)).collect();
        let leaves : Vec<String> = (0..k).map(|j| format!("{}", (b'a' + j as u8) as char)).collect();
        let plain = |bad : Option<(usize, usize)>| -> Scenario
        {
            let mut rules = vec![];
            for j in 0..k
            {
                let script = match bad
                {
                    Some((b, kind)) if b == j => match kind { 0 => vec!["fail".to_string()], 1 => vec![format!("true {}", names[j])], 2 => vec![format!("gen {} @no-such-file", names[j])], _ => vec![format!("gen {} @{}", names[j], leaves[j]), "fail".to_string()] },
                    _ => vec![format!("gen {} @{}", names[j], leaves[j])],
                };
                rules.push(mk(&names[j], vec![leaves[j].as_str()], script));
            }
            if with_dependent { rules.push(mk("D", vec![names[0].as_str()], vec![format!("gen D =d @{}", names[0])])); }
            Scenario{rules : rules, split_tokens : false}
        };
        let before = plain(None);
        let bad = (r.below(k), r.below(4));
        let after = plain(Some(bad));
        out.count(&format!("twins:bad-kind-{}", bad.1));
        let driver = Driver::new(ClockMode::Fine, 1_000_000);
        let mut tr = Tracker::new("sched", true);
        let mut prep : Vec<Op> = vec![];
        let mut ops : Vec<Op> = vec![Op::Write(RULES_PATH.to_string(), before.render().into_bytes())];
        for l in leaves.iter() { ops.push(Op::Write(l.clone(), b"X".to_vec())); }
        ops.push(Op::Build(None));
        ops.push(Op::Write(RULES_PATH.to_string(), after.render().into_bytes()));
        for l in leaves.iter() { if r.chance(3, 4) { ops.push(Op::Write(l.clone(), r.pick(&["Y", "Z"]).as_bytes().to_vec())); } }
        for op in ops
        {
            match &op { Op::Build(_) | Op::Clean(_) => { driver.invoke(&op, Policy::Serial); driver.tick(); }, _ => { driver.user(&op); driver.tick(); } }
            prep.push(op);
        }
        tr.scenario = Some(after.clone());
        tr.ever_targets.extend(after.all_targets());
        let p = Prepared{driver : driver, prep : prep, tracker : tr, scenario : after};
        explore(out, &mut r, &p, &Op::Build(None), if ctx.thorough { 40 } else { 16 }, 6, if ctx.thorough { 1500 } else { 200 }, 4);
    }
}

pub fn schedules(ctx : &Ctx, out : &mut Out)
{
    ill_formed_graphs(ctx, out);
    twin_targets(ctx, out);
    // corpus: (history ...) cases whose last op is explored under schedules
    for (name, line) in world::corpus_cases("sched")
    {
        if let Some((_, _, ops)) = world::parse_history_case(&line)
        {
            if ops.is_empty() { continue; }
          // every corpus case twice: on the ordinary file system, and on one whose reads return a single byte at a time
          for chunk in [0usize, 1]
          {
            out.count("corpus-case");
            crate::memsys::set_default_read_chunk(chunk);
            let driver = Driver::new(ClockMode::Fine, 1_000_000);
            crate::memsys::set_default_read_chunk(0);
            let mut tr = Tracker::new(&format!("corpus:{}", name), true);
            let (prep, last) = ops.split_at(ops.len() - 1);
            let mut sc_opt : Option<Scenario> = None;
            for op in prep
            {
                match op
                {
                    Op::Build(_) | Op::Clean(_) => { driver.invoke(op, Policy::Serial); driver.tick(); },
                    _ =>
                    {
                        if let Op::Write(p, c) = op { if p == RULES_PATH { sc_opt = scenario::scenario_from_text(&String::from_utf8_lossy(c)); } }
                        driver.user(op); driver.tick();
                    },
                }
            }
            if let Some(sc) = sc_opt
            {
                tr.scenario = Some(sc.clone());
                tr.ever_targets.extend(sc.all_targets());
                let p = Prepared{driver : driver, prep : prep.to_vec(), tracker : tr, scenario : sc};
                let mut rng = Rng::new(ctx.seed).fork(77);
                explore(out, &mut rng, &p, &last[0], if ctx.thorough { 400 } else { 150 }, 30, if ctx.thorough { 4000 } else { 600 }, if ctx.thorough { 40 } else { 10 });
            }
          }
        }
    }

    let mut rng = Rng::new(ctx.seed).fork(3456);
    let n = if ctx.thorough { 500 } else { 50 };
    for i in 0..n
    {
        let flavor = if i % 3 == 2 { Flavor::WithFailures } else { Flavor::Plain };
        let mut r = rng.fork(i as u64);
        let small = i % 4 == 0;
        let sc = if small { gen_shape(&mut r, flavor, 3) } else { gen_shape(&mut r, flavor, if ctx.thorough { 12 } else { 7 }) };
        if !sc.well_formed() { continue; }
        // a fifth of the scenarios on a file system whose reads come in pieces of 3 bytes
        crate::memsys::set_default_read_chunk(if i % 5 == 3 { 3 } else { 0 });
        let p = prepare(&mut r, &sc, flavor, out);
        crate::memsys::set_default_read_chunk(0);
        let targets : Vec<String> = sc.all_targets().into_iter().collect();
        let goal = if r.chance(1, 3) && !targets.is_empty() { Some(r.pick(&targets).clone()) } else { None };
        let op = if r.chance(1, 6) { Op::Clean(goal) } else { Op::Build(goal) };
        let (n_random, n_pct) = if ctx.thorough { (60, 20) } else { (20, 10) };
        let dfs = if small && sc.rules.len() <= 3 { if ctx.thorough { 3000 } else { 250 } } else { 0 };
        explore(out, &mut r, &p, &op, n_random, n_pct, dfs, if ctx.thorough { 12 } else { 6 });
    }
}
