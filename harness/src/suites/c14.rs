//! C14: the rules-file parser is total and faithful to the documented format.
use crate::bundle::{self, PathBundle};
use crate::json::Json;
use crate::rng::Rng;
use crate::rule::{self, ParseError, Rule};
use crate::sexp;
use crate::suite::{Ctx, Out};
use std::collections::BTreeMap;

fn catch<R>(f : impl FnOnce() -> R) -> Result<R, String>
{
    std::panic::catch_unwind(std::panic::AssertUnwindSafe(f)).map_err(|p| crate::verif_sched::panic_message(&p))
}

pub fn show_rule(r : &Rule) -> String
{
    sexp::paren(&["rule".to_string(), sexp::strs(&r.targets), sexp::strs(&r.sources), sexp::strs(&r.command)])
}

pub fn show_rule_parts(t : &[String], s : &[String], c : &[String]) -> String
{
    sexp::paren(&["rule".to_string(), sexp::strs(t), sexp::strs(s), sexp::strs(c)])
}

fn show_bundle_err(e : &bundle::ParseError) -> String
{
    match e
    {
        bundle::ParseError::Empty => "Empty".to_string(),
        bundle::ParseError::ContainsEmptyLines(v) => sexp::paren(&["ContainsEmptyLines".to_string(), sexp::list(v.iter().map(|i| sexp::num(*i)).collect())]),
        bundle::ParseError::Contradiction(a, b) => sexp::paren(&["Contradiction".to_string(), sexp::num(*a), sexp::num(*b)]),
        bundle::ParseError::WrongIndent(n) => sexp::paren(&["WrongIndent".to_string(), sexp::num(*n)]),
    }
}

pub fn show_parse(r : &Result<Vec<Rule>, ParseError>) -> String
{
    match r
    {
        Ok(rules) => sexp::ok(sexp::list(rules.iter().map(show_rule).collect())),
        Err(e) => sexp::err(match e
        {
            ParseError::UnexpectedEmptyLine(_, n) => sexp::paren(&["UnexpectedEmptyLine".to_string(), sexp::num(*n)]),
            ParseError::UnexpectedExtraColon(_, n) => sexp::paren(&["UnexpectedExtraColon".to_string(), sexp::num(*n)]),
            ParseError::UnexpectedEndOfFileMidTargets(_, n) => sexp::paren(&["UnexpectedEndOfFileMidTargets".to_string(), sexp::num(*n)]),
            ParseError::UnexpectedEndOfFileMidSources(_, n) => sexp::paren(&["UnexpectedEndOfFileMidSources".to_string(), sexp::num(*n)]),
            ParseError::UnexpectedEndOfFileMidCommand(_, n) => sexp::paren(&["UnexpectedEndOfFileMidCommand".to_string(), sexp::num(*n)]),
            ParseError::BundleError(_, b) => sexp::paren(&["BundleError".to_string(), show_bundle_err(b)]),
        }),
    }
}

fn error_filename(e : &ParseError) -> &str
{
    match e
    {
        ParseError::UnexpectedEmptyLine(f, _) | ParseError::UnexpectedExtraColon(f, _) |
        ParseError::UnexpectedEndOfFileMidTargets(f, _) | ParseError::UnexpectedEndOfFileMidSources(f, _) |
        ParseError::UnexpectedEndOfFileMidCommand(f, _) | ParseError::BundleError(f, _) => f,
    }
}

// ---------- ASTs and rendering ----------

#[derive(Clone, Debug, PartialEq)]
pub enum Tree
{
    Leaf(String),
    Dir(String, Vec<Tree>),
}

impl Tree
{
    fn name(&self) -> &str { match self { Tree::Leaf(n) => n, Tree::Dir(n, _) => n } }
}

#[derive(Clone, Debug)]
pub struct RuleAst
{
    pub targets : Vec<Tree>,
    pub sources : Vec<Tree>,
    pub command : Vec<String>,
}

const NAMES : &[&str] = &["a", "b", "c", "out", "main.c", "x y", "a.b", "a:b", "é", "lib", "src", ";", ": ", " ", "::", "a\\b", "日本", "z/z", "-o", "%s"];
const COMMANDS : &[&str] = &["gcc -c main.c", "cat a b > out", "echo hi", ";", "x ", " x", "a:b", ": ", "\ttabbed", "touch out", "mycat", "é"];

fn gen_forest(rng : &mut Rng, depth : usize, distinct : bool) -> Vec<Tree>
{
    let n = if depth == 0 { rng.range(1, 4) } else { rng.range(1, 3) };
    let mut out : Vec<Tree> = vec![];
    for _ in 0..n
    {
        let name = rng.pick(NAMES).to_string();
        if distinct && out.iter().any(|t| t.name() == name) { continue; }
        if depth < 3 && rng.chance(1, 4)
        {
            out.push(Tree::Dir(name, gen_forest(rng, depth + 1, distinct)));
        }
        else
        {
            out.push(Tree::Leaf(name));
        }
    }
    if out.is_empty() { out.push(Tree::Leaf("only".to_string())); }
    out
}

fn gen_rule_ast(rng : &mut Rng) -> RuleAst
{
    let n_cmd = if rng.chance(1, 8) { 0 } else { rng.range(1, 3) };
    RuleAst
    {
        targets : gen_forest(rng, 0, true),
        sources : gen_forest(rng, 0, true),
        command : (0..n_cmd).map(|_| rng.pick(COMMANDS).to_string()).collect(),
    }
}

/// the canonical meaning of a forest without contradictions: identical repeats merged, siblings in
/// bytewise order, flattened with '/'. None when two same-named siblings differ (a contradiction).
fn canon_forest(f : &[Tree]) -> Option<Vec<Tree>>
{
    let mut m : BTreeMap<Vec<u8>, Tree> = BTreeMap::new();
    for t in f
    {
        let c = match t
        {
            Tree::Leaf(n) => Tree::Leaf(n.clone()),
            Tree::Dir(n, kids) => Tree::Dir(n.clone(), canon_forest(kids)?),
        };
        match m.get(t.name().as_bytes())
        {
            Some(prev) =>
            {
                let same = match (prev, &c)
                {
                    (Tree::Leaf(_), Tree::Leaf(_)) => true,
                    (Tree::Dir(_, a), Tree::Dir(_, b)) => a == b,
                    _ => false,
                };
                if !same { return None; }
            },
            None => { m.insert(t.name().as_bytes().to_vec(), c); },
        }
    }
    Some(m.into_iter().map(|(_, v)| v).collect())
}

fn flatten(f : &[Tree], prefix : &str, out : &mut Vec<String>)
{
    for t in f
    {
        match t
        {
            Tree::Leaf(n) => out.push(format!("{}{}", prefix, n)),
            Tree::Dir(n, kids) => flatten(kids, &format!("{}{}/", prefix, n), out),
        }
    }
}

fn render_forest(rng : &mut Rng, f : &[Tree], level : usize, shuffle : bool, repeat : bool, out : &mut Vec<String>)
{
    let mut items : Vec<&Tree> = f.iter().collect();
    if shuffle { rng.shuffle(&mut items); }
    for t in items
    {
        let times = if repeat && rng.chance(1, 5) { 2 } else { 1 };
        for _ in 0..times
        {
            match t
            {
                Tree::Leaf(n) => out.push(format!("{}{}", "\t".repeat(level), n)),
                Tree::Dir(n, kids) =>
                {
                    out.push(format!("{}{}", "\t".repeat(level), n));
                    render_forest(rng, kids, level + 1, shuffle, repeat, out);
                },
            }
        }
    }
}

struct Rendered
{
    lines : Vec<String>,
    final_newline : bool,
}

fn render_rules(rng : &mut Rng, rules : &[RuleAst], shuffle : bool, repeat : bool) -> Rendered
{
    let mut lines : Vec<String> = vec![];
    for _ in 0..(if rng.chance(1, 3) { rng.range(1, 3) } else { 0 }) { lines.push(String::new()); }
    for (i, r) in rules.iter().enumerate()
    {
        if i > 0 { for _ in 0..(if rng.chance(1, 6) { 0 } else { rng.range(1, 2) }) { lines.push(String::new()); } }
        render_forest(rng, &r.targets, 0, shuffle, repeat, &mut lines);
        lines.push(":".to_string());
        render_forest(rng, &r.sources, 0, shuffle, repeat, &mut lines);
        lines.push(":".to_string());
        for c in &r.command { lines.push(c.clone()); }
        lines.push(":".to_string());
    }
    for _ in 0..(if rng.chance(1, 3) { rng.range(1, 3) } else { 0 }) { lines.push(String::new()); }
    Rendered{lines : lines, final_newline : rng.chance(3, 4)}
}

fn text_of(r : &Rendered) -> String
{
    let mut t = r.lines.join("\n");
    if r.final_newline { t.push('\n'); }
    t
}

fn expected_rules(rules : &[RuleAst]) -> Option<Vec<(Vec<String>, Vec<String>, Vec<String>)>>
{
    let mut out = vec![];
    for r in rules
    {
        let mut t = vec![];
        flatten(&canon_forest(&r.targets)?, "", &mut t);
        let mut s = vec![];
        flatten(&canon_forest(&r.sources)?, "", &mut s);
        out.push((t, s, r.command.clone()));
    }
    Some(out)
}


// ---------- an independent reading of the format (stack-based, not ruler's recursive spans) ----------

#[derive(Clone, Debug, PartialEq)]
enum RefTree { Leaf, Dir(BTreeMap<Vec<u8>, RefTree>) }

/// Ok(paths in canonical order) or the set of defect kinds present in the section
pub fn ref_bundle(lines : &[&str]) -> Result<Vec<String>, std::collections::BTreeSet<&'static str>>
{
    let mut defects = std::collections::BTreeSet::new();
    if lines.is_empty() { defects.insert("Empty"); return Err(defects); }
    if lines.iter().any(|l| l.chars().all(|c| c == '\t')) { defects.insert("ContainsEmptyLines"); return Err(defects); }
    // (level, name) pairs; every line may be at most one level deeper than the one before, the first at 0
    let parsed : Vec<(usize, &str)> = lines.iter().map(|l| { let lvl = l.chars().take_while(|c| *c == '\t').count(); (lvl, &l[lvl..]) }).collect();
    let mut prev : Option<usize> = None;
    for (lvl, _) in parsed.iter()
    {
        let ok = match prev { None => *lvl == 0, Some(p) => *lvl <= p + 1 };
        if !ok { defects.insert("WrongIndent"); }
        prev = Some(*lvl);
    }
    // with broken indentation the tree is not well defined; ruler may meet a contradiction before it reaches
    // the badly indented line, so either kind is acceptable then
    if !defects.is_empty() { defects.insert("Contradiction"); return Err(defects); }
    // build the forest with an explicit stack of open directories; children kept in document order first
    #[derive(Debug)]
    struct N { name : String, kids : Vec<N> }
    fn insert(forest : &mut Vec<N>, path : &[usize], n : N) { if path.is_empty() { forest.push(n); } else { insert(&mut forest[path[0]].kids, &path[1..], n); } }
    let mut forest : Vec<N> = vec![];
    let mut open : Vec<usize> = vec![];   // index path of the most recent node at each level
    for (lvl, name) in parsed.iter()
    {
        open.truncate(*lvl);
        fn count(forest : &Vec<N>, path : &[usize]) -> usize { if path.is_empty() { forest.len() } else { count(&forest[path[0]].kids, &path[1..]) } }
        let idx = count(&forest, &open);
        insert(&mut forest, &open.clone(), N{name : name.to_string(), kids : vec![]});
        open.push(idx);
    }
    // canonicalise bottom-up; same-named siblings must be the same thing
    fn canon(nodes : &Vec<N>, defects : &mut std::collections::BTreeSet<&'static str>) -> BTreeMap<Vec<u8>, RefTree>
    {
        let mut m : BTreeMap<Vec<u8>, RefTree> = BTreeMap::new();
        for n in nodes
        {
            let t = if n.kids.is_empty() { RefTree::Leaf } else { RefTree::Dir(canon(&n.kids, defects)) };
            match m.get(n.name.as_bytes())
            {
                Some(prev) => if *prev != t { defects.insert("Contradiction"); },
                None => { m.insert(n.name.as_bytes().to_vec(), t); },
            }
        }
        m
    }
    let c = canon(&forest, &mut defects);
    if !defects.is_empty() { return Err(defects); }
    fn flat(m : &BTreeMap<Vec<u8>, RefTree>, prefix : &str, out : &mut Vec<String>)
    {
        for (k, v) in m
        {
            let name = String::from_utf8_lossy(k).to_string();
            match v { RefTree::Leaf => out.push(format!("{}{}", prefix, name)), RefTree::Dir(kids) => flat(kids, &format!("{}{}/", prefix, name), out) }
        }
    }
    let mut out = vec![];
    flat(&c, "", &mut out);
    Ok(out)
}

#[derive(Debug)]
pub enum RefOutcome
{
    Valid(Vec<(Vec<String>, Vec<String>, Vec<String>)>),
    /// the first rule with a defective path section, and the kinds of defect in that section
    BundleDefect(std::collections::BTreeSet<&'static str>),
    Malformed,
}

/// the documented format read as a pattern over line kinds: E* ( T+ ':' T* ':' T* ':' E* )*
pub fn ref_file(text : &str) -> RefOutcome
{
    let lines : Vec<&str> = text.split('\n').collect();
    let mut i = 0;
    let n = lines.len();
    let mut rules = vec![];
    let is_text = |l : &str| l != "" && l != ":";
    loop
    {
        while i < n && lines[i] == "" { i += 1; }
        if i == n { return RefOutcome::Valid(rules); }
        let t0 = i;
        while i < n && is_text(lines[i]) { i += 1; }
        if i == t0 || i == n || lines[i] != ":" { return RefOutcome::Malformed; }
        let targets = &lines[t0..i];
        i += 1;
        let s0 = i;
        while i < n && is_text(lines[i]) { i += 1; }
        if i == n || lines[i] != ":" { return RefOutcome::Malformed; }
        let sources = &lines[s0..i];
        i += 1;
        let c0 = i;
        while i < n && is_text(lines[i]) { i += 1; }
        if i == n || lines[i] != ":" { return RefOutcome::Malformed; }
        let command : Vec<String> = lines[c0..i].iter().map(|s| s.to_string()).collect();
        i += 1;
        let t = match ref_bundle(targets) { Ok(t) => t, Err(d) => return RefOutcome::BundleDefect(d) };
        let s = match ref_bundle(sources) { Ok(s) => s, Err(d) => return RefOutcome::BundleDefect(d) };
        rules.push((t, s, command));
    }
}

/// run the parser on one text: correspondence case + monitors that need no model
fn run_text(out : &mut Out, kind : &str, text : &str, expected : Option<&Vec<(Vec<String>, Vec<String>, Vec<String>)>>)
{
    let filename = "some.rules".to_string();
    let r = match catch(|| rule::parse(filename.clone(), text.to_string()))
    {
        Ok(r) => r,
        Err(m) =>
        {
            out.case(sexp::paren(&["parse".to_string(), sexp::hex(text.as_bytes())]), "(panic)".to_string(), true);
            out.violation("C14:parser-panic", format!("rule::parse panicked on a {} input: {}", kind, m), Json::s(text));
            return;
        },
    };
    out.count(&format!("{}:{}", kind, match &r
    {
        Ok(_) => "ok".to_string(),
        Err(ParseError::BundleError(_, b)) => format!("Bundle{}", match b { bundle::ParseError::Empty => "Empty", bundle::ParseError::ContainsEmptyLines(_) => "EmptyLines", bundle::ParseError::Contradiction(_, _) => "Contradiction", bundle::ParseError::WrongIndent(_) => "WrongIndent" }),
        Err(ParseError::UnexpectedEmptyLine(_, _)) => "EmptyLine".to_string(),
        Err(ParseError::UnexpectedExtraColon(_, _)) => "ExtraColon".to_string(),
        Err(_) => "Eof".to_string(),
    }));
    out.case(sexp::paren(&["parse".to_string(), sexp::hex(text.as_bytes())]), show_parse(&r), !text.is_empty());

    // the independent reading of the format decides what must happen
    match (ref_file(text), &r)
    {
        (RefOutcome::Valid(exp), Ok(rules)) =>
        {
            let got : Vec<(Vec<String>, Vec<String>, Vec<String>)> = rules.iter().map(|r| (r.targets.clone(), r.sources.clone(), r.command.clone())).collect();
            if got != exp { out.violation("C14:well-formed-misparsed", "a well-formed file does not yield exactly the written targets, sources and command lines in canonical order".to_string(), Json::s(text)); }
        },
        (RefOutcome::Valid(_), Err(e)) => out.violation("C14:well-formed-rejected", format!("a well-formed file is rejected: {}", e), Json::s(text)),
        (RefOutcome::BundleDefect(kinds), Ok(_)) => out.violation("C14:malformed-accepted", format!("a file whose path section has {:?} is accepted", kinds), Json::s(text)),
        (RefOutcome::BundleDefect(kinds), Err(e)) =>
        {
            let kind = match e
            {
                ParseError::BundleError(_, bundle::ParseError::Empty) => "Empty",
                ParseError::BundleError(_, bundle::ParseError::ContainsEmptyLines(_)) => "ContainsEmptyLines",
                ParseError::BundleError(_, bundle::ParseError::Contradiction(_, _)) => "Contradiction",
                ParseError::BundleError(_, bundle::ParseError::WrongIndent(_)) => "WrongIndent",
                _ => "not-a-bundle-error",
            };
            if !kinds.contains(kind) { out.violation("C14:wrong-error-kind", format!("the first defective path section has {:?} but the error is {}", kinds, e), Json::s(text)); }
        },
        (RefOutcome::Malformed, Ok(_)) => out.violation("C14:malformed-accepted", "a file that does not follow the three-section format is accepted".to_string(), Json::s(text)),
        (RefOutcome::Malformed, Err(_)) => {},
    }

    let lines : Vec<&str> = text.split('\n').collect();
    match &r
    {
        Err(e) =>
        {
            if error_filename(e) != filename
            {
                out.violation("C14:error-names-wrong-file", format!("error names file {:?}", error_filename(e)), Json::s(text));
            }
            let bad = match e
            {
                ParseError::UnexpectedEmptyLine(_, n) => *n < 1 || *n > lines.len() || lines[*n - 1] != "",
                ParseError::UnexpectedExtraColon(_, n) => *n < 1 || *n > lines.len() || lines[*n - 1] != ":",
                ParseError::UnexpectedEndOfFileMidTargets(_, n) | ParseError::UnexpectedEndOfFileMidSources(_, n) |
                ParseError::UnexpectedEndOfFileMidCommand(_, n) => *n != lines.len() + 1,
                // a contradiction is between an earlier and a later mention of one name: lines named in file order
                ParseError::BundleError(_, bundle::ParseError::Contradiction(a, b)) => a >= b,
                ParseError::BundleError(_, _) => false,
            };
            if bad
            {
                out.violation("C14:error-line-wrong", format!("error {} does not point at an offending line", e), Json::s(text));
            }
            if expected.is_some()
            {
                out.violation("C14:well-formed-rejected", format!("a well-formed file is rejected: {}", e), Json::s(text));
            }
        },
        Ok(rules) =>
        {
            if let Some(exp) = expected
            {
                let got : Vec<(Vec<String>, Vec<String>, Vec<String>)> = rules.iter().map(|r| (r.targets.clone(), r.sources.clone(), r.command.clone())).collect();
                if &got != exp
                {
                    out.violation("C14:well-formed-misparsed", "a well-formed file does not yield exactly the written targets, sources and command lines in canonical order".to_string(), Json::s(text));
                }
            }
        },
    }
}

pub fn parser(ctx : &Ctx, out : &mut Out)
{
    let mut rng = Rng::new(ctx.seed).fork(14);
    let n_asts = if ctx.thorough { 20000 } else { 1500 };
    for i in 0..n_asts
    {
        let n_rules = if i % 9 == 0 { 0 } else { rng.range(1, 4) };
        let asts : Vec<RuleAst> = (0..n_rules).map(|_| gen_rule_ast(&mut rng)).collect();
        let expected = expected_rules(&asts);

        // 1. well-formed renderings under formatting choices (two renderings: order must not matter)
        let r1 = render_rules(&mut rng, &asts, false, false);
        let r2 = render_rules(&mut rng, &asts, true, true);
        run_text(out, "rendered", &text_of(&r1), expected.as_ref());
        run_text(out, "rendered-shuffled", &text_of(&r2), expected.as_ref());

        // 2. single-edit corruptions of r2
        let base = r2.lines.clone();
        if base.is_empty() { continue; }
        let mut variants : Vec<(&str, Vec<String>, bool)> = vec![];
        let n_edits = if ctx.thorough { 6 } else { 4 };
        for _ in 0..n_edits
        {
            let pos = rng.below(base.len());
            match rng.below(7)
            {
                0 => { let mut l = base.clone(); l.remove(pos); variants.push(("delete-line", l, r2.final_newline)); },
                1 => { let mut l = base.clone(); l.insert(pos, String::new()); variants.push(("insert-blank", l, r2.final_newline)); },
                2 => { let mut l = base.clone(); l.insert(pos, ":".to_string()); variants.push(("insert-colon", l, r2.final_newline)); },
                3 => { let mut l = base.clone(); l[pos] = format!("\t{}", l[pos]); variants.push(("indent-more", l, r2.final_newline)); },
                4 => { let mut l = base.clone(); if l[pos].starts_with('\t') { l[pos] = l[pos][1..].to_string(); } else { l[pos] = format!("\t\t{}", l[pos]); } variants.push(("indent-change", l, r2.final_newline)); },
                5 => { let mut l = base.clone(); l.insert(pos, "\t".repeat(rng.range(1, 2))); variants.push(("insert-tab-line", l, r2.final_newline)); },
                _ => { let mut l = base.clone(); let dup = l[pos].clone(); l.insert(pos, dup); variants.push(("duplicate-line", l, r2.final_newline)); },
            }
        }
        // truncation at every line (quick: every line of every fifth text)
        if ctx.thorough || i % 5 == 0
        {
            for cut in 0..base.len() { variants.push(("truncate", base[..cut].to_vec(), cut % 2 == 0)); }
        }
        // CR-LF
        if i % 20 == 0 { variants.push(("crlf", base.iter().map(|l| format!("{}\r", l)).collect(), true)); }
        for (kind, lines, nl) in variants
        {
            run_text(out, kind, &text_of(&Rendered{lines : lines, final_newline : nl}), None);
        }

        // 3. contradictory / repeated entries, both orders, at depth
        if i % 3 == 0
        {
            let name = rng.pick(NAMES).to_string();
            let other = rng.pick(NAMES).to_string();
            let shapes : Vec<Vec<String>> = vec![
                vec![name.clone(), name.clone(), format!("\t{}", other)],
                vec![name.clone(), format!("\t{}", other), name.clone()],
                vec![name.clone(), format!("\t{}", other), name.clone(), format!("\t{}", other)],
                vec![name.clone(), format!("\t{}", other), name.clone(), format!("\t{}x", other)],
                vec!["top".to_string(), format!("\t{}", name), format!("\t{}", name), format!("\t\t{}", other)],
                vec!["top".to_string(), format!("\t{}", name), format!("\t\t{}", other), format!("\t{}", name)],
                vec![name.clone(), "mid".to_string(), name.clone(), format!("\t{}", other)],
                vec![name.clone(), format!("\t{}", other), format!("\t\t{}", other), name.clone(), format!("\t{}", other), format!("\t\tq")],
            ];
            for sh in shapes
            {
                let in_sources = rng.chance(1, 2);
                let mut lines : Vec<String> = vec![];
                if in_sources { lines.push("t".to_string()); lines.push(":".to_string()); lines.extend(sh.clone()); }
                else { lines.extend(sh.clone()); lines.push(":".to_string()); lines.push("s".to_string()); }
                lines.push(":".to_string());
                lines.push("cmd".to_string());
                lines.push(":".to_string());
                run_text(out, "repeat-shapes", &text_of(&Rendered{lines : lines, final_newline : true}), None);
            }
        }
    }

    // 4. unstructured soup
    let n_soup = if ctx.thorough { 300000 } else { 12000 };
    let alphabet : Vec<&str> = vec!["\n", "\n", "\t", ":", ";", "\r", " ", "a", "b", "é", "日", "\n:\n", "a\n"];
    for _ in 0..n_soup
    {
        let len = rng.below(14);
        let text : String = (0..len).map(|_| *rng.pick(&alphabet)).collect();
        run_text(out, "soup", &text, None);
    }
    // every text of length <= L over a five-symbol alphabet
    let syms = ["\n", "\t", ":", "a", "b"];
    let max_len = if ctx.thorough { 7 } else { 5 };
    let mut idx : Vec<usize> = vec![];
    loop
    {
        let text : String = idx.iter().map(|i| syms[*i]).collect();
        run_text(out, "exhaustive-short", &text, None);
        let mut k = 0;
        loop
        {
            if k == idx.len() { idx.push(0); if idx.len() > max_len { idx.clear(); } break; }
            idx[k] += 1;
            if idx[k] < syms.len() { break; }
            idx[k] = 0;
            k += 1;
        }
        if idx.is_empty() { break; }
    }
}

pub fn parse_all_and_bundle(ctx : &Ctx, out : &mut Out)
{
    let mut rng = Rng::new(ctx.seed).fork(1414);
    // several files: concatenation, first error wins
    let n = if ctx.thorough { 5000 } else { 500 };
    for _ in 0..n
    {
        let n_files = rng.range(0, 4);
        let mut contents : Vec<(String, String)> = vec![];
        let mut texts : Vec<String> = vec![];
        for f in 0..n_files
        {
            let asts : Vec<RuleAst> = (0..rng.range(0, 2)).map(|_| gen_rule_ast(&mut rng)).collect();
            let mut r = render_rules(&mut rng, &asts, true, true);
            if rng.chance(1, 4) && !r.lines.is_empty() { let p = rng.below(r.lines.len()); r.lines.remove(p); }
            let t = text_of(&r);
            texts.push(t.clone());
            contents.push((format!("file{}.rules", f), t));
        }
        let case = sexp::paren(&["parse_all".to_string(), sexp::list(texts.iter().map(|t| sexp::hex(t.as_bytes())).collect())]);
        match catch(|| rule::parse_all(contents.clone()))
        {
            Ok(r) =>
            {
                out.count(if r.is_ok() { "parse_all:ok" } else { "parse_all:err" });
                // monitor: first failing file is the one named; success = concatenation of the single-file results
                let singles : Vec<Result<Vec<Rule>, ParseError>> = contents.iter().map(|(f, t)| rule::parse(f.clone(), t.clone())).collect();
                match &r
                {
                    Ok(all) =>
                    {
                        let mut cat = vec![];
                        let mut any_err = false;
                        for s in &singles { match s { Ok(v) => cat.extend(v.iter().map(show_rule)), Err(_) => any_err = true } }
                        if any_err || cat != all.iter().map(show_rule).collect::<Vec<_>>()
                        {
                            out.violation("C14:parse-all-not-concatenation", "parsing several files is not the concatenation of parsing each".to_string(), Json::s(&case));
                        }
                    },
                    Err(e) =>
                    {
                        let first_bad = singles.iter().position(|s| s.is_err());
                        match first_bad
                        {
                            Some(k) => if error_filename(e) != contents[k].0 || show_parse(&Err::<Vec<Rule>, ParseError>(clone_err(e))) != show_parse(&singles[k].as_ref().map(|_| vec![]).map_err(clone_err))
                            {
                                out.violation("C14:parse-all-wrong-error", "the error for several files is not the first file's error".to_string(), Json::s(&case));
                            },
                            None => out.violation("C14:parse-all-wrong-error", "several files fail although each parses".to_string(), Json::s(&case)),
                        }
                    },
                }
                out.case(case, show_parse(&r), n_files > 0);
            },
            Err(m) =>
            {
                out.case(case.clone(), "(panic)".to_string(), true);
                out.violation("C14:parser-panic", format!("parse_all panicked: {}", m), Json::s(&case));
            },
        }
    }

    // bundles directly
    let n = if ctx.thorough { 60000 } else { 6000 };
    let pieces : Vec<&str> = vec!["a", "b", "c", "d/e", "", "\t", "x y", ":"];
    for i in 0..n
    {
        let n_lines = rng.below(8);
        let mut lines : Vec<String> = vec![];
        let mut level = 0usize;
        for _ in 0..n_lines
        {
            let jump = rng.below(10);
            level = match jump { 0..=3 => level, 4..=6 => level + 1, 7 => level + 2, _ => rng.below(level + 1) };
            if rng.chance(1, 12) { level = 0; }
            lines.push(format!("{}{}", "\t".repeat(level), rng.pick(&pieces)));
        }
        if i % 4 == 0 { lines.push(String::new()); }
        let case = sexp::paren(&["bundle".to_string(), sexp::list(lines.iter().map(|l| sexp::hex(l.as_bytes())).collect())]);
        let refs : Vec<&str> = lines.iter().map(|s| s.as_str()).collect();
        match catch(|| PathBundle::parse_lines(refs.clone()))
        {
            Ok(Ok(b)) => { out.count("bundle:ok"); out.case(case, sexp::ok(sexp::strs(&b.get_path_strings('/'))), n_lines > 0); },
            Ok(Err(e)) => { out.count("bundle:err"); out.case(case, sexp::err(show_bundle_err(&e)), n_lines > 0); },
            Err(m) =>
            {
                out.case(case.clone(), "(panic)".to_string(), true);
                out.violation("C14:parser-panic", format!("PathBundle::parse_lines panicked: {}", m), Json::s(&case));
            },
        }
    }
}

fn clone_err(e : &ParseError) -> ParseError
{
    match e
    {
        ParseError::UnexpectedEmptyLine(f, n) => ParseError::UnexpectedEmptyLine(f.clone(), *n),
        ParseError::UnexpectedExtraColon(f, n) => ParseError::UnexpectedExtraColon(f.clone(), *n),
        ParseError::UnexpectedEndOfFileMidTargets(f, n) => ParseError::UnexpectedEndOfFileMidTargets(f.clone(), *n),
        ParseError::UnexpectedEndOfFileMidSources(f, n) => ParseError::UnexpectedEndOfFileMidSources(f.clone(), *n),
        ParseError::UnexpectedEndOfFileMidCommand(f, n) => ParseError::UnexpectedEndOfFileMidCommand(f.clone(), *n),
        ParseError::BundleError(f, b) => ParseError::BundleError(f.clone(), match b
        {
            bundle::ParseError::Empty => bundle::ParseError::Empty,
            bundle::ParseError::ContainsEmptyLines(v) => bundle::ParseError::ContainsEmptyLines(v.clone()),
            bundle::ParseError::Contradiction(a, b) => bundle::ParseError::Contradiction(*a, *b),
            bundle::ParseError::WrongIndent(n) => bundle::ParseError::WrongIndent(*n),
        }),
    }
}
