//! C11 (and the crash columns of C07, C08): kill ruler at every file-system mutation of a build or
//! clean — every create, every (torn) write, every rename, inside ruler and inside commands — and
//! start again from what is on disk.
use crate::json::Json;
use crate::memsys::{ClockMode, Disk, MemSys};
use crate::rng::Rng;
use crate::scenario::{self, disk_files, from_scratch, Flavor, GenParams, RuleOutcome, Scenario};
use crate::suite::{Ctx, Out};
use crate::suites::hist::{cache_name_of, monitor_invocation, Tracker};
use crate::verif_sched::Policy;
use crate::world::{self, cache_prefix, in_ruler_dir, Driver, Invocation, Op, Verdict, RULES_PATH};
use std::collections::{BTreeMap, BTreeSet};

fn replay_json(label : &str, prep : &[Op], op : &Op, k : usize, what : &str, chunk : usize) -> Json
{
    let mut all : Vec<Op> = prep.to_vec();
    all.push(op.clone());
    let mut j = Json::obj();
    j.set("suite", Json::s(label));
    j.set("ops", Json::Arr(all.iter().map(|o| Json::s(&o.describe())).collect()));
    j.set("case", Json::s(&world::show_history_case(false, 1_000_000, &all)));
    j.set("killed_before_mutation", Json::Int(k as i64));
    j.set("mutation", Json::s(what));
    j.set("write_chunk", Json::Int(chunk as i64));
    j
}

fn contents_at_risk(disk : &Disk, targets : &BTreeSet<String>) -> BTreeSet<Vec<u8>>
{
    disk.files.iter().filter(|(p, _)| p.starts_with(&cache_prefix()) || targets.contains(*p)).map(|(_, n)| (*n.content).clone()).collect()
}

pub fn crashes(ctx : &Ctx, out : &mut Out)
{
    let mut rng = Rng::new(ctx.seed).fork(11);
    let n = if ctx.thorough { 300 } else { 30 };
    let mut total_snapshots = 0usize;
    for i in 0..n
    {
        let mut r = rng.fork(i as u64);
        let sc = scenario::gen_scenario(&mut r, &GenParams{max_rules : if ctx.thorough { 6 } else { 4 }, flavor : Flavor::Plain});
        if !sc.well_formed() { continue; }
        // prior history under the serial schedule
        let driver = Driver::new(ClockMode::Fine, 1_000_000);
        let mut prep : Vec<Op> = vec![];
        let user = |op : Op, prep : &mut Vec<Op>| { driver.user(&op); driver.tick(); prep.push(op); };
        user(Op::Write(RULES_PATH.to_string(), sc.render().into_bytes()), &mut prep);
        let mut leaves : BTreeSet<String> = BTreeSet::new();
        for rule in &sc.rules { for s in &rule.sources { if sc.owner(s).is_none() { leaves.insert(s.clone()); } } }
        for l in leaves.iter() { user(Op::Write(l.clone(), r.pick(scenario::CONTENTS).as_bytes().to_vec()), &mut prep); }
        let state = r.below(7);
        let mut reedit : Option<(String, Vec<u8>)> = None;
        out.count(&format!("prior:{}", ["fresh", "built", "built-edited", "built-cleaned", "built-tampered", "built-edited-built-reverted", "built-edited-built-reverted"][state]));
        if state >= 1 { driver.invoke(&Op::Build(None), Policy::Serial); driver.tick(); prep.push(Op::Build(None)); }
        match state
        {
            2 => { if let Some(l) = leaves.iter().next() { user(Op::Write(l.clone(), b"changed".to_vec()), &mut prep); } },
            3 => { driver.invoke(&Op::Clean(None), Policy::Serial); driver.tick(); prep.push(Op::Clean(None)); },
            4 => { let ts : Vec<String> = sc.all_targets().into_iter().collect(); if !ts.is_empty() { user(Op::Write(r.pick(&ts).clone(), b"tampered".to_vec()), &mut prep); } },
            5 | 6 =>
            {
                // built on A, edited to B and built, reverted to A: the build that gets killed recovers the A outputs
                // from the cache while the table still describes the B outputs
                if let Some(l) = leaves.iter().next()
                {
                    let original = driver.sys.read(l).unwrap_or(vec![]);
                    user(Op::Write(l.clone(), b"changed".to_vec()), &mut prep);
                    driver.invoke(&Op::Build(None), Policy::Serial); driver.tick(); prep.push(Op::Build(None));
                    user(Op::Write(l.clone(), original), &mut prep);
                    reedit = Some((l.clone(), b"changed".to_vec()));
                }
            },
            _ => {},
        }
        let targets = sc.all_targets();
        let target_list : Vec<String> = targets.iter().cloned().collect();
        let goal = if r.chance(1, 4) && !target_list.is_empty() { Some(r.pick(&target_list).clone()) } else { None };
        let op = if r.chance(1, 5) { Op::Clean(goal) } else { Op::Build(goal) };

        // the invocation that gets killed: every mutation recorded, writes torn into chunks
        let chunk = if ctx.thorough || i % 4 == 0 { 1 } else { *r.pick(&[3usize, 16, 40]) };
        let victim = driver.fork();
        let mut victim = victim;
        victim.record_snapshots = true;
        victim.sys.with(|s| s.write_chunk = Some(chunk));
        let inv = victim.invoke(&op, Policy::Serial);
        let before_risk = contents_at_risk(&inv.before, &targets);
        let mut snaps : Vec<(Disk, String)> = inv.snapshots.clone();
        snaps.push((inv.after.clone(), "end".to_string()));
        out.count(&format!("killed:{}", match op { Op::Build(_) => "build", _ => "clean" }));

        // R-crash: the disk at every action boundary of the implementation (every snapshot except those taken in the
        // middle of a `gen` line, half-written `.partial` state files ignored, equal neighbours merged) must be, in
        // order, exactly the crash states of the model: the disk after every prefix of Acts.build_acts / clean_acts
        {
            let mut states : Vec<String> = vec![];
            for (disk, what) in snaps.iter()
            {
                if what.starts_with("cmd-write") { continue; }
                let mut d = disk.clone();
                let partial : Vec<String> = d.files.keys().filter(|p| in_ruler_dir(p) && p.ends_with(".partial")).cloned().collect();
                for p in partial { d.files.remove(&p); }
                let mut v = vec!["st".to_string()];
                v.extend(world::show_disk(&d));
                let st = crate::sexp::paren(&v);
                if states.last() != Some(&st) { states.push(st); }
            }
            let mut all : Vec<Op> = prep.clone();
            all.push(op.clone());
            out.count(&format!("crash-states:{}", std::cmp::min(states.len(), 40) / 5 * 5));
            out.case(world::show_history_case(false, 1_000_000, &all).replacen("(history ", "(crash ", 1),
                     crate::sexp::paren(&["crash".to_string(), crate::sexp::list(states)]), true);
        }

        for (k, (disk, what)) in snaps.iter().enumerate()
        {
            total_snapshots += 1;
            out.count(&format!("crash-point:{}", what.split(' ').next().unwrap_or("?")));
            let replay = replay_json("crash", &prep, &op, k, what, chunk);

            // C07 at this instant
            for (p, node) in disk.files.iter()
            {
                if let Some(name) = p.strip_prefix(&cache_prefix())
                {
                    if name != cache_name_of(&node.content)
                    {
                        out.violation("C07:cache-entry-misnamed-at-crash-point", format!("killed before `{}`: cache entry {} holds content whose hash is {}", what, name, cache_name_of(&node.content)), replay.clone());
                        break;
                    }
                }
            }
            // C08 at this instant (not in the middle of a command: what a command has truncated is the command's doing)
            if !what.starts_with("cmd-")
            {
                let now = contents_at_risk(disk, &targets);
                if let Some(c) = before_risk.iter().find(|c| !now.contains(*c))
                {
                    out.violation("C08:content-lost-at-crash-point", format!("killed before `{}`: content {:?} that existed before the invocation is nowhere on disk", what, String::from_utf8_lossy(c)), replay.clone());
                }
            }

            // the next build must recover
            let clock = victim.sys.with(|s| s.clock) + 5000;
            let d = Driver{sys : MemSys::from_disk(disk.clone(), ClockMode::Fine, clock), record_snapshots : false};
            let mut tr = Tracker::new("crash", true);
            tr.scenario = Some(sc.clone());
            tr.ever_targets = targets.clone();
            let next = Op::Build(None);
            let rec = d.invoke(&next, Policy::Serial);
            let mut all = prep.clone();
            all.push(op.clone());
            all.push(next.clone());
            let nviol = out.violations.len();
            monitor_invocation(out, &mut tr, &rec, &next, false, 1_000_000, &all);
            for v in out.violations[nviol..].iter_mut()
            {
                v.message = format!("after being killed before `{}`: {}", what, v.message);
                v.replay = replay.clone();
            }
            // a second way on from the same crash state: the user first goes back to the other version of the source
            // (whose outputs the killed build was just displacing), then builds: what the table still remembers
            // about the displaced files must not be applied to the recovered ones
            if let Some((leaf, content)) = &reedit
            {
                let d2 = Driver{sys : MemSys::from_disk(disk.clone(), ClockMode::Fine, clock), record_snapshots : false};
                let mut tr2 = Tracker::new("crash", true);
                tr2.scenario = Some(sc.clone());
                tr2.ever_targets = targets.clone();
                let edit = Op::Write(leaf.clone(), content.clone());
                d2.user(&edit); d2.tick();
                let rec2 = d2.invoke(&next, Policy::Serial);
                let mut all2 = prep.clone();
                all2.push(op.clone()); all2.push(edit.clone()); all2.push(next.clone());
                let nviol2 = out.violations.len();
                monitor_invocation(out, &mut tr2, &rec2, &next, false, 1_000_000, &all2);
                for v in out.violations[nviol2..].iter_mut()
                {
                    v.message = format!("after being killed before `{}`, then {}: {}", what, edit.describe(), v.message);
                    let mut rj = replay.clone();
                    rj.set("then", Json::s(&edit.describe()));
                    v.replay = rj;
                }
                out.count("recovery:after-re-edit");
            }
            match &rec.verdict
            {
                Verdict::Fatal(f) if f == "Table" || f == "History" =>
                {
                    out.violation("C11:wedged-by-half-written-state-file", format!("killed before `{}`: every later build fails with {} (the state file was left truncated or half written)", what, rec.verdict.show()), replay.clone());
                },
                Verdict::Ok => { out.count("recovery:ok"); },
                other =>
                {
                    // from scratch this graph builds (Plain flavor, all sources present): anything but success is a failure to recover
                    let files = disk_files(disk);
                    let all_built = from_scratch(&sc, &files).map(|v| v.iter().all(|o| matches!(o, RuleOutcome::Built(_)))).unwrap_or(false);
                    if all_built
                    {
                        out.violation("C11:next-build-does-not-recover", format!("killed before `{}`: the next build gives {} although a from-scratch build succeeds", what, other.show()), replay.clone());
                    }
                },
            }
        }
        // the whole scenario is one correspondence case: prior history + the (uninterrupted) invocation
        let mut all = prep.clone();
        all.push(op.clone());
        let (obs, _) = crate::suites::hist::run_fixed(out, "crash", false, 1_000_000, &all, true, &Policy::Serial, false);
        out.case(world::show_history_case(false, 1_000_000, &all), crate::sexp::list(obs), true);
    }
    out.extra.set("crash_points", Json::i(total_snapshots));
}


/// run a list of operations from a given disk state (a crash snapshot), optionally erasing the file-state table
/// before every build; returns (verdict, workspace files) after every build, and reports C07 at every quiescent point
fn continue_from(out : &mut Out, disk : &Disk, mode : ClockMode, clock : u64, ops : &[Op], erase_table : bool, replay : &Json, c07 : bool) -> Vec<(String, BTreeMap<String, Vec<u8>>)>
{
    let d = Driver{sys : MemSys::from_disk(disk.clone(), mode, clock), record_snapshots : false};
    let mut res = vec![];
    for op in ops
    {
        match op
        {
            Op::Build(_) | Op::Clean(_) =>
            {
                if erase_table && matches!(op, Op::Build(_)) { d.user(&Op::RmTable); d.tick(); }
                let inv = d.invoke(op, Policy::Serial);
                d.tick();
                if c07
                {
                    for (p, node) in inv.after.files.iter()
                    {
                        if let Some(name) = p.strip_prefix(&cache_prefix())
                        {
                            if name != cache_name_of(&node.content)
                            {
                                let tbl = inv.before.files.get(&world::table_path()).and_then(|n| world::bincode_table(&n.content)).unwrap_or(vec![]);
                                let tbl_s : Vec<String> = tbl.iter().map(|(k, st)| format!("{}=({}..,{},{})", String::from_utf8_lossy(k), crate::suites::hist::cache_name_of_ticket(&st.0), st.1, st.2)).collect();
                                let files_s : Vec<String> = inv.before.files.iter().filter(|(p, _)| !in_ruler_dir(p) || p.starts_with(&cache_prefix())).map(|(p, n)| format!("{}=({:?},{})", p.replace(".ruler/cache/", "cache/").chars().take(14).collect::<String>(), String::from_utf8_lossy(&n.content), n.mtime)).collect();
                                out.violation("C07:cache-entry-misnamed-after-crash-coarse-clock", format!("after the crash and {}: cache entry {} (mtime {}) holds content {:?} whose hash is {}; before that invocation: table [{}] files [{}]", op.describe(), &name[..8], node.mtime, String::from_utf8_lossy(&node.content), &cache_name_of(&node.content)[..8], tbl_s.join(" "), files_s.join(" ")), replay.clone());
                                break;
                            }
                        }
                    }
                }
                if c07
                {
                    // C08 after the crash: what was at a target path or in the cache before this invocation is still somewhere
                    let at_risk = |disk : &Disk| -> BTreeSet<Vec<u8>> { disk.files.iter().filter(|(p, _)| p.starts_with(&cache_prefix()) || (!in_ruler_dir(p) && !["a", "b", "u", RULES_PATH].contains(&p.as_str()))).map(|(_, n)| (*n.content).clone()).collect() };
                    let before = at_risk(&inv.before);
                    let after = at_risk(&inv.after);
                    if let Some(lost) = before.iter().find(|c| !after.contains(*c))
                    {
                        out.violation("C08:content-lost-after-crash-coarse-clock", format!("after the crash and {}: the content {:?} was at a target path or in the cache before that invocation and is nowhere after it", op.describe(), String::from_utf8_lossy(lost)), replay.clone());
                    }
                }
                if let Op::Build(_) = op { res.push((inv.verdict.show(), disk_files(&inv.after))); }
            },
            _ => { d.user(op); d.tick(); },
        }
    }
    res
}

fn f6_history() -> Vec<Op>
{
    let w = |p : &str, c : &str| Op::Write(p.to_string(), c.as_bytes().to_vec());
    let rules = "t1\nt2\n:\na\nb\n:\ngen t1 @a\n;\ngen t2 @b\n:\n\ntop\n:\nt1\nt2\n:\ngen top @t1 =+ @t2\n:\n";
    let rules_bad = format!("{}\nbad\n:\na\n:\nfail\n:\n", rules);
    vec![w(RULES_PATH, rules), w("a", "1"), w("b", "2"), Op::Build(None),
         w("a", "2"), w("b", "1"), Op::Build(None),
         w("a", "1"), w("b", "2"), w(RULES_PATH, &rules_bad), Op::Build(None),
         w("a", "2"), w("b", "1"), Op::Clean(Some("t1".to_string())), Op::Build(None),
         w("a", "1"), w("b", "2"), w(RULES_PATH, rules), Op::Clean(None), Op::Build(None)]
}

/// C11 x C18: a kill under the COARSE clock (files written by one invocation share a modification time). The prior
/// history exchanges and restores leaf values (hist::swap_ops), so that files with equal times and different
/// contents travel through the cache; one of its builds is the victim; from every crash point the rest of the
/// history is run twice — as is, and with the file-state table erased before every build — and both must give the
/// same verdicts and workspace (the recovered state must not poison the shortcut), with the cache content-addressed.
pub fn crashes_coarse(ctx : &Ctx, out : &mut Out)
{
    let mut rng = Rng::new(ctx.seed).fork(1118);
    let n = if ctx.thorough { 400 } else { 20 };
    let mut total = 0usize;
    for i in 0..n + 1
    {
        let mut r = rng.fork(i as u64);
        // the first scenario is the history on which defect F6 was found (fixed): a two-target rule, the two leaves
        // exchanged and put back, a failing rule added; the third build is the victim
        let ops = if i == 0 { f6_history() } else { crate::suites::hist::swap_ops(&mut r) };
        let builds : Vec<usize> = ops.iter().enumerate().filter(|(k, o)| *k >= 4 && matches!(o, Op::Build(_))).map(|(k, _)| k).collect();
        if builds.is_empty() { continue; }
        let k = if i == 0 { 10 } else { *r.pick(&builds) };
        let (prep, rest) = ops.split_at(k);
        let victim_op = rest[0].clone();
        let cont : Vec<Op> = { let mut c = vec![Op::Build(None)]; c.extend(rest[1..].iter().cloned()); c };
        let driver = Driver::new(ClockMode::Coarse, 1_000_000);
        for op in prep { match op { Op::Build(_) | Op::Clean(_) => { driver.invoke(op, Policy::Serial); driver.tick(); }, _ => { driver.user(op); driver.tick(); } } }
        let mut victim = driver.fork();
        victim.record_snapshots = true;
        let inv = victim.invoke(&victim_op, Policy::Serial);
        let clock = victim.sys.with(|s| s.clock) + 5000;
        let mut snaps : Vec<(Disk, String)> = inv.snapshots.clone();
        snaps.push((inv.after.clone(), "end".to_string()));
        out.count("coarse-victims");
        for (j, (disk, what)) in snaps.iter().enumerate()
        {
            total += 1;
            let mut replay = replay_json("crash_coarse", prep, &victim_op, j, what, 0);
            replay.set("clock", Json::s("coarse"));
            replay.set("case", Json::s(&world::show_history_case(true, 1_000_000, &ops[..k + 1])));
            replay.set("then", Json::Arr(cont.iter().map(|o| Json::s(&o.describe())).collect()));
            let nv = out.violations.len();
            let a = continue_from(out, disk, ClockMode::Coarse, clock, &cont, false, &replay, true);
            let b = continue_from(out, disk, ClockMode::Coarse, clock, &cont, true, &replay, false);
            let _ = nv;
            if a != b
            {
                let idx = a.iter().zip(b.iter()).position(|(x, y)| x != y).unwrap_or(0);
                out.violation("C11:crash-poisons-shortcut-coarse-clock", format!("killed before `{}` under the coarse clock: build #{} of the continuation gives {} with the saved table and {} with the table erased (or different files)", what, idx, a.get(idx).map(|x| x.0.clone()).unwrap_or_default(), b.get(idx).map(|x| x.0.clone()).unwrap_or_default()), replay.clone());
            }
        }
    }
    out.extra.set("crash_points_coarse", Json::i(total));
}
