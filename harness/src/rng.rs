//! One PRNG (splitmix64) from which every random choice of a run is derived.
#[derive(Clone, Debug)]
pub struct Rng { state : u64 }

impl Rng
{
    pub fn new(seed : u64) -> Rng { Rng{state : seed ^ 0x5DEECE66D} }

    /// independent stream derived from this one and a label
    pub fn fork(&self, label : u64) -> Rng
    {
        let mut r = Rng{state : self.state ^ label.wrapping_mul(0x9E3779B97F4A7C15)};
        r.next_u64();
        r
    }

    pub fn next_u64(&mut self) -> u64
    {
        self.state = self.state.wrapping_add(0x9E3779B97F4A7C15);
        let mut z = self.state;
        z = (z ^ (z >> 30)).wrapping_mul(0xBF58476D1CE4E5B9);
        z = (z ^ (z >> 27)).wrapping_mul(0x94D049BB133111EB);
        z ^ (z >> 31)
    }

    pub fn below(&mut self, n : usize) -> usize
    {
        if n == 0 { 0 } else { (self.next_u64() % (n as u64)) as usize }
    }

    pub fn range(&mut self, lo : usize, hi_inclusive : usize) -> usize
    {
        lo + self.below(hi_inclusive - lo + 1)
    }

    pub fn chance(&mut self, num : usize, den : usize) -> bool
    {
        self.below(den) < num
    }

    pub fn pick<'a, T>(&mut self, items : &'a [T]) -> &'a T
    {
        &items[self.below(items.len())]
    }

    pub fn bytes(&mut self, len : usize) -> Vec<u8>
    {
        (0..len).map(|_| (self.next_u64() & 0xff) as u8).collect()
    }

    pub fn bytes_below(&mut self, max : usize) -> Vec<u8> { let n = self.below(max); self.bytes(n) }
    pub fn bytes_range(&mut self, lo : usize, hi : usize) -> Vec<u8> { let n = self.range(lo, hi); self.bytes(n) }

    pub fn shuffle<T>(&mut self, items : &mut Vec<T>)
    {
        for i in (1..items.len()).rev()
        {
            let j = self.below(i + 1);
            items.swap(i, j);
        }
    }
}
