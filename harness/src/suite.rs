//! What a suite produces: model cases, the implementation's answers, monitor verdicts, statistics.
use crate::json::{Json, bump};
use std::collections::{BTreeMap, BTreeSet};
use std::io::Write;

pub struct Ctx
{
    pub seed : u64,
    pub thorough : bool,
    pub out_dir : String,
    pub replay : Option<String>,
}

pub struct Violation
{
    /// short stable description of the class of failure (matched against known_findings.json)
    pub signature : String,
    /// everything needed to replay: the concrete case
    pub replay : Json,
    pub message : String,
}

pub struct Out
{
    pub cases : Vec<String>,
    pub impls : Vec<String>,
    pub violations : Vec<Violation>,
    pub counts : BTreeMap<String, usize>,
    pub distinct : BTreeSet<u64>,
    pub nontrivial : usize,
    pub samples : Vec<Json>,
    pub extra : Json,
    /// evaluations that are not model cases (self-tests)
    pub extra_evaluations : usize,
}

fn fnv(s : &str) -> u64
{
    let mut h : u64 = 0xcbf29ce484222325;
    for b in s.as_bytes() { h ^= *b as u64; h = h.wrapping_mul(0x100000001b3); }
    h
}

impl Out
{
    pub fn new() -> Out
    {
        Out
        {
            cases : vec![], impls : vec![], violations : vec![], counts : BTreeMap::new(),
            distinct : BTreeSet::new(), nontrivial : 0, samples : vec![], extra : Json::obj(), extra_evaluations : 0,
        }
    }

    /// One correspondence case: the model input, what the implementation answered, and whether the
    /// case is non-trivial by the suite's rule. Distinctness is by hash of the model input.
    pub fn case(&mut self, model_input : String, impl_output : String, nontrivial : bool)
    {
        if self.distinct.insert(fnv(&model_input)) && nontrivial
        {
            self.nontrivial += 1;
        }
        if self.samples.len() < 6 && (self.cases.len() % 97 == 0 || self.samples.len() < 2)
        {
            let mut s = Json::obj();
            let clip = |t : &str| if t.len() > 400 { format!("{}…", &t[..400]) } else { t.to_string() };
            s.set("case", Json::s(&clip(&model_input)));
            s.set("impl", Json::s(&clip(&impl_output)));
            self.samples.push(s);
        }
        self.cases.push(model_input);
        self.impls.push(impl_output);
    }

    pub fn count(&mut self, key : &str) { bump(&mut self.counts, key); }

    pub fn violation(&mut self, signature : &str, message : String, replay : Json)
    {
        self.violations.push(Violation{signature : signature.to_string(), replay : replay, message : message});
    }

    pub fn write(&self, dir : &str, name : &str) -> std::io::Result<()>
    {
        std::fs::create_dir_all(dir)?;
        let mut f = std::io::BufWriter::new(std::fs::File::create(format!("{}/{}.cases", dir, name))?);
        for c in &self.cases { writeln!(f, "{}", c)?; }
        f.flush()?;
        let mut f = std::io::BufWriter::new(std::fs::File::create(format!("{}/{}.impl", dir, name))?);
        for c in &self.impls { writeln!(f, "{}", c)?; }
        f.flush()?;
        let mut j = Json::obj();
        j.set("suite", Json::s(name));
        j.set("evaluations", Json::i(self.cases.len() + self.extra_evaluations));
        j.set("distinct", Json::i(self.distinct.len()));
        j.set("distinct_nontrivial", Json::i(self.nontrivial));
        j.set("counts", Json::counts(&self.counts));
        j.set("samples", Json::Arr(self.samples.clone()));
        j.set("extra", self.extra.clone());
        j.set("violations", Json::Arr(self.violations.iter().map(|v|
        {
            let mut o = Json::obj();
            o.set("signature", Json::s(&v.signature));
            o.set("message", Json::s(&v.message));
            o.set("replay", v.replay.clone());
            o
        }).collect()));
        std::fs::write(format!("{}/{}.stats.json", dir, name), j.render())?;
        Ok(())
    }
}


/// Record the input that is about to be fed to code under test which might abort the whole process (allocation
/// failure, stack overflow): if the harness dies, the check driver reads this file and reports the input as the
/// failing one. Cleared by `clear_in_flight` after the call returned.
pub fn in_flight(ctx_dir : &str, suite : &str, what : &str, input : &[u8])
{
    let path = format!("{}/{}.inflight", ctx_dir, suite);
    let _ = std::fs::create_dir_all(ctx_dir);
    let _ = std::fs::write(&path, format!("{}\n{}\n", what, crate::sexp::hex(input)));
}
pub fn clear_in_flight(ctx_dir : &str, suite : &str)
{
    let _ = std::fs::remove_file(format!("{}/{}.inflight", ctx_dir, suite));
}
