//! MemSys: an instrumented in-memory implementation of ruler's `System` trait.
//!
//! * two clock models: Fine (every file creation / write gets a fresh, strictly larger mtime) and
//!   Coarse (mtime = a clock that only the harness advances, one tick per user action or ruler
//!   invocation — the model of the project's own FakeSystem);
//! * a log of every call (with the scheduler task that made it), a mutation counter and, when asked,
//!   a snapshot of the whole disk before every mutation (crash enumeration);
//! * torn writes: `write` may accept only a prefix, so that write_all becomes several mutations;
//! * a tiny command language executed in-process (see `run_script_line`);
//! * a scheduler yield before every call, so that any interleaving of calls can be explored.
//!
//! Semantics follow RealSystem (rename replaces a file, rename into a missing directory fails,
//! mtime and the exec bit move with a renamed file, create_file needs its parent directory);
//! `selftest` compares MemSys with RealSystem on random operation sequences.

use crate::system::{CommandLineOutput, CommandScript, System, SystemError};
use crate::verif_sched;
use std::collections::{BTreeMap, BTreeSet};
use std::fmt;
use std::io;
use std::sync::{Arc, Mutex};
use std::time::{Duration, SystemTime};

#[derive(Clone, Debug, PartialEq)]
pub struct FileNode
{
    pub content : Arc<Vec<u8>>,
    pub mtime : u64,
    pub exec : bool,
}

#[derive(Clone, Copy, Debug, PartialEq)]
pub enum ClockMode
{
    Fine,
    Coarse,
}

#[derive(Clone, Debug, PartialEq)]
pub struct Disk
{
    pub files : BTreeMap<String, FileNode>,
    pub dirs : BTreeMap<String, u64>,
}

#[derive(Clone, Debug, PartialEq)]
pub struct Call
{
    pub task : Option<usize>,
    pub op : &'static str,
    pub path : String,
    pub path2 : String,
    pub ok : bool,
    pub mutating : bool,
    pub in_command : bool,
    /// for a rename: 0 = destination absent, 1 = destination held identical content, 2 = different content
    pub dest_state : u8,
}

/// 0: every `read` returns as much as fits; k > 0: file systems created from now on hand out at most k bytes per `read`
/// (short reads before the end of a file are legal: network and FUSE file systems, interrupted reads)
pub static DEFAULT_READ_CHUNK : std::sync::atomic::AtomicUsize = std::sync::atomic::AtomicUsize::new(0);

pub fn set_default_read_chunk(k : usize) { DEFAULT_READ_CHUNK.store(k, std::sync::atomic::Ordering::SeqCst); }

pub struct FsState
{
    pub disk : Disk,
    pub clock : u64,
    pub mode : ClockMode,
    pub calls : Vec<Call>,
    pub log_calls : bool,
    pub mutations : usize,
    /// when Some: disk image taken *before* each mutation, with the description of that mutation
    pub snapshots : Option<Vec<(Disk, String)>>,
    /// Some(k): a single `write` call accepts at most k bytes
    pub write_chunk : Option<usize>,
    /// Some(k): a single `read` call returns at most k bytes
    pub read_chunk : Option<usize>,
    /// every command script line executed: (task, line)
    pub commands : Vec<(Option<usize>, String)>,
    pub in_command : bool,
    /// when Some: at the start of every execute_command, (index into `calls`, script lines, all files outside
    /// the ruler directory at that instant)
    pub exec_snapshots : Option<Vec<(usize, Vec<String>, BTreeMap<String, Vec<u8>>)>>,
    /// yield to the scheduler before every System call (default: only calls on the cache directory and commands)
    pub yield_all : bool,
    /// Some((p, q)): right after the next `is_file(p)` that answers true, the file is renamed to q — what a
    /// build running beside the caller does when it restores p from the cache (one shot)
    pub race : Option<(String, String)>,
}

#[derive(Clone)]
pub struct MemSys
{
    pub state : Arc<Mutex<FsState>>,
}

fn parent_of(path : &str) -> &str
{
    match path.rfind('/')
    {
        Some(i) => &path[..i],
        None => "",
    }
}

impl Disk
{
    pub fn new() -> Disk
    {
        let mut dirs = BTreeMap::new();
        dirs.insert("".to_string(), 0);
        // one workspace directory exists on every fresh disk, so that generated rules can have targets inside a
        // directory (`dir/x`); the model's path map is flat and needs no counterpart
        dirs.insert("dir".to_string(), 0);
        Disk{files : BTreeMap::new(), dirs : dirs}
    }

    pub fn is_dir(&self, path : &str) -> bool { self.dirs.contains_key(path) }
    pub fn is_file(&self, path : &str) -> bool { self.files.contains_key(path) }
}

impl FsState
{
    fn stamp(&mut self) -> u64
    {
        match self.mode
        {
            ClockMode::Fine => { self.clock += 1; self.clock },
            ClockMode::Coarse => self.clock,
        }
    }

    fn before_mutation(&mut self, what : String)
    {
        self.mutations += 1;
        if let Some(snaps) = &mut self.snapshots
        {
            snaps.push((self.disk.clone(), what));
        }
    }

    fn record(&mut self, op : &'static str, path : &str, path2 : &str, ok : bool, mutating : bool)
    {
        if self.log_calls
        {
            self.calls.push(Call
            {
                task : verif_sched::current_task(),
                op : op,
                path : path.to_string(),
                path2 : path2.to_string(),
                ok : ok,
                mutating : mutating,
                in_command : self.in_command,
                dest_state : 0,
            });
        }
    }

    // ---- primitive operations shared by the System impl, the command language and the harness ----

    pub fn write_whole(&mut self, path : &str, content : &[u8]) -> Result<(), SystemError>
    {
        if self.disk.is_dir(path) { return Err(SystemError::Weird); }
        if !self.disk.is_dir(parent_of(path)) { return Err(SystemError::NotFound); }
        let stamp = self.stamp();
        let exec = match self.disk.files.get(path) { Some(node) => node.exec, None => false };
        self.disk.files.insert(path.to_string(), FileNode{content : Arc::new(content.to_vec()), mtime : stamp, exec : exec});
        Ok(())
    }

    pub fn remove(&mut self, path : &str) -> bool
    {
        self.disk.files.remove(path).is_some()
    }

    pub fn remove_tree(&mut self, path : &str)
    {
        let prefix = format!("{}/", path);
        let files : Vec<String> = self.disk.files.keys().filter(|p| p.starts_with(&prefix) || *p == path).cloned().collect();
        for p in files { self.disk.files.remove(&p); }
        let dirs : Vec<String> = self.disk.dirs.keys().filter(|p| p.starts_with(&prefix) || *p == path).cloned().collect();
        for p in dirs { self.disk.dirs.remove(&p); }
    }

    pub fn rename(&mut self, from : &str, to : &str) -> Result<(), SystemError>
    {
        if self.disk.is_file(from)
        {
            if self.disk.is_dir(to) { return Err(SystemError::Weird); }
            if !self.disk.is_dir(parent_of(to)) { return Err(SystemError::NotFound); }
            let node = self.disk.files.remove(from).unwrap();
            self.disk.files.insert(to.to_string(), node);
            Ok(())
        }
        else if self.disk.is_dir(from) && from != ""
        {
            if self.disk.is_file(to) { return Err(SystemError::Weird); }
            if !self.disk.is_dir(parent_of(to)) { return Err(SystemError::NotFound); }
            let prefix = format!("{}/", from);
            if self.disk.is_dir(to)
            {
                let to_prefix = format!("{}/", to);
                let nonempty = self.disk.files.keys().any(|p| p.starts_with(&to_prefix))
                    || self.disk.dirs.keys().any(|p| p.starts_with(&to_prefix));
                if nonempty { return Err(SystemError::Weird); }
            }
            let files : Vec<String> = self.disk.files.keys().filter(|p| p.starts_with(&prefix)).cloned().collect();
            for p in files
            {
                let node = self.disk.files.remove(&p).unwrap();
                self.disk.files.insert(format!("{}/{}", to, &p[prefix.len()..]), node);
            }
            let dirs : Vec<String> = self.disk.dirs.keys().filter(|p| p.starts_with(&prefix)).cloned().collect();
            for p in dirs
            {
                let t = self.disk.dirs.remove(&p).unwrap();
                self.disk.dirs.insert(format!("{}/{}", to, &p[prefix.len()..]), t);
            }
            let t = self.disk.dirs.remove(from).unwrap();
            self.disk.dirs.insert(to.to_string(), t);
            Ok(())
        }
        else
        {
            Err(SystemError::NotFound)
        }
    }
}

/// Scheduler yield before a System call. Only calls that touch state shared between rule threads — the
/// cache directory — and command executions are schedule-relevant: everything else a rule thread does
/// concerns its own targets, or sources whose producer it has already heard from. With `yield_all`
/// every call yields (a much larger schedule space, used for part of the thorough tier).
fn sched_yield(state : &Arc<Mutex<FsState>>, path : &str, path2 : &str)
{
    let all = state.lock().unwrap().yield_all;
    if all || path.contains("/cache") || path2.contains("/cache")
    {
        verif_sched::yield_point();
    }
}

pub struct MemFile
{
    state : Arc<Mutex<FsState>>,
    path : String,
    /// Some: reading from this snapshot at this position
    reading : Option<(Arc<Vec<u8>>, usize)>,
    read_chunk : Option<usize>,
}

impl fmt::Debug for MemFile
{
    fn fmt(&self, f : &mut fmt::Formatter) -> fmt::Result { write!(f, "MemFile({})", self.path) }
}

impl io::Read for MemFile
{
    fn read(&mut self, buf : &mut [u8]) -> io::Result<usize>
    {
        match &mut self.reading
        {
            Some((data, pos)) =>
            {
                let mut n = std::cmp::min(buf.len(), data.len() - *pos);
                if let Some(k) = self.read_chunk { n = std::cmp::min(n, std::cmp::max(k, 1)); }
                buf[..n].copy_from_slice(&data[*pos..*pos + n]);
                *pos += n;
                Ok(n)
            },
            None => Err(io::Error::new(io::ErrorKind::Other, "file not open for reading")),
        }
    }
}

impl io::Write for MemFile
{
    fn write(&mut self, buf : &[u8]) -> io::Result<usize>
    {
        if self.reading.is_some()
        {
            return Err(io::Error::new(io::ErrorKind::Other, "file not open for writing"));
        }
        sched_yield(&self.state, &self.path, "");
        let mut g = self.state.lock().unwrap();
        let n = match g.write_chunk { Some(k) => std::cmp::min(std::cmp::max(k, 1), buf.len()), None => buf.len() };
        if n == 0 { return Ok(0); }
        g.before_mutation(format!("write {} +{}", self.path, n));
        let stamp = g.stamp();
        let ok =
        match g.disk.files.get_mut(&self.path)
        {
            Some(node) =>
            {
                let mut data = (*node.content).clone();
                data.extend_from_slice(&buf[..n]);
                node.content = Arc::new(data);
                node.mtime = stamp;
                true
            },
            None => false,
        };
        let path = self.path.clone();
        g.record("write", &path, "", ok, true);
        if ok { Ok(n) } else { Err(io::Error::new(io::ErrorKind::NotFound, "file vanished")) }
    }

    fn flush(&mut self) -> io::Result<()> { Ok(()) }
}

impl MemSys
{
    pub fn new(mode : ClockMode, t0 : u64) -> MemSys
    {
        MemSys
        {
            state : Arc::new(Mutex::new(FsState
            {
                disk : Disk::new(),
                clock : t0,
                mode : mode,
                calls : vec![],
                log_calls : false,
                mutations : 0,
                snapshots : None,
                write_chunk : None,
                read_chunk : match DEFAULT_READ_CHUNK.load(std::sync::atomic::Ordering::SeqCst) { 0 => None, k => Some(k) },
                commands : vec![],
                in_command : false,
                exec_snapshots : None,
                yield_all : false,
                race : None,
            })),
        }
    }

    pub fn from_disk(disk : Disk, mode : ClockMode, clock : u64) -> MemSys
    {
        let sys = MemSys::new(mode, clock);
        sys.state.lock().unwrap().disk = disk;
        sys
    }

    pub fn with<R>(&self, f : impl FnOnce(&mut FsState) -> R) -> R
    {
        let mut g = self.state.lock().unwrap();
        f(&mut g)
    }

    /// one tick of the coarse clock (also moves the fine clock forward)
    pub fn tick(&self)
    {
        self.with(|s| s.clock += 1000);
    }

    pub fn read(&self, path : &str) -> Option<Vec<u8>>
    {
        self.with(|s| s.disk.files.get(path).map(|n| (*n.content).clone()))
    }

    pub fn disk(&self) -> Disk
    {
        self.with(|s| s.disk.clone())
    }

    /// user action: write a file (creating parent directories)
    pub fn user_write(&self, path : &str, content : &[u8])
    {
        self.with(|s|
        {
            let mut prefix = String::new();
            let parts : Vec<&str> = path.split('/').collect();
            for part in &parts[..parts.len() - 1]
            {
                if !prefix.is_empty() { prefix.push('/'); }
                prefix.push_str(part);
                if !s.disk.is_dir(&prefix)
                {
                    let c = s.clock;
                    s.disk.dirs.insert(prefix.clone(), c);
                }
            }
            s.write_whole(path, content).unwrap();
        });
    }

    pub fn user_remove(&self, path : &str) -> bool
    {
        self.with(|s| s.remove(path))
    }

    pub fn user_remove_tree(&self, path : &str)
    {
        self.with(|s| s.remove_tree(path));
    }

    /// mv by the user: the node itself (content, modification time, permission) moves; the destination is replaced
    pub fn user_move(&self, from : &str, to : &str)
    {
        self.with(|s| { if from != to { if let Some(n) = s.disk.files.remove(from) { s.disk.files.insert(to.to_string(), n); } } });
    }

    /// arm the one-shot race of `FsState::race`
    pub fn set_race(&self, from : &str, to : &str)
    {
        self.with(|s| { s.race = Some((from.to_string(), to.to_string())); });
    }

    pub fn user_set_exec(&self, path : &str, exec : bool)
    {
        self.with(|s| { if let Some(n) = s.disk.files.get_mut(path) { n.exec = exec; } });
    }
}

/// The command language. One script line = one operation, tokens separated by single spaces:
///   gen OUT PIECE...   write OUT = concatenation of pieces; a piece is `@path` (content of that
///                      file; the line fails with code 1 and writes nothing if it is missing) or
///                      `=text` (literal text, `%20` for a space, `%0A` newline, `%25` percent)
///   fail               exit code 1, no effect
///   chmod OUT          set the executable bit of OUT
///   rm PATH            remove PATH if present
///   true               no effect
/// anything else        exit code 127
pub fn run_script_line(state : &mut FsState, line : &str) -> CommandLineOutput
{
    let ok = CommandLineOutput{out : "".to_string(), err : "".to_string(), code : Some(0), success : true};
    let fail = |code : i32| CommandLineOutput{out : "".to_string(), err : "".to_string(), code : Some(code), success : false};
    let tokens : Vec<&str> = line.split(' ').filter(|t| !t.is_empty()).collect();
    if tokens.is_empty() { return ok; }
    match tokens[0]
    {
        "true" => ok,
        "fail" => fail(1),
        "gen" =>
        {
            if tokens.len() < 2 { return fail(2); }
            let mut data : Vec<u8> = vec![];
            for piece in &tokens[2..]
            {
                if let Some(path) = piece.strip_prefix('@')
                {
                    match state.disk.files.get(path)
                    {
                        Some(node) => data.extend_from_slice(&node.content),
                        None => return fail(1),
                    }
                }
                else if let Some(text) = piece.strip_prefix('=')
                {
                    data.extend_from_slice(&unescape(text));
                }
                else
                {
                    return fail(2);
                }
            }
            state.before_mutation(format!("cmd-create {}", tokens[1]));
            if state.write_whole(tokens[1], &[]).is_err() { return fail(1); }
            state.record("cmd-create", tokens[1], "", true, true);
            // the content arrives in pieces when torn writes are on, so a crash can see a prefix
            let chunk = match state.write_chunk { Some(k) => std::cmp::max(k, 1), None => std::cmp::max(data.len(), 1) };
            let mut pos = 0;
            while pos < data.len()
            {
                let n = std::cmp::min(chunk, data.len() - pos);
                state.before_mutation(format!("cmd-write {} +{}", tokens[1], n));
                let stamp = state.stamp();
                let node = state.disk.files.get_mut(tokens[1]).unwrap();
                let mut d = (*node.content).clone();
                d.extend_from_slice(&data[pos..pos + n]);
                node.content = Arc::new(d);
                node.mtime = stamp;
                pos += n;
                state.record("cmd-write", tokens[1], "", true, true);
            }
            ok
        },
        "chmod" =>
        {
            if tokens.len() != 2 { return fail(2); }
            state.before_mutation(format!("cmd-chmod {}", tokens[1]));
            let r = match state.disk.files.get_mut(tokens[1]) { Some(node) => { node.exec = true; true }, None => false };
            state.record("cmd-chmod", tokens[1], "", r, true);
            if r { ok } else { fail(1) }
        },
        "rm" =>
        {
            if tokens.len() != 2 { return fail(2); }
            state.before_mutation(format!("cmd-rm {}", tokens[1]));
            state.remove(tokens[1]);
            state.record("cmd-rm", tokens[1], "", true, true);
            ok
        },
        _ => fail(127),
    }
}

pub fn unescape(text : &str) -> Vec<u8>
{
    let b = text.as_bytes();
    let mut out = vec![];
    let mut i = 0;
    while i < b.len()
    {
        if b[i] == b'%' && i + 2 < b.len()
        {
            let h = |c : u8| -> Option<u8> { match c { b'0'..=b'9' => Some(c - 48), b'A'..=b'F' => Some(c - 55), b'a'..=b'f' => Some(c - 87), _ => None } };
            if let (Some(x), Some(y)) = (h(b[i + 1]), h(b[i + 2]))
            {
                out.push(x * 16 + y);
                i += 3;
                continue;
            }
        }
        out.push(b[i]);
        i += 1;
    }
    out
}

impl System for MemSys
{
    type File = MemFile;

    fn open(&self, path : &str) -> Result<Self::File, SystemError>
    {
        sched_yield(&self.state, path, "");
        let mut g = self.state.lock().unwrap();
        let r =
        match g.disk.files.get(path)
        {
            Some(node) => Ok(MemFile{state : self.state.clone(), path : path.to_string(), reading : Some((node.content.clone(), 0)), read_chunk : g.read_chunk}),
            None => if g.disk.is_dir(path) { Err(SystemError::Weird) } else { Err(SystemError::NotFound) },
        };
        g.record("open", path, "", r.is_ok(), false);
        r
    }

    fn create_file(&mut self, path : &str) -> Result<Self::File, SystemError>
    {
        sched_yield(&self.state, path, "");
        let mut g = self.state.lock().unwrap();
        g.before_mutation(format!("create_file {}", path));
        let r = g.write_whole(path, &[]);
        g.record("create_file", path, "", r.is_ok(), true);
        match r
        {
            Ok(()) => Ok(MemFile{state : self.state.clone(), path : path.to_string(), reading : None, read_chunk : None}),
            Err(e) => Err(e),
        }
    }

    fn create_dir(&mut self, path : &str) -> Result<(), SystemError>
    {
        sched_yield(&self.state, path, "");
        let mut g = self.state.lock().unwrap();
        g.before_mutation(format!("create_dir {}", path));
        let r =
        if g.disk.is_dir(path) || g.disk.is_file(path) { Err(SystemError::Weird) }
        else if !g.disk.is_dir(parent_of(path)) { Err(SystemError::NotFound) }
        else
        {
            let c = g.clock;
            g.disk.dirs.insert(path.to_string(), c);
            Ok(())
        };
        g.record("create_dir", path, "", r.is_ok(), true);
        r
    }

    fn is_dir(&self, path : &str) -> bool
    {
        sched_yield(&self.state, path, "");
        let mut g = self.state.lock().unwrap();
        let r = g.disk.is_dir(path);
        g.record("is_dir", path, "", r, false);
        r
    }

    fn is_file(&self, path : &str) -> bool
    {
        sched_yield(&self.state, path, "");
        let mut g = self.state.lock().unwrap();
        let r = g.disk.is_file(path);
        g.record("is_file", path, "", r, false);
        if r
        {
            if let Some((p, q)) = g.race.clone()
            {
                if p == path
                {
                    g.race = None;
                    if let Some(n) = g.disk.files.remove(&p) { g.disk.files.insert(q, n); }
                }
            }
        }
        r
    }

    fn list_dir(&self, path : &str) -> Result<Vec<String>, SystemError>
    {
        sched_yield(&self.state, path, "");
        let g = self.state.lock().unwrap();
        if !g.disk.is_dir(path)
        {
            return if g.disk.is_file(path) { Err(SystemError::ExpectedDirFoundFile) } else { Err(SystemError::NotFound) };
        }
        let prefix = if path.is_empty() { "".to_string() } else { format!("{}/", path) };
        let mut set = BTreeSet::new();
        for p in g.disk.files.keys().chain(g.disk.dirs.keys())
        {
            if p.starts_with(&prefix) && p.len() > prefix.len() && !p[prefix.len()..].contains('/')
            {
                set.insert(p.clone());
            }
        }
        Ok(set.into_iter().collect())
    }

    fn rename(&mut self, from : &str, to : &str) -> Result<(), SystemError>
    {
        sched_yield(&self.state, from, to);
        let mut g = self.state.lock().unwrap();
        g.before_mutation(format!("rename {} {}", from, to));
        let dest_state = match (g.disk.files.get(from), g.disk.files.get(to))
        {
            (_, None) => 0,
            (Some(a), Some(b)) => if a.content == b.content { 1 } else { 2 },
            (None, Some(_)) => 2,
        };
        let r = g.rename(from, to);
        g.record("rename", from, to, r.is_ok(), true);
        if g.log_calls { if let Some(last) = g.calls.last_mut() { last.dest_state = dest_state; } }
        r
    }

    fn get_modified(&self, path : &str) -> Result<SystemTime, SystemError>
    {
        sched_yield(&self.state, path, "");
        let mut g = self.state.lock().unwrap();
        let r =
        match g.disk.files.get(path)
        {
            Some(node) => Ok(SystemTime::UNIX_EPOCH + Duration::from_micros(node.mtime)),
            None => match g.disk.dirs.get(path)
            {
                Some(t) => Ok(SystemTime::UNIX_EPOCH + Duration::from_micros(*t)),
                None => Err(SystemError::MetadataNotFound),
            },
        };
        g.record("get_modified", path, "", r.is_ok(), false);
        r
    }

    fn is_executable(&self, path : &str) -> Result<bool, SystemError>
    {
        sched_yield(&self.state, path, "");
        let mut g = self.state.lock().unwrap();
        let r =
        match g.disk.files.get(path)
        {
            Some(node) => Ok(node.exec),
            None => if g.disk.is_dir(path) { Ok(true) } else { Err(SystemError::MetadataNotFound) },
        };
        g.record("is_executable", path, "", r.is_ok(), false);
        r
    }

    fn set_is_executable(&mut self, path : &str, executable : bool) -> Result<(), SystemError>
    {
        sched_yield(&self.state, path, "");
        let mut g = self.state.lock().unwrap();
        g.before_mutation(format!("set_is_executable {}", path));
        let r =
        match g.disk.files.get_mut(path)
        {
            Some(node) => { node.exec = executable; Ok(()) },
            None => Err(SystemError::MetadataNotFound),
        };
        g.record("set_is_executable", path, "", r.is_ok(), true);
        r
    }

    fn execute_command(&mut self, command_script : CommandScript) -> Vec<Result<CommandLineOutput, SystemError>>
    {
        verif_sched::yield_point();
        let task = verif_sched::current_task();
        verif_sched::log_event(format!("exec {}", command_script.lines.join(" ; ")));
        let mut g = self.state.lock().unwrap();
        g.record("execute_command", &command_script.lines.join(" ; "), "", true, false);
        if g.exec_snapshots.is_some()
        {
            let at = g.calls.len();
            let files : BTreeMap<String, Vec<u8>> = g.disk.files.iter().filter(|(p, _)| !(p.starts_with(".ruler/") || *p == ".ruler")).map(|(p, n)| (p.clone(), (*n.content).clone())).collect();
            let lines = command_script.lines.clone();
            if let Some(v) = &mut g.exec_snapshots { v.push((at, lines, files)); }
        }
        g.in_command = true;
        let mut result = vec![];
        for line in command_script.lines.iter()
        {
            g.commands.push((task, line.clone()));
            result.push(Ok(run_script_line(&mut g, line)));
        }
        g.in_command = false;
        result
    }
}
