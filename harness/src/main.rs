//! Verification harness for 2-complex/ruler. The ruler sources are compiled into this crate
//! straight from /repo's working tree, with `--cfg ruler_verif` (scheduler shim in build.rs).
#![allow(dead_code, unused_imports, unused_variables, unused_mut)]

#[path = "/repo/src/blob.rs"] mod blob;
#[path = "/repo/src/bundle.rs"] mod bundle;
#[path = "/repo/src/build.rs"] mod build;
#[path = "/repo/src/cache.rs"] mod cache;
#[path = "/repo/src/directory.rs"] mod directory;
#[path = "/repo/src/current.rs"] mod current;
#[path = "/repo/src/history.rs"] mod history;
#[path = "/repo/src/packet.rs"] mod packet;
#[path = "/repo/src/printer.rs"] mod printer;
#[path = "/repo/src/rule.rs"] mod rule;
#[path = "/repo/src/sort.rs"] mod sort;
#[path = "/repo/src/system/mod.rs"] mod system;
#[path = "/repo/src/ticket.rs"] mod ticket;
#[path = "/repo/src/work.rs"] mod work;
#[path = "/repo/src/downloader.rs"] mod downloader;
#[path = "/repo/src/server.rs"] mod server;

mod verif_sched;
mod memsys;
mod rng;
mod sexp;
mod json;
mod world;
mod scenario;
mod suite;
mod suites;

use json::Json;
use std::io::Write;

fn main()
{
    let args : Vec<String> = std::env::args().collect();
    let mut suite_name = String::new();
    let mut seed : u64 = 1;
    let mut tier = "quick".to_string();
    let mut out_dir = ".".to_string();
    let mut replay : Option<String> = None;
    let mut i = 1;
    while i < args.len()
    {
        match args[i].as_str()
        {
            "--seed" => { seed = args[i + 1].parse().expect("seed"); i += 2; },
            "--tier" => { tier = args[i + 1].clone(); i += 2; },
            "--out" => { out_dir = args[i + 1].clone(); i += 2; },
            "--replay" => { replay = Some(args[i + 1].clone()); i += 2; },
            name => { suite_name = name.to_string(); i += 1; },
        }
    }

    // panics inside the code under test are caught and reported as results, not printed
    std::panic::set_hook(Box::new(|_info| {}));

    let ctx = suite::Ctx{seed : seed, thorough : tier == "thorough", out_dir : out_dir.clone(), replay : replay};
    let mut out = suite::Out::new();
    match suites::run(&suite_name, &ctx, &mut out)
    {
        true => {},
        false =>
        {
            eprintln!("unknown suite {}", suite_name);
            std::process::exit(2);
        },
    }
    out.write(&out_dir, &suite_name).expect("write suite output");
}
