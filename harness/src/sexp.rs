//! Canonical s-expression rendering, identical to coq/Base/Show.v on the model side.
pub fn hex(b : &[u8]) -> String
{
    let mut s = String::with_capacity(1 + 2 * b.len());
    s.push('x');
    for x in b { s.push_str(&format!("{:02x}", x)); }
    s
}
pub fn num(n : usize) -> String { format!("#{}", n) }
pub fn num64(n : u64) -> String { format!("#{}", n) }
pub fn boolean(b : bool) -> String { if b { "T".to_string() } else { "F".to_string() } }
pub fn paren(items : &[String]) -> String { format!("({})", items.join(" ")) }
pub fn list(items : Vec<String>) -> String
{
    let mut v = vec!["l".to_string()];
    v.extend(items);
    paren(&v)
}
pub fn strs(items : &[String]) -> String { list(items.iter().map(|s| hex(s.as_bytes())).collect()) }
pub fn option(o : Option<String>) -> String
{
    match o { None => "none".to_string(), Some(s) => paren(&["some".to_string(), s]) }
}
pub fn ok(s : String) -> String { paren(&["ok".to_string(), s]) }
pub fn err(s : String) -> String { paren(&["err".to_string(), s]) }
pub fn pair(a : String, b : String) -> String { paren(&[a, b]) }
