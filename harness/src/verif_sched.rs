//! Deterministic, replayable stand-in for std::thread / std::sync::mpsc, swapped into
//! /repo/src/build.rs by `--cfg ruler_verif`. Real OS threads run under a baton: exactly one task
//! runs at a time and control changes hands only at yield points (spawn, send, recv, join, endpoint
//! drop, task exit, and the points MemSys announces). Which enabled task runs next is decided by a
//! policy, so a schedule is a list of choices and can be replayed.
//!
//! A thread that has no scheduler installed (thread-local) falls through to plain behaviour with
//! a private scheduler per spawn tree, so several scheduled runs can execute in parallel in
//! different OS threads without sharing anything.

use std::any::Any;
use std::cell::RefCell;
use std::collections::VecDeque;
use std::fmt;
use std::sync::{Arc, Condvar, Mutex};

#[derive(Clone, Debug)]
pub enum Policy
{
    /// workers in spawn order, each to completion; main only when nothing else can run
    Serial,
    /// uniformly random among enabled tasks
    Random(u64),
    /// random task priorities with `depth` priority change points (PCT style)
    Pct(u64, usize),
    /// follow the given choice indices (into the sorted list of enabled tasks), then Serial
    Replay(Vec<usize>),
    /// workers by priority: the enabled worker that comes first in the list runs (to completion or until it
    /// blocks); workers not listed come after the listed ones in spawn order; main runs whenever it can (it spawns
    /// all workers first and is blocked in join most of the time).
    /// No worker is preempted inside its work step (a worker only ever runs because every worker before it in the
    /// list is blocked or finished, and a worker in its work step unblocks nobody), so the work steps are atomic
    /// and happen in an order determined by the list: the schedules Model/Sched.v describes.
    Order(Vec<usize>),
}

#[derive(Clone, Debug, PartialEq)]
enum TaskState
{
    Runnable,
    BlockedRecv(usize),
    BlockedJoin(usize),
    Finished,
}

#[derive(Clone, Debug, Default)]
struct ChanMeta
{
    len : usize,
    senders : usize,
    receiver_alive : bool,
}

#[derive(Clone, Debug, PartialEq)]
pub struct Event
{
    pub task : usize,
    pub what : String,
}

struct Inner
{
    tasks : Vec<TaskState>,
    current : usize,
    policy : Policy,
    rng : u64,
    priorities : Vec<u64>,
    change_points : Vec<usize>,
    steps : usize,
    chans : Vec<ChanMeta>,
    pub trace : Vec<Event>,
    /// (index chosen, number of enabled tasks) at every point where more than one task was enabled
    pub choices : Vec<(usize, usize)>,
    replay_pos : usize,
    pub deadlock : bool,
    pub panics : Vec<usize>,
    os_handles : Vec<std::thread::JoinHandle<()>>,
}

pub struct Sched
{
    inner : Mutex<Inner>,
    cv : Condvar,
}

thread_local!
{
    static CTX : RefCell<Option<(Arc<Sched>, usize)>> = RefCell::new(None);
}

fn ctx() -> Option<(Arc<Sched>, usize)>
{
    CTX.with(|c| c.borrow().clone())
}

fn next_rand(state : &mut u64) -> u64
{
    // splitmix64
    *state = state.wrapping_add(0x9E3779B97F4A7C15);
    let mut z = *state;
    z = (z ^ (z >> 30)).wrapping_mul(0xBF58476D1CE4E5B9);
    z = (z ^ (z >> 27)).wrapping_mul(0x94D049BB133111EB);
    z ^ (z >> 31)
}

impl Inner
{
    fn enabled(&self, t : usize) -> bool
    {
        match &self.tasks[t]
        {
            TaskState::Runnable => true,
            TaskState::Finished => false,
            TaskState::BlockedJoin(other) => self.tasks[*other] == TaskState::Finished,
            TaskState::BlockedRecv(chan) =>
            {
                let meta = &self.chans[*chan];
                self.deadlock || meta.len > 0 || meta.senders == 0
            },
        }
    }

    fn enabled_tasks(&self) -> Vec<usize>
    {
        (0..self.tasks.len()).filter(|t| self.enabled(*t)).collect()
    }

    /// Pick the next task to run among the enabled ones. None when nothing is enabled.
    fn choose(&mut self) -> Option<usize>
    {
        let enabled = self.enabled_tasks();
        if enabled.is_empty()
        {
            return None;
        }
        self.steps += 1;
        if enabled.len() == 1
        {
            return Some(enabled[0]);
        }

        let serial_choice = |enabled : &Vec<usize>| -> usize
        {
            // lowest worker id; main (task 0) only if it is the only one
            match enabled.iter().position(|t| *t != 0)
            {
                Some(i) => i,
                None => 0,
            }
        };

        let index =
        match &self.policy
        {
            Policy::Serial => serial_choice(&enabled),
            Policy::Random(_) => (next_rand(&mut self.rng) % (enabled.len() as u64)) as usize,
            Policy::Pct(_, _) =>
            {
                while self.priorities.len() < self.tasks.len()
                {
                    let p = next_rand(&mut self.rng) | (1u64 << 40);
                    self.priorities.push(p);
                }
                if self.change_points.contains(&self.steps)
                {
                    // demote the currently highest-priority enabled task
                    let mut best = 0;
                    for i in 0..enabled.len()
                    {
                        if self.priorities[enabled[i]] > self.priorities[enabled[best]] { best = i; }
                    }
                    self.priorities[enabled[best]] = self.steps as u64;
                }
                let mut best = 0;
                for i in 0..enabled.len()
                {
                    if self.priorities[enabled[i]] > self.priorities[enabled[best]] { best = i; }
                }
                best
            },
            Policy::Order(list) =>
            {
                let rank = |t : usize| -> (usize, usize)
                {
                    // main first: it spawns every worker before any of them runs, then blocks in join; what it does
                    // between two joins (status lines, one history file) touches nothing a worker reads
                    if t == 0 { return (0, 0); }
                    match list.iter().position(|x| *x == t) { Some(i) => (1, i), None => (2, t) }
                };
                let mut best = 0;
                for i in 0..enabled.len() { if rank(enabled[i]) < rank(enabled[best]) { best = i; } }
                best
            },
            Policy::Replay(list) =>
            {
                let r =
                if self.replay_pos < list.len() && list[self.replay_pos] < enabled.len()
                {
                    list[self.replay_pos]
                }
                else
                {
                    serial_choice(&enabled)
                };
                self.replay_pos += 1;
                r
            },
        };
        self.choices.push((index, enabled.len()));
        Some(enabled[index])
    }
}

impl Sched
{
    fn new(policy : Policy) -> Arc<Sched>
    {
        let (seed, change_points) =
        match &policy
        {
            Policy::Random(seed) => (*seed, vec![]),
            Policy::Pct(seed, depth) =>
            {
                let mut s = *seed ^ 0xABCDEF;
                let cps = (0..*depth).map(|_| 1 + (next_rand(&mut s) % 60) as usize).collect();
                (*seed, cps)
            },
            _ => (0, vec![]),
        };
        Arc::new(Sched
        {
            inner : Mutex::new(Inner
            {
                tasks : vec![TaskState::Runnable],
                current : 0,
                policy : policy,
                rng : seed,
                priorities : vec![],
                change_points : change_points,
                steps : 0,
                chans : vec![],
                trace : vec![],
                choices : vec![],
                replay_pos : 0,
                deadlock : false,
                panics : vec![],
                os_handles : vec![],
            }),
            cv : Condvar::new(),
        })
    }

    /// Hand the baton to a task chosen by the policy and wait until it comes back to `me`.
    /// `me` must be the current task and must be enabled (or have just made itself blocked/finished).
    fn reschedule(&self, me : usize, wait_for_turn : bool)
    {
        let mut g = self.inner.lock().unwrap();
        match g.choose()
        {
            Some(next) =>
            {
                g.current = next;
            },
            None =>
            {
                // Nothing can run. If unfinished tasks remain this is a deadlock: release every
                // blocked receiver with an error so that the program unwinds and reports it.
                if g.tasks.iter().any(|t| *t != TaskState::Finished)
                {
                    g.deadlock = true;
                    let t = g.current;
                    g.trace.push(Event{task : t, what : "DEADLOCK".to_string()});
                    match g.choose()
                    {
                        Some(next) => g.current = next,
                        None => {},
                    }
                }
            },
        }
        self.cv.notify_all();
        if wait_for_turn
        {
            while g.current != me
            {
                g = self.cv.wait(g).unwrap();
            }
        }
    }

    fn log(&self, task : usize, what : String)
    {
        self.inner.lock().unwrap().trace.push(Event{task : task, what : what});
    }
}

/// A visible step is about to happen in the current task: let the policy run someone else first.
pub fn yield_point()
{
    if let Some((sched, me)) = ctx()
    {
        if std::thread::panicking() { return; }
        sched.reschedule(me, true);
    }
}

/// Record an event in the schedule trace (no yield).
pub fn log_event(what : String)
{
    if let Some((sched, me)) = ctx()
    {
        sched.log(me, what);
    }
}

pub fn current_task() -> Option<usize>
{
    ctx().map(|(_, t)| t)
}

/// True when the task with this id has run to completion (used by monitors).
pub fn task_finished(task : usize) -> bool
{
    match ctx()
    {
        Some((sched, _)) =>
        {
            let g = sched.inner.lock().unwrap();
            task < g.tasks.len() && g.tasks[task] == TaskState::Finished
        },
        None => false,
    }
}

pub struct RunReport<T>
{
    /// Err when the main task panicked
    pub result : Result<T, String>,
    pub trace : Vec<Event>,
    pub choices : Vec<(usize, usize)>,
    pub deadlock : bool,
    pub panicked_tasks : Vec<usize>,
    pub tasks : usize,
}

/// Run `f` as the main task (id 0) of a fresh scheduler with the given policy.
pub fn run<T, F : FnOnce() -> T>(policy : Policy, f : F) -> RunReport<T>
{
    let sched = Sched::new(policy);
    let previous = CTX.with(|c| c.replace(Some((sched.clone(), 0))));
    let result = std::panic::catch_unwind(std::panic::AssertUnwindSafe(f));
    // main is done: let whatever is still alive run to the end (detached threads keep running in
    // the real program too), then collect the OS threads.
    {
        let mut g = sched.inner.lock().unwrap();
        g.tasks[0] = TaskState::Finished;
    }
    sched.reschedule(0, false);
    loop
    {
        let handle_opt =
        {
            let mut g = sched.inner.lock().unwrap();
            g.os_handles.pop()
        };
        match handle_opt
        {
            Some(h) => { let _ = h.join(); },
            None => break,
        }
    }
    CTX.with(|c| c.replace(previous));
    let g = sched.inner.lock().unwrap();
    RunReport
    {
        result : match result
        {
            Ok(v) => Ok(v),
            Err(payload) => Err(panic_message(&payload)),
        },
        trace : g.trace.clone(),
        choices : g.choices.clone(),
        deadlock : g.deadlock,
        panicked_tasks : g.panics.clone(),
        tasks : g.tasks.len(),
    }
}

pub fn panic_message(payload : &Box<dyn Any + Send>) -> String
{
    if let Some(s) = payload.downcast_ref::<&str>() { s.to_string() }
    else if let Some(s) = payload.downcast_ref::<String>() { s.clone() }
    else { "<panic>".to_string() }
}

pub mod thread
{
    use super::*;

    pub struct JoinHandle<T>
    {
        task : usize,
        slot : Arc<Mutex<Option<std::thread::Result<T>>>>,
        plain : Option<std::thread::JoinHandle<T>>,
    }

    pub fn spawn<F, T>(f : F) -> JoinHandle<T>
    where F : FnOnce() -> T + Send + 'static, T : Send + 'static
    {
        let (sched, me) =
        match ctx()
        {
            Some(pair) => pair,
            None =>
            {
                return JoinHandle{task : 0, slot : Arc::new(Mutex::new(None)), plain : Some(std::thread::spawn(f))};
            }
        };

        let slot : Arc<Mutex<Option<std::thread::Result<T>>>> = Arc::new(Mutex::new(None));
        let task =
        {
            let mut g = sched.inner.lock().unwrap();
            g.tasks.push(TaskState::Runnable);
            let t = g.tasks.len() - 1;
            g.trace.push(Event{task : me, what : format!("spawn {}", t)});
            t
        };

        let slot_clone = slot.clone();
        let sched_clone = sched.clone();
        let os_handle = std::thread::spawn(move ||
        {
            CTX.with(|c| c.replace(Some((sched_clone.clone(), task))));
            {
                let mut g = sched_clone.inner.lock().unwrap();
                while g.current != task
                {
                    g = sched_clone.cv.wait(g).unwrap();
                }
            }
            let result = std::panic::catch_unwind(std::panic::AssertUnwindSafe(f));
            let panicked = result.is_err();
            *slot_clone.lock().unwrap() = Some(result);
            {
                let mut g = sched_clone.inner.lock().unwrap();
                g.tasks[task] = TaskState::Finished;
                g.trace.push(Event{task : task, what : "finish".to_string()});
                if panicked { g.panics.push(task); }
            }
            sched_clone.reschedule(task, false);
            CTX.with(|c| c.replace(None));
        });
        sched.inner.lock().unwrap().os_handles.push(os_handle);

        super::yield_point();
        JoinHandle{task : task, slot : slot, plain : None}
    }

    impl<T> JoinHandle<T>
    {
        pub fn join(self) -> std::thread::Result<T>
        {
            if let Some(h) = self.plain
            {
                return h.join();
            }
            let (sched, me) = ctx().expect("join outside scheduler");
            super::yield_point();
            loop
            {
                {
                    let mut g = sched.inner.lock().unwrap();
                    if g.tasks[self.task] == TaskState::Finished
                    {
                        g.tasks[me] = TaskState::Runnable;
                        g.trace.push(Event{task : me, what : format!("join {}", self.task)});
                        break;
                    }
                    g.tasks[me] = TaskState::BlockedJoin(self.task);
                }
                sched.reschedule(me, true);
            }
            self.slot.lock().unwrap().take().expect("joined task left no result")
        }
    }
}

pub mod mpsc
{
    use super::*;

    pub struct SendError<T>(pub T);
    #[derive(Debug, Clone, Copy, PartialEq, Eq)]
    pub struct RecvError;

    impl<T> fmt::Debug for SendError<T>
    {
        fn fmt(&self, f : &mut fmt::Formatter) -> fmt::Result { write!(f, "SendError {{ .. }}") }
    }
    impl<T> fmt::Display for SendError<T>
    {
        fn fmt(&self, f : &mut fmt::Formatter) -> fmt::Result { write!(f, "sending on a closed channel") }
    }
    impl fmt::Display for RecvError
    {
        fn fmt(&self, f : &mut fmt::Formatter) -> fmt::Result { write!(f, "receiving on a closed channel") }
    }

    struct Shared<T>
    {
        queue : Mutex<VecDeque<T>>,
        /// Some(id) when the channel is registered with a scheduler
        id : Option<(Arc<Sched>, usize)>,
        plain_senders : Mutex<usize>,
        plain_receiver_alive : Mutex<bool>,
        plain_cv : Condvar,
    }

    pub struct Sender<T> { shared : Arc<Shared<T>> }
    pub struct Receiver<T> { shared : Arc<Shared<T>> }

    pub fn channel<T>() -> (Sender<T>, Receiver<T>)
    {
        let id =
        match ctx()
        {
            Some((sched, _me)) =>
            {
                let mut g = sched.inner.lock().unwrap();
                g.chans.push(ChanMeta{len : 0, senders : 1, receiver_alive : true});
                let cid = g.chans.len() - 1;
                drop(g);
                Some((sched, cid))
            },
            None => None,
        };
        let shared = Arc::new(Shared
        {
            queue : Mutex::new(VecDeque::new()),
            id : id,
            plain_senders : Mutex::new(1),
            plain_receiver_alive : Mutex::new(true),
            plain_cv : Condvar::new(),
        });
        (Sender{shared : shared.clone()}, Receiver{shared : shared})
    }

    impl<T> Sender<T>
    {
        pub fn send(&self, value : T) -> Result<(), SendError<T>>
        {
            match &self.shared.id
            {
                Some((sched, cid)) =>
                {
                    super::yield_point();
                    let me = current_task().unwrap_or(0);
                    let mut g = sched.inner.lock().unwrap();
                    if !g.chans[*cid].receiver_alive
                    {
                        g.trace.push(Event{task : me, what : format!("send-fail {}", cid)});
                        return Err(SendError(value));
                    }
                    g.chans[*cid].len += 1;
                    g.trace.push(Event{task : me, what : format!("send {}", cid)});
                    drop(g);
                    self.shared.queue.lock().unwrap().push_back(value);
                    Ok(())
                },
                None =>
                {
                    if !*self.shared.plain_receiver_alive.lock().unwrap()
                    {
                        return Err(SendError(value));
                    }
                    self.shared.queue.lock().unwrap().push_back(value);
                    self.shared.plain_cv.notify_all();
                    Ok(())
                },
            }
        }
    }

    impl<T> Clone for Sender<T>
    {
        fn clone(&self) -> Self
        {
            match &self.shared.id
            {
                Some((sched, cid)) => { sched.inner.lock().unwrap().chans[*cid].senders += 1; },
                None => { *self.shared.plain_senders.lock().unwrap() += 1; },
            }
            Sender{shared : self.shared.clone()}
        }
    }

    impl<T> Drop for Sender<T>
    {
        fn drop(&mut self)
        {
            match &self.shared.id
            {
                Some((sched, cid)) =>
                {
                    super::yield_point();
                    let me = current_task().unwrap_or(0);
                    let mut g = sched.inner.lock().unwrap();
                    if g.chans[*cid].senders > 0 { g.chans[*cid].senders -= 1; }
                    g.trace.push(Event{task : me, what : format!("drop-sender {}", cid)});
                },
                None =>
                {
                    let mut s = self.shared.plain_senders.lock().unwrap();
                    if *s > 0 { *s -= 1; }
                    self.shared.plain_cv.notify_all();
                },
            }
        }
    }

    impl<T> Receiver<T>
    {
        pub fn recv(&self) -> Result<T, RecvError>
        {
            match &self.shared.id
            {
                Some((sched, cid)) =>
                {
                    super::yield_point();
                    let me = current_task().unwrap_or(0);
                    loop
                    {
                        {
                            let mut g = sched.inner.lock().unwrap();
                            if g.chans[*cid].len > 0
                            {
                                g.chans[*cid].len -= 1;
                                g.tasks[me] = TaskState::Runnable;
                                g.trace.push(Event{task : me, what : format!("recv {}", cid)});
                                drop(g);
                                return Ok(self.shared.queue.lock().unwrap().pop_front().expect("queue/meta mismatch"));
                            }
                            if g.chans[*cid].senders == 0 || g.deadlock
                            {
                                g.tasks[me] = TaskState::Runnable;
                                g.trace.push(Event{task : me, what : format!("recv-fail {}", cid)});
                                return Err(RecvError);
                            }
                            g.tasks[me] = TaskState::BlockedRecv(*cid);
                        }
                        sched.reschedule(me, true);
                    }
                },
                None =>
                {
                    let mut q = self.shared.queue.lock().unwrap();
                    loop
                    {
                        if let Some(v) = q.pop_front() { return Ok(v); }
                        if *self.shared.plain_senders.lock().unwrap() == 0 { return Err(RecvError); }
                        q = self.shared.plain_cv.wait(q).unwrap();
                    }
                },
            }
        }
    }

    impl<T> Drop for Receiver<T>
    {
        fn drop(&mut self)
        {
            match &self.shared.id
            {
                Some((sched, cid)) =>
                {
                    super::yield_point();
                    let me = current_task().unwrap_or(0);
                    let mut g = sched.inner.lock().unwrap();
                    g.chans[*cid].receiver_alive = false;
                    g.trace.push(Event{task : me, what : format!("drop-receiver {}", cid)});
                },
                None =>
                {
                    *self.shared.plain_receiver_alive.lock().unwrap() = false;
                },
            }
        }
    }
}
