//! Driving ruler's build()/clean() over MemSys: operations of the history alphabet, canonical
//! observations after each operation (same rendering as coq/Model/Concrete.v), recording printer.
use crate::blob;
use crate::build::{self, BuildError, BuildParams};
use crate::memsys::{Call, ClockMode, Disk, MemSys};
use crate::printer::Printer;
use crate::sexp;
use crate::sort::TopologicalSortError;
use crate::suites::c14;
use crate::suites::c16::{dec_history, dec_table};
use crate::verif_sched::{self, Policy, RunReport};
use crate::work::WorkError;
use std::collections::BTreeMap;
use termcolor::Color;

pub const RULES_PATH : &str = "build.rules";
pub const RULER_DIR : &str = ".ruler";

#[derive(Clone, Debug, PartialEq)]
pub enum Op
{
    Write(String, Vec<u8>),
    Remove(String),
    Chmod(String, bool),
    /// mv p q by the user: the file keeps its content, modification time and permissions
    Move(String, String),
    RmCache(String),
    RmRuler,
    RmCacheDir,
    RmHistDir,
    RmTable,
    RmHist(String),
    SetTable(Vec<u8>),
    SetHist(String, Vec<u8>),
    Build(Option<String>),
    Clean(Option<String>),
}

impl Op
{
    pub fn show(&self) -> String
    {
        let g = |goal : &Option<String>| sexp::option(goal.as_ref().map(|s| sexp::hex(s.as_bytes())));
        match self
        {
            Op::Write(p, c) => sexp::paren(&["write".to_string(), sexp::hex(p.as_bytes()), sexp::hex(c)]),
            Op::Remove(p) => sexp::paren(&["rm".to_string(), sexp::hex(p.as_bytes())]),
            Op::Chmod(p, x) => sexp::paren(&["chmod".to_string(), sexp::hex(p.as_bytes()), sexp::boolean(*x)]),
            Op::Move(p, q) => sexp::paren(&["mv".to_string(), sexp::hex(p.as_bytes()), sexp::hex(q.as_bytes())]),
            Op::RmCache(n) => sexp::paren(&["rmcache".to_string(), sexp::hex(n.as_bytes())]),
            Op::RmRuler => "(rmruler)".to_string(),
            Op::RmCacheDir => "(rmcachedir)".to_string(),
            Op::RmHistDir => "(rmhistdir)".to_string(),
            Op::RmTable => "(rmtable)".to_string(),
            Op::RmHist(n) => sexp::paren(&["rmhist".to_string(), sexp::hex(n.as_bytes())]),
            Op::SetTable(b) => sexp::paren(&["settable".to_string(), sexp::hex(b)]),
            Op::SetHist(n, b) => sexp::paren(&["sethist".to_string(), sexp::hex(n.as_bytes()), sexp::hex(b)]),
            Op::Build(goal) => sexp::paren(&["build".to_string(), g(goal)]),
            Op::Clean(goal) => sexp::paren(&["clean".to_string(), g(goal)]),
        }
    }

    /// human-readable, for replay files
    pub fn describe(&self) -> String
    {
        let txt = |b : &Vec<u8>| String::from_utf8_lossy(b).to_string();
        match self
        {
            Op::Write(p, c) => format!("write {:?} <- {:?}", p, txt(c)),
            Op::Remove(p) => format!("delete {:?}", p),
            Op::Chmod(p, x) => format!("chmod {} {:?}", if *x { "+x" } else { "-x" }, p),
            Op::Move(p, q) => format!("mv {:?} {:?} (modification time kept)", p, q),
            Op::RmCache(n) => format!("delete cache entry {}", n),
            Op::RmRuler => "delete the ruler directory".to_string(),
            Op::RmCacheDir => "delete the cache directory".to_string(),
            Op::RmHistDir => "delete the history directory".to_string(),
            Op::RmTable => "delete current_file_states".to_string(),
            Op::RmHist(n) => format!("delete history file {}", n),
            Op::SetTable(b) => format!("overwrite current_file_states with {} bytes", b.len()),
            Op::SetHist(n, b) => format!("overwrite history file {} with {} bytes", n, b.len()),
            Op::Build(g) => format!("build {:?}", g),
            Op::Clean(g) => format!("clean {:?}", g),
        }
    }
}

pub struct RecordingPrinter
{
    pub banners : Vec<(String, String)>,
    pub other : Vec<String>,
}

impl RecordingPrinter
{
    pub fn new() -> RecordingPrinter { RecordingPrinter{banners : vec![], other : vec![]} }
}

impl Printer for RecordingPrinter
{
    fn print_single_banner_line(&mut self, banner_text : &str, _banner_color : Color, path : &str)
    {
        self.banners.push((banner_text.trim().to_string(), path.to_string()));
    }
    fn print(&mut self, text : &str) { self.other.push(text.to_string()); }
    fn error(&mut self, text : &str) { self.other.push(text.to_string()); }
}

pub fn show_work_error(e : &WorkError) -> String
{
    match e
    {
        WorkError::FileNotFound(p) => sexp::paren(&["FileNotFound".to_string(), sexp::hex(p.as_bytes())]),
        WorkError::TargetFileNotGenerated(p) => sexp::paren(&["TargetFileNotGenerated".to_string(), sexp::hex(p.as_bytes())]),
        WorkError::CommandExecutedButErrored => "CommandExecutedButErrored".to_string(),
        WorkError::NoCommandExecuted => "NoCommandExecuted".to_string(),
        WorkError::Contradiction(ps) => sexp::paren(&["Contradiction".to_string(), sexp::strs(ps)]),
        WorkError::Weird => "Weird".to_string(),
        WorkError::ResolutionError(blob::ResolutionError::CacheDirectoryMissing) => "CacheDirectoryMissing".to_string(),
        other => sexp::paren(&["Other".to_string(), sexp::hex(format!("{}", other).as_bytes())]),
    }
}

pub fn show_sort_error(e : &TopologicalSortError) -> String
{
    match e
    {
        TopologicalSortError::TargetMissing(t) => sexp::paren(&["TargetMissing".to_string(), sexp::hex(t.as_bytes())]),
        TopologicalSortError::SelfDependentRule(t) => sexp::paren(&["SelfDependentRule".to_string(), sexp::hex(t.as_bytes())]),
        TopologicalSortError::CircularDependence(c) => sexp::paren(&["CircularDependence".to_string(), sexp::strs(c)]),
        TopologicalSortError::TargetInMultipleRules(t) => sexp::paren(&["TargetInMultipleRules".to_string(), sexp::hex(t.as_bytes())]),
    }
}

#[derive(Clone, Debug, PartialEq)]
pub enum Verdict
{
    Ok,
    WorkErrors(Vec<String>),   // rendered errors
    Fatal(String),
    Panic(String),
}

impl Verdict
{
    pub fn show(&self) -> String
    {
        match self
        {
            Verdict::Ok => "ok".to_string(),
            Verdict::WorkErrors(es) => { let mut v = vec!["errs".to_string()]; v.extend(es.iter().cloned()); sexp::paren(&v) },
            Verdict::Fatal(f) => sexp::paren(&["fatal".to_string(), f.clone()]),
            Verdict::Panic(m) => sexp::paren(&["panic".to_string(), sexp::hex(m.as_bytes())]),
        }
    }
    pub fn is_ok(&self) -> bool { *self == Verdict::Ok }
}

pub fn verdict_of(r : &Result<Result<(), BuildError>, String>) -> Verdict
{
    match r
    {
        Err(m) => Verdict::Panic(m.clone()),
        Ok(Ok(())) => Verdict::Ok,
        Ok(Err(BuildError::WorkErrors(es))) => Verdict::WorkErrors(es.iter().map(show_work_error).collect()),
        Ok(Err(BuildError::FailedToReadCurrentFileStates(_))) => Verdict::Fatal("Table".to_string()),
        Ok(Err(BuildError::RuleFileFailedToOpen(_, _))) => Verdict::Fatal("RulesOpen".to_string()),
        Ok(Err(BuildError::RuleFileNotUTF8)) => Verdict::Fatal("NotUtf8".to_string()),
        Ok(Err(BuildError::RuleFileFailedToParse(e))) =>
        {
            let shown = c14::show_parse(&Err(clone_parse_error(e)));
            // (err X) -> X
            let inner = shown.trim_start_matches("(err ").trim_end_matches(')').to_string() + if shown.ends_with("))") { ")" } else { "" };
            Verdict::Fatal(sexp::paren(&["Parse".to_string(), strip_err(&shown)]))
        },
        Ok(Err(BuildError::TopologicalSortFailed(e))) => Verdict::Fatal(sexp::paren(&["Sort".to_string(), show_sort_error(e)])),
        Ok(Err(BuildError::HistoryError(_))) => Verdict::Fatal("History".to_string()),
        Ok(Err(other)) => Verdict::Fatal(sexp::paren(&["Other".to_string(), sexp::hex(format!("{}", other).as_bytes())])),
    }
}

fn strip_err(shown : &str) -> String
{
    // "(err X)" -> "X"
    let s = shown.strip_prefix("(err ").unwrap_or(shown);
    s[..s.len() - 1].to_string()
}

fn clone_parse_error(e : &crate::rule::ParseError) -> crate::rule::ParseError
{
    use crate::bundle;
    use crate::rule::ParseError;
    match e
    {
        ParseError::UnexpectedEmptyLine(f, n) => ParseError::UnexpectedEmptyLine(f.clone(), *n),
        ParseError::UnexpectedExtraColon(f, n) => ParseError::UnexpectedExtraColon(f.clone(), *n),
        ParseError::UnexpectedEndOfFileMidTargets(f, n) => ParseError::UnexpectedEndOfFileMidTargets(f.clone(), *n),
        ParseError::UnexpectedEndOfFileMidSources(f, n) => ParseError::UnexpectedEndOfFileMidSources(f.clone(), *n),
        ParseError::UnexpectedEndOfFileMidCommand(f, n) => ParseError::UnexpectedEndOfFileMidCommand(f.clone(), *n),
        ParseError::BundleError(f, b) => ParseError::BundleError(f.clone(), match b
        {
            bundle::ParseError::Empty => bundle::ParseError::Empty,
            bundle::ParseError::ContainsEmptyLines(v) => bundle::ParseError::ContainsEmptyLines(v.clone()),
            bundle::ParseError::Contradiction(a, b) => bundle::ParseError::Contradiction(*a, *b),
            bundle::ParseError::WrongIndent(n) => bundle::ParseError::WrongIndent(*n),
        }),
    }
}

/// Everything one ruler invocation showed.
pub struct Invocation
{
    pub verdict : Verdict,
    pub commands : Vec<(Option<usize>, String)>,
    pub banners : Vec<(String, String)>,
    pub calls : Vec<Call>,
    pub before : Disk,
    pub after : Disk,
    pub deadlock : bool,
    pub panicked_tasks : Vec<usize>,
    pub trace : Vec<verif_sched::Event>,
    pub choices : Vec<(usize, usize)>,
    pub snapshots : Vec<(Disk, String)>,
    pub exec_snapshots : Vec<(usize, Vec<String>, BTreeMap<String, Vec<u8>>)>,
}

pub struct Driver
{
    pub sys : MemSys,
    pub record_snapshots : bool,
}

pub fn cache_prefix() -> String { format!("{}/cache/", RULER_DIR) }
pub fn history_prefix() -> String { format!("{}/history/", RULER_DIR) }
pub fn table_path() -> String { format!("{}/current_file_states", RULER_DIR) }
pub fn in_ruler_dir(p : &str) -> bool { p == RULER_DIR || p.starts_with(&format!("{}/", RULER_DIR)) }

impl Driver
{
    pub fn new(mode : ClockMode, t0 : u64) -> Driver
    {
        Driver{sys : MemSys::new(mode, t0), record_snapshots : false}
    }

    /// a fresh driver on a copy of this one's disk and clock (to run the same invocation under another schedule)
    pub fn fork(&self) -> Driver
    {
        let (disk, mode, clock, read_chunk) = self.sys.with(|s| (s.disk.clone(), s.mode, s.clock, s.read_chunk));
        let sys = MemSys::from_disk(disk, mode, clock);
        sys.with(|s| s.read_chunk = read_chunk);
        Driver{sys : sys, record_snapshots : self.record_snapshots}
    }

    /// apply a user operation (not build / clean)
    pub fn user(&self, op : &Op)
    {
        match op
        {
            Op::Write(p, c) => self.sys.user_write(p, c),
            Op::Remove(p) => { self.sys.user_remove(p); },
            Op::Chmod(p, x) => self.sys.user_set_exec(p, *x),
            Op::Move(p, q) => self.sys.user_move(p, q),
            Op::RmCache(n) => { self.sys.user_remove(&format!("{}{}", cache_prefix(), n)); },
            Op::RmRuler => self.sys.user_remove_tree(RULER_DIR),
            Op::RmCacheDir => self.sys.user_remove_tree(&format!("{}/cache", RULER_DIR)),
            Op::RmHistDir => self.sys.user_remove_tree(&format!("{}/history", RULER_DIR)),
            Op::RmTable => { self.sys.user_remove(&table_path()); },
            Op::RmHist(n) => { self.sys.user_remove(&format!("{}{}", history_prefix(), n)); },
            Op::SetTable(b) => { if self.sys.with(|s| s.disk.is_dir(RULER_DIR)) { self.sys.with(|s| { let _ = s.write_whole(&table_path(), b); }); } },
            Op::SetHist(n, b) => { if self.sys.with(|s| s.disk.is_dir(&format!("{}/history", RULER_DIR))) { self.sys.with(|s| { let _ = s.write_whole(&format!("{}{}", history_prefix(), n), b); }); } },
            Op::Build(_) | Op::Clean(_) => panic!("not a user op"),
        }
    }

    /// run build or clean under the given schedule policy
    pub fn invoke(&self, op : &Op, policy : Policy) -> Invocation
    {
        let before = self.sys.disk();
        self.sys.with(|s|
        {
            s.calls.clear();
            s.commands.clear();
            s.log_calls = true;
            s.snapshots = if self.record_snapshots { Some(vec![]) } else { None };
            s.exec_snapshots = Some(vec![]);
        });
        let sys = self.sys.clone();
        let mut printer = RecordingPrinter::new();
        let report : RunReport<Result<(), BuildError>> =
        match op
        {
            Op::Build(goal) =>
            {
                let params = BuildParams::from_all(RULER_DIR.to_string(), vec![RULES_PATH.to_string()], None, goal.clone());
                let p = &mut printer;
                verif_sched::run(policy, move || build::build(sys, p, params))
            },
            Op::Clean(goal) =>
            {
                let g = goal.clone();
                verif_sched::run(policy, move || build::clean(sys, RULER_DIR, vec![RULES_PATH.to_string()], g))
            },
            _ => panic!("not an invocation"),
        };
        let (calls, commands, snapshots, exec_snapshots) = self.sys.with(|s|
        {
            s.log_calls = false;
            (std::mem::take(&mut s.calls), std::mem::take(&mut s.commands), s.snapshots.take().unwrap_or(vec![]), s.exec_snapshots.take().unwrap_or(vec![]))
        });
        Invocation
        {
            verdict : verdict_of(&report.result),
            commands : commands,
            banners : printer.banners,
            calls : calls,
            before : before,
            after : self.sys.disk(),
            deadlock : report.deadlock,
            panicked_tasks : report.panicked_tasks,
            trace : report.trace,
            choices : report.choices,
            snapshots : snapshots,
            exec_snapshots : exec_snapshots,
        }
    }

    pub fn tick(&self) { self.sys.tick(); }
}

// ---------- canonical observation of the disk ----------

fn show_file(content : &[u8], exec : bool) -> Vec<String> { vec![sexp::hex(content), sexp::boolean(exec)] }

pub fn show_disk(disk : &Disk) -> Vec<String>
{
    // files outside the ruler directory
    let files = sexp::list(disk.files.iter().filter(|(p, _)| !in_ruler_dir(p)).map(|(p, n)|
    {
        let mut v = vec![sexp::hex(p.as_bytes())];
        v.extend(show_file(&n.content, n.exec));
        sexp::paren(&v)
    }).collect());
    let cache_dir = format!("{}/cache", RULER_DIR);
    let cache = if !disk.is_dir(&cache_dir) { "none".to_string() } else
    {
        sexp::list(disk.files.iter().filter(|(p, _)| p.starts_with(&cache_prefix())).map(|(p, n)|
        {
            let mut v = vec![sexp::hex(p[cache_prefix().len()..].as_bytes())];
            v.extend(show_file(&n.content, n.exec));
            sexp::paren(&v)
        }).collect())
    };
    let hist_dir = format!("{}/history", RULER_DIR);
    let hist = if !disk.is_dir(&hist_dir) { "none".to_string() } else
    {
        sexp::list(disk.files.iter().filter(|(p, _)| p.starts_with(&history_prefix())).map(|(p, n)|
        {
            let shown = match bincode_history(&n.content)
            {
                Some(entries) => sexp::list(entries.iter().map(|(k, v)| sexp::paren(&[sexp::hex(k), sexp::list(v.iter().map(|s| sexp::paren(&[sexp::hex(&s.0), sexp::num64(s.1), sexp::boolean(s.2)])).collect())])).collect()),
                None => "bad".to_string(),
            };
            sexp::paren(&[sexp::hex(p[history_prefix().len()..].as_bytes()), shown])
        }).collect())
    };
    let table = match disk.files.get(&table_path())
    {
        None => "none".to_string(),
        Some(n) => match bincode_table(&n.content)
        {
            None => "bad".to_string(),
            Some(entries) => sexp::list(entries.iter().map(|(k, s)|
            {
                let path = String::from_utf8_lossy(k).to_string();
                let fresh = match disk.files.get(&path) { Some(f) => sexp::boolean(f.mtime == s.1), None => "-".to_string() };
                sexp::paren(&[sexp::hex(k), sexp::hex(&s.0), fresh, sexp::boolean(s.2)])
            }).collect()),
        },
    };
    vec![files, cache, hist, table]
}

/// decode a history file the way ruler would (bincode), as a key-sorted map (later duplicate wins)
pub fn bincode_history(bytes : &[u8]) -> Option<Vec<(Vec<u8>, Vec<(Vec<u8>, u64, bool)>)>>
{
    let h : Result<crate::history::RuleHistory, _> = bincode::deserialize(bytes);
    match h
    {
        Err(_) => None,
        Ok(h) =>
        {
            let again = bincode::serialize(&h).ok()?;
            let entries = dec_history(&again)?;
            let mut m = BTreeMap::new();
            for (k, v) in entries { m.insert(k, v); }
            Some(m.into_iter().collect())
        },
    }
}

pub fn bincode_table(bytes : &[u8]) -> Option<Vec<(Vec<u8>, (Vec<u8>, u64, bool))>>
{
    let t : Result<crate::current::CurrentFileStatesInside, _> = bincode::deserialize(bytes);
    match t
    {
        Err(_) => None,
        Ok(t) =>
        {
            let again = bincode::serialize(&t).ok()?;
            let entries = dec_table(&again)?;
            let mut m = BTreeMap::new();
            for (k, v) in entries { m.insert(k, v); }
            Some(m.into_iter().collect())
        },
    }
}

pub fn show_obs(inv : Option<&Invocation>, disk : &Disk) -> String
{
    let mut v = vec!["obs".to_string()];
    match inv
    {
        None => { v.push("-".to_string()); v.push("-".to_string()); v.push("-".to_string()); },
        Some(i) =>
        {
            v.push(i.verdict.show());
            v.push(sexp::list(i.commands.iter().map(|(_, l)| sexp::hex(l.as_bytes())).collect()));
            v.push(sexp::list(i.banners.iter().map(|(b, p)| sexp::paren(&[b.clone(), sexp::hex(p.as_bytes())])).collect()));
        },
    }
    v.extend(show_disk(disk));
    sexp::paren(&v)
}

pub fn show_history_case(coarse : bool, t0 : u64, ops : &[Op]) -> String
{
    sexp::paren(&["history".to_string(), sexp::boolean(coarse), sexp::num64(t0), sexp::list(ops.iter().map(|o| o.show()).collect())])
}


// ---------- parsing a (history ...) case back into operations (corpus, replays) ----------

#[derive(Debug, Clone)]
enum Sx { Atom(String), List(Vec<Sx>) }

fn parse_sx(text : &str) -> Option<Sx>
{
    let b = text.as_bytes();
    let mut pos = 0usize;
    fn item(b : &[u8], pos : &mut usize) -> Option<Sx>
    {
        while *pos < b.len() && (b[*pos] == b' ' || b[*pos] == b'\t') { *pos += 1; }
        if *pos >= b.len() { return None; }
        if b[*pos] == b'('
        {
            *pos += 1;
            let mut items = vec![];
            loop
            {
                while *pos < b.len() && b[*pos] == b' ' { *pos += 1; }
                if *pos >= b.len() { return None; }
                if b[*pos] == b')' { *pos += 1; return Some(Sx::List(items)); }
                items.push(item(b, pos)?);
            }
        }
        let start = *pos;
        while *pos < b.len() && b[*pos] != b' ' && b[*pos] != b'(' && b[*pos] != b')' { *pos += 1; }
        Some(Sx::Atom(String::from_utf8_lossy(&b[start..*pos]).to_string()))
    }
    item(b, &mut pos)
}

fn sx_bytes(s : &Sx) -> Option<Vec<u8>>
{
    match s
    {
        Sx::Atom(a) if a.starts_with('x') =>
        {
            let h = &a[1..];
            (0..h.len() / 2).map(|i| u8::from_str_radix(&h[2 * i..2 * i + 2], 16).ok()).collect()
        },
        _ => None,
    }
}
fn sx_string(s : &Sx) -> Option<String> { sx_bytes(s).map(|b| String::from_utf8_lossy(&b).to_string()) }
fn sx_goal(s : &Sx) -> Option<Option<String>>
{
    match s
    {
        Sx::Atom(a) if a == "none" => Some(None),
        Sx::List(v) if v.len() == 2 => Some(Some(sx_string(&v[1])?)),
        _ => None,
    }
}

pub fn parse_history_case(line : &str) -> Option<(bool, u64, Vec<Op>)>
{
    let sx = parse_sx(line.trim())?;
    let items = match sx { Sx::List(v) => v, _ => return None };
    if items.len() != 4 { return None; }
    match &items[0] { Sx::Atom(a) if a == "history" => {}, _ => return None }
    let coarse = match &items[1] { Sx::Atom(a) => a == "T", _ => return None };
    let t0 = match &items[2] { Sx::Atom(a) => a.trim_start_matches('#').parse::<u64>().ok()?, _ => return None };
    let ops_sx = match &items[3] { Sx::List(v) => v.clone(), _ => return None };
    let mut ops = vec![];
    for o in ops_sx.iter().skip(1)
    {
        let v = match o { Sx::List(v) => v, _ => return None };
        let head = match &v[0] { Sx::Atom(a) => a.as_str(), _ => return None };
        ops.push(match head
        {
            "write" => Op::Write(sx_string(&v[1])?, sx_bytes(&v[2])?),
            "rm" => Op::Remove(sx_string(&v[1])?),
            "chmod" => Op::Chmod(sx_string(&v[1])?, match &v[2] { Sx::Atom(a) => a == "T", _ => false }),
            "mv" => Op::Move(sx_string(&v[1])?, sx_string(&v[2])?),
            "rmcache" => Op::RmCache(sx_string(&v[1])?),
            "rmruler" => Op::RmRuler,
            "rmcachedir" => Op::RmCacheDir,
            "rmhistdir" => Op::RmHistDir,
            "rmtable" => Op::RmTable,
            "rmhist" => Op::RmHist(sx_string(&v[1])?),
            "settable" => Op::SetTable(sx_bytes(&v[1])?),
            "sethist" => Op::SetHist(sx_string(&v[1])?, sx_bytes(&v[2])?),
            "build" => Op::Build(sx_goal(&v[1])?),
            "clean" => Op::Clean(sx_goal(&v[1])?),
            _ => return None,
        });
    }
    Some((coarse, t0, ops))
}

/// every corpus case stored for a suite: /verif/corpus/<suite>/*.case, one (history ...) line each
pub fn corpus_cases(suite : &str) -> Vec<(String, String)>
{
    let dir = format!("/verif/corpus/{}", suite);
    let mut out = vec![];
    if let Ok(rd) = std::fs::read_dir(&dir)
    {
        let mut names : Vec<String> = rd.filter_map(|e| e.ok()).map(|e| e.file_name().to_string_lossy().to_string()).filter(|n| n.ends_with(".case")).collect();
        names.sort();
        for n in names
        {
            if let Ok(text) = std::fs::read_to_string(format!("{}/{}", dir, n))
            {
                for line in text.lines() { if line.starts_with("(history") { out.push((n.clone(), line.to_string())); } }
            }
        }
    }
    out
}
