//! Rule graphs with commands in the mini-language, their rendering as a rules file, and an
//! evaluator written independently of ruler (own dependency order, own interpreter) that says what
//! a from-scratch build would produce — the oracle behind the monitors.
use crate::memsys::{unescape, Disk};
use crate::rng::Rng;
use std::collections::{BTreeMap, BTreeSet};

#[derive(Clone, Debug, PartialEq)]
pub struct RuleSpec
{
    pub targets : Vec<String>,
    pub sources : Vec<String>,
    /// script lines (already in the mini-language, one operation each)
    pub script : Vec<String>,
    /// the command section exactly as written, when the rule was read back from a rules file
    pub raw_command : Option<Vec<String>>,
}

impl RuleSpec
{
    /// the rule's command section: script lines split into tokens? No: one rules-file line per
    /// script line, separated by ";" lines, which is what to_command_script undoes.
    pub fn command_lines(&self, split_tokens : bool) -> Vec<String>
    {
        if let Some(raw) = &self.raw_command { return raw.clone(); }
        let mut out = vec![];
        for (i, l) in self.script.iter().enumerate()
        {
            if i > 0 { out.push(";".to_string()); }
            if split_tokens { for t in l.split(' ') { out.push(t.to_string()); } } else { out.push(l.clone()); }
        }
        out
    }

    /// identity as the property defines it: target set, source set, command lines in order
    pub fn identity(&self, split_tokens : bool) -> (Vec<String>, Vec<String>, Vec<String>)
    {
        let mut t = self.targets.clone();
        t.sort();
        let mut s = self.sources.clone();
        s.sort();
        (t, s, self.command_lines(split_tokens))
    }
}

#[derive(Clone, Debug, PartialEq)]
pub struct Scenario
{
    pub rules : Vec<RuleSpec>,
    /// render each script token on its own line (exercises to_command_script's joining)
    pub split_tokens : bool,
}

impl Scenario
{
    pub fn render(&self) -> String
    {
        let mut text = String::new();
        for (i, r) in self.rules.iter().enumerate()
        {
            if i > 0 { text.push('\n'); }
            for t in &r.targets { text.push_str(t); text.push('\n'); }
            text.push_str(":\n");
            for s in &r.sources { text.push_str(s); text.push('\n'); }
            text.push_str(":\n");
            for c in r.command_lines(self.split_tokens) { text.push_str(&c); text.push('\n'); }
            text.push_str(":\n");
        }
        text
    }

    pub fn all_targets(&self) -> BTreeSet<String>
    {
        self.rules.iter().flat_map(|r| r.targets.iter().cloned()).collect()
    }

    pub fn owner(&self, path : &str) -> Option<usize>
    {
        self.rules.iter().position(|r| r.targets.iter().any(|t| t == path))
    }

    /// indices of the rules in scope for a goal (the goal's rule and everything it needs), or all
    pub fn scope(&self, goal : &Option<String>) -> Option<BTreeSet<usize>>
    {
        match goal
        {
            None => Some((0..self.rules.len()).collect()),
            Some(g) =>
            {
                let root = self.owner(g)?;
                let mut seen = BTreeSet::new();
                let mut work = vec![root];
                while let Some(i) = work.pop()
                {
                    if seen.insert(i)
                    {
                        for s in &self.rules[i].sources { if let Some(j) = self.owner(s) { work.push(j); } }
                    }
                }
                Some(seen)
            },
        }
    }

    /// is this a set of rules ruler must accept (no duplicate target, no cycle)?
    pub fn well_formed(&self) -> bool
    {
        let mut seen = BTreeSet::new();
        for r in &self.rules { for t in &r.targets { if !seen.insert(t.clone()) { return false; } } }
        self.order().is_some()
    }

    /// a dependency order of all rules (None if cyclic)
    pub fn order(&self) -> Option<Vec<usize>>
    {
        let n = self.rules.len();
        let mut done = vec![false; n];
        let mut out = vec![];
        loop
        {
            let mut progress = false;
            for i in 0..n
            {
                if done[i] { continue; }
                let ready = self.rules[i].sources.iter().all(|s| match self.owner(s) { Some(j) => done[j] && j != i, None => true });
                if ready { done[i] = true; out.push(i); progress = true; }
            }
            if out.len() == n { return Some(out); }
            if !progress { return None; }
        }
    }
}

#[derive(Clone, Debug, PartialEq)]
pub enum RuleOutcome
{
    /// the contents the command leaves at the rule's targets (in target order)
    Built(Vec<Vec<u8>>),
    /// the command fails or does not produce a declared target; the string says which
    Fails(String),
    /// a source is missing or a prerequisite failed
    Blocked,
}

/// interpret one script line on an environment of path -> content; Err(code) on failure
fn interpret_line(env : &mut BTreeMap<String, Vec<u8>>, line : &str) -> Result<(), i32>
{
    let tokens : Vec<&str> = line.split(' ').filter(|t| !t.is_empty()).collect();
    if tokens.is_empty() { return Ok(()); }
    match tokens[0]
    {
        "true" => Ok(()),
        "fail" => Err(1),
        "gen" =>
        {
            if tokens.len() < 2 { return Err(2); }
            let mut data = vec![];
            for piece in &tokens[2..]
            {
                if let Some(p) = piece.strip_prefix('@') { match env.get(p) { Some(c) => data.extend_from_slice(c), None => return Err(1) } }
                else if let Some(t) = piece.strip_prefix('=') { data.extend_from_slice(&unescape(t)); }
                else { return Err(2); }
            }
            env.insert(tokens[1].to_string(), data);
            Ok(())
        },
        "chmod" => if tokens.len() == 2 && env.contains_key(tokens[1]) { Ok(()) } else { Err(1) },
        "rm" => { if tokens.len() != 2 { return Err(2); } env.remove(tokens[1]); Ok(()) },
        _ => Err(127),
    }
}

/// What running every rule from scratch, in dependency order, on the given non-target files gives.
/// `files`: everything on disk outside the ruler directory (targets present there are ignored:
/// from scratch means they are not there).
pub fn from_scratch(sc : &Scenario, files : &BTreeMap<String, Vec<u8>>) -> Option<Vec<RuleOutcome>>
{
    let order = sc.order()?;
    let targets = sc.all_targets();
    let mut env : BTreeMap<String, Vec<u8>> = files.iter().filter(|(p, _)| !targets.contains(*p)).map(|(p, c)| (p.clone(), c.clone())).collect();
    let mut out : Vec<RuleOutcome> = vec![RuleOutcome::Blocked; sc.rules.len()];
    for i in order
    {
        let r = &sc.rules[i];
        let mut blocked = false;
        for s in &r.sources
        {
            match sc.owner(s)
            {
                Some(j) => if !matches!(out[j], RuleOutcome::Built(_)) { blocked = true; },
                None => if !env.contains_key(s) { blocked = true; },
            }
        }
        if blocked { out[i] = RuleOutcome::Blocked; continue; }
        // ruler runs every script line whatever the earlier ones returned
        let mut failed = false;
        if r.script.is_empty() { out[i] = RuleOutcome::Fails("no command".to_string()); continue; }
        for line in &r.script { if interpret_line(&mut env, line).is_err() { failed = true; } }
        if failed { out[i] = RuleOutcome::Fails("command exits non-zero".to_string()); for t in &r.targets { env.remove(t); } continue; }
        let mut contents = vec![];
        let mut missing = None;
        for t in &r.targets { match env.get(t) { Some(c) => contents.push(c.clone()), None => { missing = Some(t.clone()); break; } } }
        match missing
        {
            Some(t) => { out[i] = RuleOutcome::Fails(format!("target {} not generated", t)); for t in &r.targets { env.remove(t); } },
            None => out[i] = RuleOutcome::Built(contents),
        }
    }
    Some(out)
}

pub fn disk_files(disk : &Disk) -> BTreeMap<String, Vec<u8>>
{
    disk.files.iter().filter(|(p, _)| !crate::world::in_ruler_dir(p)).map(|(p, n)| (p.clone(), (*n.content).clone())).collect()
}

// ---------- generators ----------

pub const CONTENTS : &[&str] = &["X", "Y", "Z", "", "XY"];
pub const TAGS : &[&str] = &["", "", "t", "u", "X"];

#[derive(Clone, Copy, Debug, PartialEq)]
pub enum Flavor
{
    /// deterministic, target-only commands that always succeed
    Plain,
    /// some rules fail / omit a target / have no command
    WithFailures,
    /// one rule reads an undeclared input
    Undeclared,
}

pub struct GenParams
{
    pub max_rules : usize,
    pub flavor : Flavor,
}

fn target_name(i : usize, k : usize) -> String
{
    let base = (b'P' + (i % 10) as u8) as char;
    if k == 0 { format!("{}{}", base, if i >= 10 { format!("{}", i / 10) } else { String::new() }) } else { format!("{}{}.{}", base, if i >= 10 { format!("{}", i / 10) } else { String::new() }, k) }
}

pub fn gen_scenario(rng : &mut Rng, params : &GenParams) -> Scenario
{
    let n = rng.range(1, params.max_rules);
    let n_leaves = rng.range(1, 3);
    let leaves : Vec<String> = (0..n_leaves).map(|i| format!("{}", (b'a' + i as u8) as char)).collect();
    let mut rules : Vec<RuleSpec> = vec![];
    for i in 0..n
    {
        let n_targets = if rng.chance(1, 4) { 2 } else { 1 };
        let targets : Vec<String> = (0..n_targets).map(|k| target_name(i, k)).collect();
        // sources: leaves and targets of earlier rules (transitive edges arise naturally)
        let mut sources : Vec<String> = vec![];
        for l in &leaves { if rng.chance(1, 2) { sources.push(l.clone()); } }
        for j in 0..i { for t in &rules[j].targets { if rng.chance(1, 3) { sources.push(t.clone()); } } }
        if sources.is_empty() { sources.push(leaves[rng.below(leaves.len())].clone()); }
        let mut script : Vec<String> = vec![];
        for t in &targets
        {
            let shape = rng.below(10);
            let mut line = format!("gen {}", t);
            let tag = *rng.pick(TAGS);
            match shape
            {
                0 => { line.push_str(&format!(" ={}", rng.pick(CONTENTS))); },                        // constant
                1 => { line.push_str(&format!(" @{}", sources[rng.below(sources.len())])); },         // copy of one source
                _ => { if !tag.is_empty() { line.push_str(&format!(" ={}", tag)); } for s in &sources { line.push_str(&format!(" @{}", s)); } },
            }
            script.push(line);
            if rng.chance(1, 8) { script.push(format!("chmod {}", t)); }
        }
        match params.flavor
        {
            Flavor::WithFailures =>
            {
                match rng.below(12)
                {
                    0 | 1 => { script = vec![format!("true {}", targets[0]), "fail".to_string()]; },
                    2 => { script.pop(); if script.is_empty() { script.push(format!("true {}", targets[0])); } },   // omits (at least the chmod or) a target
                    3 => { script = vec![]; },                                                           // no command at all
                    4 => { script = vec![format!("gen {} @no-such-file", targets[0])]; },               // fails without writing
                    5 => { let at = rng.below(script.len().max(1)); script.insert(at, "fail".to_string()); },   // a line that is not the last one fails; the later ones succeed
                    6 => { script.insert(0, format!("gen {}.tmp @no-such-file", targets[0])); },          // the first line fails, the rest succeeds
                    _ => {},
                }
            },
            _ => {},
        }
        rules.push(RuleSpec{targets : targets, sources : sources, script : script, raw_command : None});
    }
    if params.flavor == Flavor::Undeclared
    {
        let i = rng.below(rules.len());
        let n_lines = rules[i].script.len();
        for k in 0..n_lines
        {
            if rules[i].script[k].starts_with("gen ") && (k == 0 || rng.chance(1, 2)) { rules[i].script[k].push_str(" @undeclared"); }
        }
    }
    rng.shuffle(&mut rules);
    Scenario{rules : rules, split_tokens : rng.chance(1, 3)}
}

/// a small edit of the rules: what "edit rule" means in the history alphabet
pub fn mutate_scenario(rng : &mut Rng, sc : &Scenario) -> Scenario
{
    let mut out = sc.clone();
    if out.rules.is_empty() { return out; }
    let i = rng.below(out.rules.len());
    match rng.below(8)
    {
        0 =>
        {
            // change a command: another tag on the first gen line
            if let Some(line) = out.rules[i].script.iter_mut().find(|l| l.starts_with("gen ")) { line.push_str(&format!(" ={}", rng.pick(&["1", "2", "X"]))); }
        },
        1 =>
        {
            // add a declared source (a leaf) without using it
            let s = rng.pick(&["a", "b", "c", "d"]).to_string();
            if !out.rules[i].sources.contains(&s) && !out.rules[i].targets.contains(&s) { out.rules[i].sources.push(s); }
        },
        2 =>
        {
            if out.rules[i].sources.len() > 1
            {
                let k = rng.below(out.rules[i].sources.len());
                let s = out.rules[i].sources.remove(k);
                let piece = format!("@{}", s);
                for l in out.rules[i].script.iter_mut()
                {
                    *l = l.split(' ').filter(|t| *t != piece).collect::<Vec<&str>>().join(" ");
                }
            }
        },
        3 =>
        {
            // add a target
            let t = format!("{}.n", out.rules[i].targets[0]);
            if out.owner(&t).is_none() { out.rules[i].targets.push(t.clone()); out.rules[i].script.push(format!("gen {} ={}", t, rng.pick(CONTENTS))); }
        },
        4 =>
        {
            if out.rules[i].targets.len() > 1
            {
                let t = out.rules[i].targets.pop().unwrap();
                out.rules[i].script.retain(|l| l.split(' ').nth(1) != Some(t.as_str()));
                if out.rules[i].script.is_empty() { let t0 = out.rules[i].targets[0].clone(); out.rules[i].script.push(format!("true {}", t0)); }
            }
        },
        5 => { if out.rules.len() > 1 { out.rules.remove(i); } },
        6 => { out.rules.reverse(); },
        _ => { out.split_tokens = !out.split_tokens; },
    }
    // keep the graph valid: drop sources that would create a cycle or name a removed target that is no file — such
    // names simply become leaves (missing files), which is a legitimate situation
    if !out.well_formed() { return sc.clone(); }
    out
}


/// read back a rules file in the flat shape `render` produces (used for corpus cases and replays)
pub fn scenario_from_text(text : &str) -> Option<Scenario>
{
    let mut rules = vec![];
    for block in text.split("\n\n")
    {
        let block = block.trim_matches('\n');
        if block.is_empty() { continue; }
        let lines : Vec<&str> = block.split('\n').collect();
        let mut sections : Vec<Vec<String>> = vec![vec![]];
        for l in lines
        {
            if l == ":" { sections.push(vec![]); } else { sections.last_mut().unwrap().push(l.to_string()); }
        }
        if sections.len() != 4 || !sections[3].is_empty() { return None; }
        if sections[0].iter().chain(sections[1].iter()).any(|l| l.starts_with('\t') || l.is_empty()) { return None; }
        // command lines -> script lines (what to_command_script does)
        let mut script = vec![];
        let mut cur : Vec<String> = vec![];
        for l in sections[2].iter()
        {
            if l == ";" { script.push(cur.join(" ")); cur = vec![]; } else { cur.push(l.clone()); }
        }
        if !cur.is_empty() { script.push(cur.join(" ")); }
        rules.push(RuleSpec{targets : sections[0].clone(), sources : sections[1].clone(), script : script, raw_command : Some(sections[2].clone())});
    }
    Some(Scenario{rules : rules, split_tokens : false})
}
