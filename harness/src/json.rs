//! Minimal JSON value and printer (the harness reports statistics and samples to the check driver).
use std::collections::BTreeMap;

#[derive(Clone, Debug)]
pub enum Json
{
    Null,
    Bool(bool),
    Num(f64),
    Int(i64),
    Str(String),
    Arr(Vec<Json>),
    Obj(BTreeMap<String, Json>),
}

impl Json
{
    pub fn obj() -> Json { Json::Obj(BTreeMap::new()) }
    pub fn set(&mut self, key : &str, value : Json) -> &mut Json
    {
        if let Json::Obj(m) = self { m.insert(key.to_string(), value); }
        self
    }
    pub fn s(text : &str) -> Json { Json::Str(text.to_string()) }
    pub fn i(n : usize) -> Json { Json::Int(n as i64) }
    pub fn counts(m : &BTreeMap<String, usize>) -> Json
    {
        Json::Obj(m.iter().map(|(k, v)| (k.clone(), Json::Int(*v as i64))).collect())
    }

    pub fn render(&self) -> String
    {
        match self
        {
            Json::Null => "null".to_string(),
            Json::Bool(b) => b.to_string(),
            Json::Num(x) => format!("{}", x),
            Json::Int(i) => format!("{}", i),
            Json::Str(s) =>
            {
                let mut out = String::from("\"");
                for c in s.chars()
                {
                    match c
                    {
                        '"' => out.push_str("\\\""),
                        '\\' => out.push_str("\\\\"),
                        '\n' => out.push_str("\\n"),
                        '\t' => out.push_str("\\t"),
                        '\r' => out.push_str("\\r"),
                        c if (c as u32) < 0x20 => out.push_str(&format!("\\u{:04x}", c as u32)),
                        c => out.push(c),
                    }
                }
                out.push('"');
                out
            },
            Json::Arr(v) => format!("[{}]", v.iter().map(|x| x.render()).collect::<Vec<_>>().join(",")),
            Json::Obj(m) => format!("{{{}}}", m.iter().map(|(k, v)| format!("{}:{}", Json::Str(k.clone()).render(), v.render())).collect::<Vec<_>>().join(",")),
        }
    }
}

pub fn bump(m : &mut BTreeMap<String, usize>, key : &str)
{
    *m.entry(key.to_string()).or_insert(0) += 1;
}
