"""Cross-check of the extraction: a sample of the very cases the extracted OCaml model was run on is evaluated
INSIDE Coq (`Eval vm_compute in run_case ...`) and the two outputs must be identical. What this guards: the
extraction mechanism, the OCaml compiler, and ocaml/driver.ml's parsing of the case language (the Gallina terms here
are produced by an independent translation of the same s-expressions)."""
import os
import random
import re
import subprocess

ROOT = os.path.dirname(os.path.dirname(os.path.abspath(__file__)))
COQ = os.path.join(ROOT, "coq")
WORK = os.path.join(ROOT, "work")


class Bad(Exception):
    pass


def parse_sexp(text):
    pos = 0
    n = len(text)

    def item():
        nonlocal pos
        while pos < n and text[pos] in " \t":
            pos += 1
        if pos >= n:
            raise Bad("eof")
        if text[pos] == "(":
            pos += 1
            items = []
            while True:
                while pos < n and text[pos] == " ":
                    pos += 1
                if pos >= n:
                    raise Bad("eof in list")
                if text[pos] == ")":
                    pos += 1
                    return items
                items.append(item())
        start = pos
        while pos < n and text[pos] not in " ()":
            pos += 1
        return text[start:pos]
    return item()


def g_bytes(a):
    if not (isinstance(a, str) and a.startswith("x")):
        raise Bad("bytes")
    h = a[1:]
    return "[" + "; ".join(str(int(h[i:i + 2], 16)) for i in range(0, len(h), 2)) + "]"


def g_list(f, a):
    if not (isinstance(a, list) and a and a[0] == "l"):
        raise Bad("list")
    return "[" + "; ".join(f(x) for x in a[1:]) + "]"


def g_bool(a):
    return {"T": "true", "F": "false"}[a]


def g_N(a):
    if not a.startswith("#"):
        raise Bad("num")
    return a[1:] + "%N"


def g_nat(a):
    if not a.startswith("#"):
        raise Bad("num")
    return a[1:] + "%nat"


def g_opt(f, a):
    if a == "none":
        return "None"
    if isinstance(a, list) and len(a) == 2 and a[0] == "some":
        return "(Some " + f(a[1]) + ")"
    raise Bad("option")


def g_rule(a):
    if not (isinstance(a, list) and len(a) == 4 and a[0] == "rule"):
        raise Bad("rule")
    return "(mk_rule %s %s %s)" % (g_list(g_bytes, a[1]), g_list(g_bytes, a[2]), g_list(g_bytes, a[3]))


def g_xop(a):
    k = a[0]
    if k == "write":
        return "(XWrite %s %s)" % (g_bytes(a[1]), g_bytes(a[2]))
    if k == "rm":
        return "(XRemove %s)" % g_bytes(a[1])
    if k == "chmod":
        return "(XChmod %s %s)" % (g_bytes(a[1]), g_bool(a[2]))
    if k == "mv":
        return "(XMove %s %s)" % (g_bytes(a[1]), g_bytes(a[2]))
    if k == "rmcache":
        return "(XRmCache %s)" % g_bytes(a[1])
    if k == "rmruler":
        return "XRmRuler"
    if k == "rmcachedir":
        return "XRmCacheDir"
    if k == "rmhistdir":
        return "XRmHistDir"
    if k == "rmtable":
        return "XRmTable"
    if k == "rmhist":
        return "(XRmHist %s)" % g_bytes(a[1])
    if k == "settable":
        return "(XSetTable %s)" % g_bytes(a[1])
    if k == "sethist":
        return "(XSetHist %s %s)" % (g_bytes(a[1]), g_bytes(a[2]))
    if k == "build":
        return "(XBuild %s)" % g_opt(g_bytes, a[1])
    if k == "clean":
        return "(XClean %s)" % g_opt(g_bytes, a[1])
    raise Bad("op " + str(k))


def g_event(a):
    names = {"spawn": "ESpawn", "recv": "ERecv", "work": "EWork", "send": "ESend", "finish": "EFinish", "join": "EJoin"}
    return "(" + names[a[0]] + " " + " ".join(g_nat(x) for x in a[1:]) + ")"


def g_case(s):
    k = s[0]
    if k == "encode62":
        return "CEncode62 " + g_bytes(s[1])
    if k == "decode62":
        return "CDecode62 " + g_bytes(s[1])
    if k == "sha256":
        return "CSha256 " + g_bytes(s[1])
    if k == "de_history":
        return "CDeHistory " + g_bytes(s[1])
    if k == "de_table":
        return "CDeTable " + g_bytes(s[1])
    if k == "parse":
        return "CParse " + g_bytes(s[1])
    if k == "parse_all":
        return "CParseAll " + g_list(g_bytes, s[1])
    if k == "bundle":
        return "CBundle " + g_list(g_bytes, s[1])
    if k == "topo":
        return "CTopo %s %s" % (g_list(g_rule, s[1]), g_opt(g_bytes, s[2]))
    if k == "rule_ticket":
        return "CRuleTicket " + g_rule(s[1])
    if k == "history":
        return "CHistory %s %s %s" % (g_bool(s[1]), g_N(s[2]), g_list(g_xop, s[3]))
    if k == "crash":
        return "CCrash false %s %s %s" % (g_bool(s[1]), g_N(s[2]), g_list(g_xop, s[3]))
    if k == "acts":
        return "CCrash true %s %s %s" % (g_bool(s[1]), g_N(s[2]), g_list(g_xop, s[3]))
    if k == "order":
        return "COrder %s %s %s %s %s" % (g_bool(s[1]), g_N(s[2]), g_list(g_xop, s[3]), g_opt(g_bytes, s[4]), g_list(g_nat, s[5]))
    if k == "fine":
        pair = lambda a: "(%s, %s)" % (g_nat(a[0]), g_nat(a[1]))
        return "CFine %s %s %s %s %s" % (g_bool(s[1]), g_N(s[2]), g_list(g_xop, s[3]), g_opt(g_bytes, s[4]), g_list(pair, s[5]))
    if k == "cleanfine":
        return "CCleanFine %s %s %s %s %s" % (g_bool(s[1]), g_N(s[2]), g_list(g_xop, s[3]), g_opt(g_bytes, s[4]), g_list(g_nat, s[5]))
    if k == "trace":
        return "CTrace %s %s %s %s" % (g_bytes(s[1]), g_opt(g_bytes, s[2]), g_bool(s[3]), g_list(g_event, s[4]))
    if k == "serve":
        pair = lambda a: "(%s, %s)" % (g_bytes(a[0]), g_bytes(a[1]))
        return "CServe %s %s %s" % (g_list(pair, s[1]), g_list(pair, s[2]), g_list(lambda r: g_list(g_bytes, r), s[3]))
    raise Bad("case kind " + str(k))


def crosscheck(pid, suite, cases_path, model_path, seed, count, max_len=2500, timeout=600):
    """returns (checked, mismatches, note)"""
    cases = open(cases_path).read().split("\n")
    models = open(model_path).read().split("\n")
    idx = [i for i, c in enumerate(cases) if c and len(c) <= max_len and i < len(models)]
    # evaluation inside Coq is slow on long histories (SHA-256 in Gallina): sample among the shorter half
    idx.sort(key=lambda i: len(cases[i]))
    idx = idx[:max(count * 4, len(idx) // 2)]
    rng = random.Random(seed * 1009 + sum(map(ord, suite)))
    rng.shuffle(idx)
    chosen, terms = [], []
    for i in idx:
        if len(chosen) >= count:
            break
        try:
            terms.append(g_case(parse_sexp(cases[i])))
            chosen.append(i)
        except (Bad, KeyError, IndexError, ValueError):
            continue
    if not chosen:
        return 0, [], "no case small enough"
    vdir = os.path.join(WORK, "vm")
    os.makedirs(vdir, exist_ok=True)
    vname = f"Vm_{pid}_{suite}".replace("-", "_")
    vpath = os.path.join(vdir, vname + ".v")
    with open(vpath, "w") as f:
        f.write("From Coq Require Import List NArith.\nImport ListNotations.\n")
        f.write("From Ruler Require Import Bytes RuleSyntax Protocol Entry.\nLocal Open Scope N_scope.\n")
        for j, t in enumerate(terms):
            f.write(f"Definition vmcase_{j} : case := {t}.\n")
            f.write(f'Goal True. idtac "@@CASE {j}". exact I. Qed.\nEval vm_compute in (run_case vmcase_{j}).\n')
        f.write('Goal True. idtac "@@END". exact I. Qed.\n')
    try:
        # vm_compute on long histories needs a deep C stack
        p = subprocess.run(["bash", "-c", f"ulimit -s unlimited 2>/dev/null || ulimit -s 1000000 2>/dev/null; exec coqc -noglob -Q '{COQ}' Ruler '{vpath}'"],
                           cwd=vdir, stdout=subprocess.PIPE, stderr=subprocess.STDOUT, text=True, timeout=timeout)
    except subprocess.TimeoutExpired:
        return 0, [{"suite": suite, "what": "coqc timed out on the vm_compute cross-check"}], "timeout"
    if p.returncode != 0:
        if "Stack overflow" in p.stdout and max_len > 600:
            # a resource limit of this machine, not a disagreement: retry with smaller cases
            return crosscheck(pid, suite, cases_path, model_path, seed, count, max_len // 2, timeout)
        if "Stack overflow" in p.stdout:
            return 0, [], "stack overflow inside coqc even on small cases"
        return 0, [{"suite": suite, "what": "coqc failed on the vm_compute cross-check: " + p.stdout[-800:]}], "coqc failed"
    blocks = re.split(r"@@CASE (\d+)", p.stdout)
    mismatches = []
    checked = 0
    for b in range(1, len(blocks) - 1, 2):
        j = int(blocks[b])
        body = blocks[b + 1].split("@@END")[0]
        m = re.search(r"=\s*(\[.*?\])\s*:\s*(?:list N|bytes)", body, flags=re.S)
        if not m:
            mismatches.append({"suite": suite, "what": f"could not read Coq's output for case {chosen[j]}"})
            continue
        nums = re.findall(r"\d+", m.group(1))
        text = bytes(int(x) & 255 for x in nums).decode("latin1")
        checked += 1
        if text != models[chosen[j]]:
            mismatches.append({"suite": suite, "what": f"vm_compute inside Coq and the extracted OCaml model disagree on case {chosen[j]}",
                               "case": cases[chosen[j]][:2000], "coq": text[:1500], "ocaml": models[chosen[j]][:1500]})
    return checked, mismatches, ""
