HOOK_COMMITS = ["17dd6ad"]

def check(pid, category, text, note, technique, design_ref):
    return {
        "property_id": pid,
        "quick_cmd": f"./check {pid} --tier quick",
        "thorough_cmd": f"./check {pid} --tier thorough",
        "evidence_file": f"/verif/evidence/{pid}.json",
        "replay_cmd_template": "./check %s --replay {path}" % pid,
        "engine": "coq+harness",
        "level_claimed": {"category": category, "text": text, "design_ref": design_ref},
        "level_note": note,
        "technique": technique,
    }

CHECKS = [
    check("C07", "proof",
          "Coq theorems: a disk invariant (unique mtimes, sound remembered states, content-addressed cache, sound table) holds of the empty world, is preserved by EVERY primitive action on shared state (back-up, restore, command/user writes, state-file writes, deletions) and therefore after any sequence of them — every interleaving of the rule threads and every prefix of it (crash point); remembered states of a thread stay sound while others act; the modelled build and clean are such sequences; hence the cache is content-addressed after every history over the C01 alphabet, for any hash type (no collision assumption needed). Model tied to the code by histories and crash-point enumeration on an instrumented in-memory System, with the cache listing compared literally (43-character names) and every name recomputed from the bytes.",
          "Trusted: Coq kernel, extraction, harness (MemSys fidelity to the real file system), that the implementation's threads perform only the modelled primitive actions (proved for the sequential model, sampled for the code); fine clock assumption from the property; correspondence is sampling.",
          "Coq proof (invariant preserved by every step of a primitive-action LTS; induction over histories) + differential correspondence on histories and crash points",
          "DESIGN.md 5 C07"),
    check("C08", "proof",
          "Coq theorems: at every state satisfying the disk invariant (every reachable state under any schedule, by C07) every action of ruler itself — back-up, restore into a target path, state-file write, directory creation — keeps every content that is in the cache or at a declared target path (an overwritten cache entry holds the same content, by content addressing and injectivity of the hash; restores go to empty paths); the unrestricted literal statement is refuted with a witness, and the general form (content stays protected or sits at a formerly empty path) is proved. Whole builds with deterministic commands are monitored (content-set inclusion before/after every build and clean, at every crash point, no rename over different content), not proved.",
          "Trusted: as C07; collision freedom idealised; commands atomic and deterministic (property's assumption) for the monitored whole-build form.",
          "Coq proof (per-step content monotonicity under the disk invariant) + monitors and differential correspondence on histories and crash points",
          "DESIGN.md 5 C08"),
    check("C12", "proof",
          "Coq theorems about the sorter model (the same iterative DFS machine as sort.rs: frame buffer, explicit stack, indices_in_stack, reverser, final_index) against a declarative reachability specification, for ALL rule lists and goals: totality; acceptance IFF (no duplicate target, goal is a target, no reachable cycle); each error kind is sound (duplicate occurs twice, goal is no target, self-dependent rule in scope, a cycle is reachable); on success the plan is exactly the in-scope rules once each, every Pair(i,sub) points to an earlier node whose sub-th target is that source, every Leaf names a non-target source, leaves exact and duplicate-free; the result is invariant under permuting the input rules. Proof by a 17-component machine invariant. Model tied to topological_sort{,_all} by exact comparison on every small graph and random large ones, with an independent plan checker.",
          "Trusted: Coq kernel, extraction, harness; std collections modelled by lists; correspondence is sampling (exhaustive up to 4 rules).",
          "Coq proof (machine invariant over the DFS, measure for termination, sort/permutation lemmas) + differential correspondence, exhaustive on small graphs",
          "DESIGN.md 5 C12"),
    check("C13", "proof",
          "Coq theorems: the hashed serialisation of a rule is injective on everything the parser can produce (proved: parse only returns rules with non-empty, newline-free strings), canonical forms coincide iff targets and sources are permutations of each other and the command lines are equal in order, re-ordering never changes the identity; a refutation outside the parser's range shows the hypothesis is needed. Model tied to Rule::get_ticket by differential runs on near-miss pairs, with a monitor comparing identities against the property's own 'same rule'.",
          "Trusted: Coq kernel, extraction, harness; SHA-256 collision freedom idealised (theorems speak about preimages); correspondence is sampling.",
          "Coq proof (injectivity of the section serialisation by induction; sort/permutation lemmas) + differential correspondence on near-miss rule pairs",
          "DESIGN.md 5 C13"),
    check("C14", "proof",
          "Coq theorems about the parser model for all texts: totality (the bundle parser's fuel is never exhausted), every state-machine error carries the right line, several files = concatenation with first error, round trip of every well-formed flat file under all blank-line / final-newline choices with duplicates merged and paths in bytewise order, independence of line order, round trip of tab-indented bundles (distinct sibling names) and of rules whose sections are bundles, and a general round-trip for any rule text whose blocks the bundle parser accepts. Model tied to rule::parse / parse_all / PathBundle::parse_lines by exact comparison of Results on rendered ASTs, single-edit corruptions, truncations, soup and exhaustive short texts.",
          "Trusted: Coq kernel, extraction, harness; panic freedom of the Rust code is observed, not proved; repeated identical directory subtrees and exact bundle errors are covered by correspondence only; correspondence is sampling.",
          "Coq proof (state-machine invariants, nested induction over bundle forests, sort/permutation lemmas) + differential correspondence of parse results",
          "DESIGN.md 5 C14"),
    check("C15", "proof",
          "Coq theorems for all 256-bit values and all byte strings: decode62(encode62 b)=b, everything accepted is a true encoding, exact classification of rejected strings (length, first foreign character, overflow), chunking-independence of the file hash, injectivity of the directory preimage. Model tied to src/ticket.rs by differential runs (base-62 both ways incl. overflow band and multi-byte input; TicketFactory::from_file on every length 0..1100 under six read chunkings vs the extracted Coq SHA-256).",
          "Trusted: Coq kernel, ExtrOcamlBasic extraction, harness; rust-crypto's SHA-256 is tested against the Coq implementation (FIPS vectors by vm_compute), not proved; correspondence is sampling.",
          "Coq proof (induction on digit lists, lia with div/mod) + differential correspondence of extracted model vs implementation",
          "DESIGN.md 5 C15"),
    check("C16", "proof",
          "Coq theorems for both state files, for all entry lists and all byte strings: de(ser l ++ rest) = (l, rest) for entries in any order; every strict prefix of a serialisation is rejected; whatever decodes is exactly the serialisation of the well-formed value returned (so damaged bytes give an error or different well-formed data, never the original and never junk). Proved once for an abstract codec (RT/LI/NE) and composed for u64, bool, 32-byte tickets, UTF-8 strings, vectors and maps. Model tied to bincode/serde as used by src/history.rs and src/current.rs by differential runs through ruler's own read/write functions (valid files, all prefixes, all single bit flips of small files, duplicate keys, hostile lengths, random bytes).",
          "Trusted: Coq kernel, extraction, harness; bincode 1.3 + serde are modelled, not verified; no-panic of the Rust readers is observed (catch_unwind), not proved; correspondence is sampling.",
          "Coq proof (codec combinators: round-trip + left-inverse => prefix rejection, injectivity) + differential correspondence of extracted decoder vs ruler's readers/writers",
          "DESIGN.md 5 C16"),
]

_PENDING = "not yet claimed: model, theorems and correspondence for this property are still being built (see DESIGN.md section 12)"
NOT_APPLICABLE = [{"property_id": f"C{n:02d}", "reason": _PENDING} for n in range(1, 21) if f"C{n:02d}" not in {c["property_id"] for c in CHECKS}]
