#!/bin/bash
# One-off measurement (not part of any check): which lines of /repo/src do the harness suites execute?
# Builds the harness with the nightly toolchain and -C instrument-coverage into work/cov-target, runs every in-process
# suite at the quick tier, and prints llvm-cov's per-file report for /repo/src. Usage: checklib/coverage.sh
set -e
cd /verif
BIN=/root/.rustup/toolchains/nightly-x86_64-unknown-linux-gnu/lib/rustlib/x86_64-unknown-linux-gnu/bin
export CARGO_NET_OFFLINE=true
( cd harness && RUSTFLAGS="--cfg ruler_verif -C instrument-coverage" CARGO_TARGET_DIR=/verif/work/cov-target cargo +nightly build --offline 2>&1 | tail -1 )
rm -rf work/cov && mkdir -p work/cov/out
for s in c12_sorter c13_identity c13_shared c14_parser c14_files_bundles c15_base62 c15_sha c16_history c16_table hist c18_shortcut swap mixed c17_contradiction c10_clean_build sched crash crash_coarse c19_live memsys_selftest; do
  LLVM_PROFILE_FILE=/verif/work/cov/$s-%p.profraw work/cov-target/debug/harness $s --seed 1 --tier quick --out work/cov/out >/dev/null 2>&1 || echo "suite $s exited non-zero"
done
$BIN/llvm-profdata merge -sparse work/cov/*.profraw -o work/cov/all.profdata
$BIN/llvm-cov report work/cov-target/debug/harness -instr-profile=work/cov/all.profdata $(ls /repo/src/*.rs /repo/src/system/*.rs) 2>/dev/null | tee work/cov/report.txt
