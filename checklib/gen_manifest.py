#!/usr/bin/env python3
"""Regenerates MANIFEST.json from checklib/manifest_data.py (kept as data so it stays valid)."""
import json, os, sys
ROOT = os.path.dirname(os.path.dirname(os.path.abspath(__file__)))
sys.path.insert(0, ROOT)
from checklib.manifest_data import CHECKS, NOT_APPLICABLE, HOOK_COMMITS

manifest = {
    "version": 1,
    "setup_cmd": "./setup.sh",
    "hooks": {
        "guard": "--cfg ruler_verif",
        "enable": "RUSTFLAGS='--cfg ruler_verif' (set in /verif/harness/.cargo/config.toml; the harness compiles /repo/src/*.rs by #[path] inclusion)",
        "baseline_off_cmd": "cd /repo && cargo test --workspace --no-fail-fast --offline",
        "source_commits": HOOK_COMMITS,
        "add_only": True,
    },
    "engines": [
        {"name": "coq", "path": "coq/", "serves_properties": [c["property_id"] for c in CHECKS],
         "kind_free_text": "Coq 8.16.1 development: executable Gallina model of ruler, theorems per property (Properties/Cnn.v), extraction to OCaml"},
        {"name": "harness", "path": "harness/", "serves_properties": [c["property_id"] for c in CHECKS],
         "kind_free_text": "Rust crate compiling /repo/src by #[path]: MemSys, scheduler shim, generators, monitors; differential run against the extracted model"},
    ],
    "checks": CHECKS,
    "not_applicable": NOT_APPLICABLE,
    "notes": "Every check is `./check <id> --tier quick|thorough`; see DESIGN.md. Known findings: known_findings.json.",
}
open(os.path.join(ROOT, "MANIFEST.json"), "w").write(json.dumps(manifest, indent=1) + "\n")
print("MANIFEST.json written:", len(CHECKS), "checks,", len(NOT_APPLICABLE), "not claimed")
