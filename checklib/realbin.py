"""Runners that drive the real `ruler` binary (built from /repo's working tree, no cfg flags) on the real
file system and over loopback HTTP: the real-file-system half of C10, `ruler hash` for C15, `ruler serve`
for C19. Each suite returns the same structure as the harness suites: stats (counts, samples, monitor
violations) and model/implementation differences."""
import hashlib
import http.client
import json
import os
import random
import re
import shutil
import socket
import subprocess
import time
import urllib.parse

ROOT = os.path.dirname(os.path.dirname(os.path.abspath(__file__)))
WORK = os.path.join(ROOT, "work")
RULER = os.path.join(WORK, "ruler-target", "debug", "ruler")
DRIVER = os.path.join(WORK, "driver")
ALPHABET = "0123456789abcdefghijklmnopqrstuvwxyzABCDEFGHIJKLMNOPQRSTUVWXYZ"


def ensure_ruler():
    env = dict(os.environ, CARGO_NET_OFFLINE="true")
    p = subprocess.run(["cargo", "build", "--offline", "--manifest-path", "/repo/Cargo.toml",
                        "--target-dir", os.path.join(WORK, "ruler-target")],
                       stdout=subprocess.PIPE, stderr=subprocess.STDOUT, text=True, env=env, timeout=2400)
    return p.returncode, p.stdout


def enc62(digest):
    n = int.from_bytes(digest, "little")
    out = []
    for _ in range(43):
        out.append(ALPHABET[n % 62])
        n //= 62
    return "".join(out)


def name_of(content):
    return enc62(hashlib.sha256(content).digest())


def hx(b):
    if isinstance(b, str):
        b = b.encode()
    return "x" + b.hex()


# ---------------------------------------------------------------------------------------------------
# scenarios: the same rule graph rendered in the mini-language (for the model) and as sh (for the binary)
# ---------------------------------------------------------------------------------------------------

class Rule:
    def __init__(self, targets, sources, script):
        self.targets, self.sources, self.script = targets, sources, script   # script: list of (op, args)

    def mini_lines(self):
        out = []
        for i, (op, args) in enumerate(self.script):
            if i:
                out.append(";")
            if op == "gen":
                out.append("gen " + args[0] + "".join(" " + ("=" + a[1] if a[0] == "lit" else "@" + a[1]) for a in args[1]))
            elif op == "chmod":
                out.append("chmod " + args[0])
            elif op == "fail":
                out.append("fail")
        return out

    def sh_lines(self):
        out = []
        for i, (op, args) in enumerate(self.script):
            if i:
                out.append(";")
            if op == "gen":
                parts = "; ".join(("printf '%s' '" + a[1] + "'") if a[0] == "lit" else ("cat " + a[1]) for a in args[1]) or "true"
                out.append("{ " + parts + "; } > " + args[0])
            elif op == "chmod":
                out.append("chmod +x " + args[0])
            elif op == "fail":
                out.append("false")
        return out


def render(rules, mini):
    text = ""
    for i, r in enumerate(rules):
        if i:
            text += "\n"
        text += "".join(t + "\n" for t in r.targets) + ":\n" + "".join(s + "\n" for s in r.sources) + ":\n"
        text += "".join(l + "\n" for l in (r.mini_lines() if mini else r.sh_lines())) + ":\n"
    return text


def gen_rules(rng, max_rules, unique):
    n = rng.randint(1, max_rules)
    leaves = ["a", "b", "c"][:rng.randint(1, 3)]
    rules = []
    for i in range(n):
        base = "PQRSTUVW"[i]
        targets = [base] + ([base + ".1"] if rng.random() < 0.25 else [])
        sources = [l for l in leaves if rng.random() < 0.5]
        for r in rules:
            for t in r.targets:
                if rng.random() < 0.3:
                    sources.append(t)
        if not sources:
            sources.append(rng.choice(leaves))
        script = []
        for t in targets:
            pieces = []
            if unique:
                pieces.append(("lit", t))
            elif rng.random() < 0.4:
                pieces.append(("lit", rng.choice(["t", "u", "X"])))
            shape = rng.random()
            if shape < 0.1:
                pieces.append(("lit", rng.choice(["X", "Y"])))
            elif shape < 0.2:
                pieces.append(("file", rng.choice(sources)))
            else:
                pieces.extend(("file", s) for s in sources)
            script.append(("gen", (t, pieces)))
            if rng.random() < 0.2:
                script.append(("chmod", (t,)))
        rules.append(Rule(targets, sources, script))
    rng.shuffle(rules)
    return rules, leaves


def scope_targets(rules, goal):
    owner = {t: r for r in rules for t in r.targets}
    if goal is None:
        return set(owner)
    seen, work = [], [owner[goal]]
    while work:
        r = work.pop()
        if r in seen:
            continue
        seen.append(r)
        for s in r.sources:
            if s in owner:
                work.append(owner[s])
    return {t for r in seen for t in r.targets}


# ---------------------------------------------------------------------------------------------------
# a scratch workspace on the real file system
# ---------------------------------------------------------------------------------------------------

class Workspace:
    counter = 0

    def __init__(self, tag):
        Workspace.counter += 1
        self.dir = os.path.join(WORK, f"run-{tag}-{os.getpid()}-{Workspace.counter}")
        shutil.rmtree(self.dir, ignore_errors=True)
        os.makedirs(self.dir)

    def close(self):
        shutil.rmtree(self.dir, ignore_errors=True)

    def path(self, p):
        return os.path.join(self.dir, p)

    def write(self, p, content):
        time.sleep(0.002)
        with open(self.path(p), "wb") as f:
            f.write(content)

    def remove(self, p):
        try:
            os.remove(self.path(p))
        except FileNotFoundError:
            pass

    def chmod(self, p, x):
        if os.path.exists(self.path(p)):
            mode = os.stat(self.path(p)).st_mode
            os.chmod(self.path(p), (mode | 0o111) if x else (mode & ~0o111))

    def ruler(self, args, timeout=120):
        time.sleep(0.002)
        p = subprocess.run([RULER] + args, cwd=self.dir, stdout=subprocess.PIPE, stderr=subprocess.PIPE, timeout=timeout)
        banners = []
        for line in p.stdout.decode("utf8", "replace").split("\n"):
            clean = re.sub(r"\x1b\[[0-9;]*m", "", line)
            m = re.match(r"^\s*(Built|Recovered|Up-to-date|Outdated|Downloaded): (.*)$", clean)
            if m:
                banners.append((m.group(1), m.group(2)))
        return p.returncode, banners, p.stderr.decode("utf8", "replace")

    def listing(self):
        files, cache, hist = {}, None, None
        for name in sorted(os.listdir(self.dir)):
            full = self.path(name)
            if os.path.isfile(full):
                files[name] = (open(full, "rb").read(), bool(os.stat(full).st_mode & 0o111))
        cdir = self.path(".ruler/cache")
        if os.path.isdir(cdir):
            cache = {n: (open(os.path.join(cdir, n), "rb").read(), bool(os.stat(os.path.join(cdir, n)).st_mode & 0o111))
                     for n in sorted(os.listdir(cdir)) if os.path.isfile(os.path.join(cdir, n))}
        hdir = self.path(".ruler/history")
        if os.path.isdir(hdir):
            hist = {n: open(os.path.join(hdir, n), "rb").read() for n in sorted(os.listdir(hdir))}
        return files, cache, hist


def show_files(files, skip=("build.rules",)):
    return "(l" + "".join(f" ({hx(p)} {hx(c)} {'T' if x else 'F'})" for p, (c, x) in sorted(files.items()) if p not in skip) + ")"


def show_cache(cache):
    if cache is None:
        return "none"
    return "(l" + "".join(f" ({hx(n)} {hx(c)} {'T' if x else 'F'})" for n, (c, x) in sorted(cache.items())) + ")"


def split_top(text):
    text = text.strip()
    if not (text.startswith("(") and text.endswith(")")):
        return [text]
    items, depth, cur = [], 0, []
    for ch in text[1:-1]:
        if ch == "(":
            depth += 1
        elif ch == ")":
            depth -= 1
        if ch == " " and depth == 0:
            if cur:
                items.append("".join(cur))
                cur = []
        else:
            cur.append(ch)
    if cur:
        items.append("".join(cur))
    return items


def run_model(lines):
    p = subprocess.run([DRIVER], input="\n".join(lines) + "\n", stdout=subprocess.PIPE, stderr=subprocess.PIPE, text=True, timeout=1200)
    return p.stdout.split("\n")[:len(lines)]


def drop_rules_file(files_sexp):
    items = split_top(files_sexp)
    return "(" + " ".join(i for i in items if not i.startswith("(" + hx("build.rules") + " ")) + ")"


class Result:
    def __init__(self, suite):
        self.suite = suite
        self.counts, self.samples, self.violations, self.diffs = {}, [], [], []
        self.evaluations = 0
        self.nontrivial = set()

    def count(self, k):
        self.counts[k] = self.counts.get(k, 0) + 1

    def violation(self, signature, message, replay):
        self.violations.append({"signature": signature, "message": message, "replay": replay})

    def as_dict(self):
        return {"suite": self.suite, "diffs": self.diffs,
                "stats": {"suite": self.suite, "evaluations": self.evaluations, "distinct": len(self.nontrivial),
                          "distinct_nontrivial": len(self.nontrivial), "counts": self.counts,
                          "samples": self.samples[:4], "extra": {}, "violations": self.violations}}


# ---------------------------------------------------------------------------------------------------
# C10 on the real file system
# ---------------------------------------------------------------------------------------------------

def suite_c10(seed, thorough):
    rng = random.Random(seed * 7919 + 10)
    res = Result("real_c10")
    n = 120 if thorough else 10
    for k in range(n):
        unique = k % 2 == 0
        rules, leaves = gen_rules(rng, 5 if thorough else 4, unique)
        targets = sorted(t for r in rules for t in r.targets)
        ops = [("write", "build.rules", None)] + [("write", l, rng.choice(["X", "Y", "Z", "XY"]).encode()) for l in leaves]
        if rng.random() < 0.3:
            ops.append(("build", rng.choice(targets)))
        ops.append(("build", None))
        if rng.random() < 0.4:
            ops.append(("chmod", rng.choice(targets), True))
        clean_goal = rng.choice([None] + targets)
        build_goal = rng.choice([None] + targets)
        ops += [("clean", clean_goal), ("build", build_goal)]
        ws = Workspace("c10")
        try:
            impl_obs, model_ops, log = [], [], []
            before_clean = None
            for op in ops:
                if op[0] == "write":
                    content = render(rules, False).encode() if op[1] == "build.rules" else op[2]
                    ws.write(op[1], content)
                    mcontent = render(rules, True).encode() if op[1] == "build.rules" else op[2]
                    model_ops.append(f"(write {hx(op[1])} {hx(mcontent)})")
                    impl_obs.append(None)
                elif op[0] == "chmod":
                    ws.chmod(op[1], op[2])
                    model_ops.append(f"(chmod {hx(op[1])} {'T' if op[2] else 'F'})")
                    impl_obs.append(None)
                else:
                    if op[0] == "clean":
                        before_clean = ws.listing()
                    goal = op[1]
                    rc, banners, err = ws.ruler([op[0]] + ([goal] if goal else []))
                    model_ops.append(f"({op[0]} {'none' if goal is None else '(some ' + hx(goal) + ')'})")
                    impl_obs.append((op, banners, err.strip()))
                files, cache, hist = ws.listing()
                log.append((op, files, cache))
            # ---- model ----
            case = f"(history F #1000000 (l {' '.join(model_ops)}))"
            model_out = run_model([case])[0]
            mobs = split_top(model_out)[1:]
            res.evaluations += 1
            res.nontrivial.add(hash(case))
            replay = {"suite": "real_c10", "rules_sh": render(rules, False), "ops": [str(o) for o in ops], "case": case}
            if len(res.samples) < 3:
                res.samples.append({"ops": [str(o) for o in ops], "rules": render(rules, False)})
            for idx, ((op, files, cache), io, mo) in enumerate(zip(log, impl_obs, mobs)):
                cols = split_top(mo)
                if len(cols) != 8:
                    res.diffs.append({"index": idx, "case": case[:3000], "impl": "?", "model": mo[:500]})
                    break
                m_verdict, m_status, m_files, m_cache = cols[1], cols[3], drop_rules_file(cols[4]), cols[5]
                i_files, i_cache = show_files(files), show_cache(cache)
                bad = None
                if i_files != m_files:
                    bad = ("files", i_files, m_files)
                elif i_cache != m_cache:
                    bad = ("cache", i_cache, m_cache)
                elif io is not None:
                    i_status = "(l" + "".join(f" ({b} {hx(p)})" for b, p in io[1]) + ")"
                    # byte-identical targets race for one cache entry under the OS scheduler (see real_hist below): then only
                    # the reported paths, in order, are compared
                    contents = [files[p][0] for _, p in io[1] if p in files]
                    if len(set(contents)) < len(contents):
                        res.count("status:racing-identical-targets")
                        i_paths = [hx(p) for _, p in io[1]]
                        m_paths = [x.strip("()").split(" ")[1] for x in split_top(m_status)[1:]]
                        if i_paths != m_paths:
                            bad = ("status-paths", str(i_paths), str(m_paths))
                    elif i_status != m_status:
                        bad = ("status", i_status, m_status)
                    elif (io[2] == "") != (m_verdict == "ok"):
                        bad = ("verdict", io[2] or "ok", m_verdict)
                if bad and bad[0] in ("cache", "status", "status-paths") and i_files == m_files:
                    # see real_hist: byte-identical contents race for one cache entry under the OS scheduler
                    def twins10(fs, ch):
                        cs = [c for p, (c, _) in (fs or {}).items() if p not in ("build.rules", "a", "b", "c")] + [c for _, (c, _) in (ch or {}).items()]
                        return len(set(cs)) < len(cs)
                    prev10 = log[idx - 1] if idx > 0 else (None, {}, {})
                    if twins10(files, cache) or twins10(prev10[1], prev10[2]):
                        res.count("not-compared-further:byte-identical-contents-race-under-the-os-scheduler")
                        break
                if bad:
                    res.diffs.append({"index": idx, "case": case[:3000], "impl": f"{bad[0]}: {bad[1][:1500]}", "model": f"{bad[0]}: {bad[2][:1500]}"})
                    break
            # ---- monitors (property text, no model) ----
            (_, files_after_clean, cache_after_clean) = log[-2]
            (_, files_end, _) = log[-1]
            clean_scope = scope_targets(rules, clean_goal)
            build_scope = scope_targets(rules, build_goal)
            res.count(f"clean:{'goal' if clean_goal else 'all'}-build:{'goal' if build_goal else 'all'}")
            for t in clean_scope:
                if t in files_after_clean:
                    res.violation("C10:target-survives-clean", f"real file system: {t} still exists after clean", replay)
                if t in before_clean[0] and not any(c == before_clean[0][t][0] for c, _ in (cache_after_clean or {}).values()):
                    res.violation("C10:cleaned-content-not-in-cache", f"real file system: the content of {t} is not in the cache after clean", replay)
            if impl_obs[-1][2] != "":
                res.violation("C10:build-after-clean-fails", f"real file system: the build after the clean reports: {impl_obs[-1][2][:300]}", replay)
            for t in build_scope:
                if t not in files_end:
                    res.violation("C10:target-not-brought-back", f"real file system: {t} is missing after the build that follows the clean", replay)
                elif files_end[t][0] != before_clean[0][t][0]:
                    res.violation("C10:target-not-identical", f"real file system: {t} came back with different content", replay)
                elif unique and files_end[t][1] != before_clean[0][t][1]:
                    res.violation("C10:permission-lost", f"real file system: {t} came back with executable={files_end[t][1]} instead of {before_clean[0][t][1]}", replay)
            contents = [before_clean[0][t][0] for t in clean_scope if t in before_clean[0]]
            if len(set(contents)) == len(contents) and any(b == "Built" for b, _ in impl_obs[-1][1]):
                res.violation("C10:command-ran-after-clean", "real file system: cleaned contents are pairwise different, yet the build after the clean reports Built", replay)
        finally:
            ws.close()
    return res.as_dict()



# ---------------------------------------------------------------------------------------------------
# general histories on the real file system: the real binary (main.rs argument handling, RealSystem, /bin/sh,
# OS threads under the OS scheduler) against the model, op by op
# ---------------------------------------------------------------------------------------------------

def suite_hist(seed, thorough):
    rng = random.Random(seed * 7919 + 1)
    res = Result("real_hist")
    n = 150 if thorough else 12
    for k in range(n):
        rules, leaves = gen_rules(rng, 5 if thorough else 4, k % 2 == 0)
        # a failing rule now and then: its command exits non-zero after (not) writing
        if rng.random() < 0.3:
            r = rng.choice(rules)
            r.script = [("fail", ())] if rng.random() < 0.5 else r.script + [("fail", ())]
        targets = sorted(t for r in rules for t in r.targets)
        ops = [("write", "build.rules", None)] + [("write", l, rng.choice(["X", "Y", "Z", "XY"]).encode()) for l in leaves]
        for _ in range(rng.randint(4, 12 if thorough else 9)):
            roll = rng.random()
            if roll < 0.40:
                ops.append(("build", rng.choice([None, None] + targets)))
            elif roll < 0.50:
                ops.append(("clean", rng.choice([None] + targets)))
            elif roll < 0.68:
                ops.append(("write", rng.choice(leaves), rng.choice(["X", "Y", "Z", "XY", ""]).encode()))
            elif roll < 0.76:
                ops.append(("write", rng.choice(targets), b"tampered"))
            elif roll < 0.84:
                ops.append(("rm", rng.choice(targets + leaves)))
            elif roll < 0.90:
                ops.append(("chmod", rng.choice(targets), rng.random() < 0.7))
            elif roll < 0.94:
                ops.append(("rmruler",))
            elif roll < 0.97:
                ops.append(("rmcachedir",))
            else:
                ops.append(("rmtable",))
        ops.append(("build", None))
        ws = Workspace("hist")
        try:
            impl_obs, model_ops, log = [], [], []
            for op in ops:
                io = None
                if op[0] == "write":
                    content = render(rules, False).encode() if op[1] == "build.rules" else op[2]
                    ws.write(op[1], content)
                    mcontent = render(rules, True).encode() if op[1] == "build.rules" else op[2]
                    model_ops.append(f"(write {hx(op[1])} {hx(mcontent)})")
                elif op[0] == "rm":
                    ws.remove(op[1]); model_ops.append(f"(rm {hx(op[1])})")
                elif op[0] == "chmod":
                    ws.chmod(op[1], op[2]); model_ops.append(f"(chmod {hx(op[1])} {'T' if op[2] else 'F'})")
                elif op[0] == "rmruler":
                    shutil.rmtree(ws.path(".ruler"), ignore_errors=True); model_ops.append("(rmruler)")
                elif op[0] == "rmcachedir":
                    shutil.rmtree(ws.path(".ruler/cache"), ignore_errors=True); model_ops.append("(rmcachedir)")
                elif op[0] == "rmtable":
                    ws.remove(".ruler/current_file_states"); model_ops.append("(rmtable)")
                else:
                    goal = op[1]
                    rc, banners, err = ws.ruler([op[0]] + ([goal] if goal else []))
                    model_ops.append(f"({op[0]} {'none' if goal is None else '(some ' + hx(goal) + ')'})")
                    io = (op, banners, err.strip(), rc)
                impl_obs.append(io)
                files, cache, hist = ws.listing()
                log.append((op, files, cache, hist))
            case = f"(history F #1000000 (l {' '.join(model_ops)}))"
            model_out = run_model([case])[0]
            mobs = split_top(model_out)[1:]
            res.evaluations += 1
            res.nontrivial.add(hash(case))
            res.count(f"ops:{min(len(ops), 20) // 5 * 5}")
            replay = {"suite": "real_hist", "rules_sh": render(rules, False), "ops": [str(o) for o in ops], "case": case}
            if len(res.samples) < 3:
                res.samples.append({"ops": [str(o) for o in ops], "rules": render(rules, False)})
            for idx, ((op, files, cache, hist), io, mo) in enumerate(zip(log, impl_obs, mobs)):
                cols = split_top(mo)
                if len(cols) != 8:
                    res.diffs.append({"index": idx, "case": case[:3000], "impl": "?", "model": mo[:500]})
                    break
                m_verdict, m_status, m_files, m_cache, m_hist = cols[1], cols[3], drop_rules_file(cols[4]), cols[5], cols[6]
                i_files, i_cache = show_files(files), show_cache(cache)
                bad = None
                if i_files != m_files:
                    bad = ("files", i_files, m_files)
                elif i_cache != m_cache:
                    bad = ("cache", i_cache, m_cache)
                else:
                    # history files: the same NUMBER of rule histories (the names are hashes of the rules, whose command
                    # text is sh here and the mini-language in the model; contents are compared by the in-memory suites)
                    i_names = None if hist is None else len([n for n in hist if not n.endswith(".partial")])
                    m_names = None if m_hist == "none" else len(split_top(m_hist)[1:])
                    if i_names != m_names:
                        bad = ("history-files", str(i_names), str(m_names))
                if not bad and io is not None:
                    res.count("invocations")
                    i_status = sorted(f"({b} {hx(p)})" for b, p in io[1])
                    m_stat = sorted(split_top(m_status)[1:])
                    # Rules whose targets are byte-identical race for ONE cache entry under the OS scheduler: which of them
                    # is Recovered and which runs its command (Built, for all its targets) depends on the schedule, while
                    # verdict and file contents do not (Properties/C06 racing_rules_example; the model is the serial
                    # schedule). When two reported targets hold the same bytes, only the set of reported paths is compared.
                    reported = [p for _, p in io[1]]
                    contents = [files[p][0] for p in reported if p in files]
                    racing = len(set(contents)) < len(contents)
                    if racing:
                        res.count("status:racing-identical-targets")
                        i_paths = sorted(hx(p) for p in reported)
                        m_paths = sorted(x.strip("()").split(" ")[1] for x in m_stat)
                        if i_paths != m_paths:
                            bad = ("status-paths", str(i_paths), str(m_paths))
                    elif i_status != m_stat:
                        bad = ("status", str(i_status), str(m_stat))
                    elif (io[3] == 0 and io[2] == "") != (m_verdict == "ok"):
                        bad = ("verdict", f"exit {io[3]} stderr {io[2][:200]!r}", m_verdict)
                    else:
                        res.count("verdict:" + ("ok" if m_verdict == "ok" else "not-ok"))
                if bad and bad[0] in ("cache", "status", "status-paths", "history-files") and i_files == m_files:
                    # The real binary runs its rule threads under the OS scheduler; the model is the serial schedule. Verdict and
                    # workspace files do not depend on the schedule (C06), but when byte-identical contents are around (two
                    # targets, a leftover of a failing rule, a tampered file: one cache entry per content) WHO restores the entry,
                    # who rebuilds and whether the entry is left behind do. Such a history is not compared any further.
                    def twins(fs, ch):
                        cs = [c for p, (c, _) in (fs or {}).items() if p not in ("build.rules", "a", "b", "c")] + [c for _, (c, _) in (ch or {}).items()]
                        return len(set(cs)) < len(cs)
                    prev = log[idx - 1] if idx > 0 else (None, {}, {}, None)
                    if twins(files, cache) or twins(prev[1], prev[2]):
                        res.count("not-compared-further:byte-identical-contents-race-under-the-os-scheduler")
                        break
                if bad:
                    res.diffs.append({"index": idx, "case": case[:3000], "impl": f"{bad[0]}: {bad[1][:1500]}", "model": f"{bad[0]}: {bad[2][:1500]}"})
                    break
                # C07 on the real file system
                for name, (content, _) in (cache or {}).items():
                    if name != name_of(content):
                        res.violation("C07:cache-entry-misnamed", f"real file system: cache entry {name} holds content whose hash is {name_of(content)}", replay)
                        break
        finally:
            ws.close()
    return res.as_dict()

# ---------------------------------------------------------------------------------------------------
# C15: `ruler hash` on the real file system
# ---------------------------------------------------------------------------------------------------

def ref_tree_hash(path, rel):
    """reference for TicketFactory::from_path: file = sha256(bytes); directory = sha256(join('\\n', listed
    paths) + child hashes), children listed as <rel>/<name>, sorted"""
    if os.path.isfile(path):
        return hashlib.sha256(open(path, "rb").read()).digest()
    names = sorted(os.listdir(path))
    listed = sorted(rel + "/" + n for n in names)
    h = hashlib.sha256("\n".join(listed).encode())
    for l in listed:
        h.update(ref_tree_hash(os.path.join(path, os.path.basename(l)), l))
    return h.digest()


def suite_c15(seed, thorough):
    rng = random.Random(seed * 7919 + 15)
    res = Result("real_c15")
    ws = Workspace("c15")
    try:
        sizes = [0, 1, 55, 56, 63, 64, 65, 255, 256, 257, 511, 512, 513, 1023, 1024, 1025, 4096, 70000]
        if thorough:
            sizes += [rng.randint(0, 300000) for _ in range(40)] + list(range(240, 272))
        for i, size in enumerate(sizes):
            content = bytes(rng.getrandbits(8) for _ in range(size)) if i % 2 else b"\0" * size
            p = f"f{i}"
            ws.write(p, content)
            rc, _, err = ws.ruler(["hash", p])
            out = subprocess.run([RULER, "hash", p], cwd=ws.dir, stdout=subprocess.PIPE).stdout.decode().strip()
            res.evaluations += 1
            res.nontrivial.add(size)
            res.count("file")
            if out != name_of(content):
                res.violation("C15:file-hash-not-sha256", f"`ruler hash` of a {size}-byte file prints {out}, SHA-256 in base-62 is {name_of(content)}", {"size": size})
        # directories: single-point changes must change the hash
        os.makedirs(ws.path("d/sub/deep"))
        ws.write("d/one", b"1")
        ws.write("d/sub/two", b"2")
        ws.write("d/sub/deep/three", b"3")
        def h():
            return subprocess.run([RULER, "hash", "d"], cwd=ws.dir, stdout=subprocess.PIPE).stdout.decode().strip()
        base = h()
        res.evaluations += 1
        if base != enc62(ref_tree_hash(ws.path("d"), "d")):
            res.violation("C15:directory-hash-layout", f"`ruler hash d` prints {base}, the documented layout gives {enc62(ref_tree_hash(ws.path('d'), 'd'))}", {"tree": "d"})
        changes = [("content", "d/sub/deep/three", b"4"), ("content", "d/one", b""), ("rename", "d/sub/two", "d/sub/tw0"), ("add", "d/sub/deep/new", b""), ("remove", "d/one", None)]
        seen = {base}
        for kind, p, arg in changes:
            if kind == "content" or kind == "add":
                ws.write(p, arg)
            elif kind == "rename":
                os.rename(ws.path(p), ws.path(arg))
            else:
                ws.remove(p)
            now = h()
            res.evaluations += 1
            res.count("dir-change:" + kind)
            if now in seen:
                res.violation("C15:directory-hash-unchanged", f"the directory hash did not change after a {kind} of {p}", {"change": [kind, p]})
            if now != enc62(ref_tree_hash(ws.path("d"), "d")):
                res.violation("C15:directory-hash-layout", f"`ruler hash d` differs from the documented layout after a {kind} of {p}", {"change": [kind, p]})
            seen.add(now)
        res.samples.append({"sizes": sizes[:12], "dir_changes": [c[:2] for c in changes]})
    finally:
        ws.close()
    return res.as_dict()


# ---------------------------------------------------------------------------------------------------
# C19: `ruler serve`
# ---------------------------------------------------------------------------------------------------

def free_port():
    s = socket.socket()
    s.bind(("127.0.0.1", 0))
    port = s.getsockname()[1]
    s.close()
    return port


def parse_history(raw):
    """independent decoder of the history layout: {key: [ticket, ...]} or None"""
    try:
        pos = 0
        def take(n):
            nonlocal pos
            if len(raw) - pos < n:
                raise ValueError
            b = raw[pos:pos + n]
            pos += n
            return b
        n = int.from_bytes(take(8), "little")
        out = {}
        for _ in range(n):
            k = take(32)
            m = int.from_bytes(take(8), "little")
            v = []
            for _ in range(m):
                t = take(32)
                take(8)
                if take(1)[0] > 1:
                    raise ValueError
                v.append(t)
            out[k] = v
        return out
    except ValueError:
        return None


def warp_segments(path):
    """what the handlers receive: the path (query dropped) split at '/', an optional single trailing slash
    dropped, no empty segment; warp hands the RAW segment to the String parameter (no percent-decoding:
    observed on the real server, and part of what this correspondence checks); None = no route"""
    path = path.split("?")[0]
    if not path.startswith("/"):
        return None
    parts = path.split("/")[1:]
    if parts and parts[-1] == "":
        parts = parts[:-1]
    if any(p == "" for p in parts):
        return None
    return [p.encode("ascii", "replace") for p in parts]


def get(port, path, method="GET"):
    conn = http.client.HTTPConnection("127.0.0.1", port, timeout=10)
    # the request line must be ASCII: anything else goes out percent-encoded
    path = "".join(c if ord(c) < 128 else urllib.parse.quote(c) for c in path)
    conn.request(method, path)
    r = conn.getresponse()
    body = r.read()
    conn.close()
    return r.status, body


def suite_c19(seed, thorough):
    rng = random.Random(seed * 7919 + 19)
    res = Result("real_c19")
    n_dirs = 40 if thorough else 4
    for k in range(n_dirs):
        rules, leaves = gen_rules(rng, 5, k % 2 == 0)
        targets = sorted(t for r in rules for t in r.targets)
        ws = Workspace("c19")
        server = None
        try:
            ws.write("build.rules", render(rules, False).encode())
            for l in leaves:
                ws.write(l, rng.choice(["X", "Y", "Z"]).encode())
            ws.write("secret.txt", b"must never be served")
            # a directory sitting where a target will be built: ruler moves it into the cache under its hash,
            # so the cache holds a directory entry, which must get a clean 404 like anything that is not a file
            if rng.random() < 0.6:
                dname = rng.choice(targets)
                os.makedirs(ws.path(dname))
                with open(ws.path(dname + "/inside.txt"), "wb") as f:
                    f.write(b"inside a directory")
            # a short build / clean history
            for _ in range(rng.randint(2, 6)):
                roll = rng.random()
                if roll < 0.5:
                    ws.ruler(["build"] + ([rng.choice(targets)] if rng.random() < 0.3 else []))
                elif roll < 0.7:
                    ws.ruler(["clean"] + ([rng.choice(targets)] if rng.random() < 0.3 else []))
                else:
                    ws.write(rng.choice(leaves), rng.choice(["X", "Y", "Z", "W"]).encode())
            ws.ruler(["build"])
            if rng.random() < 0.7:
                ws.ruler(["clean"])
            files, cache, hist = ws.listing()
            cache = cache or {}
            hist = hist or {}
            if rng.random() < 0.3 and hist:
                # a damaged history file must give 404, not a crash
                victim = rng.choice(sorted(hist))
                with open(ws.path(".ruler/history/" + victim), "wb") as f:
                    f.write(hist[victim][:max(0, len(hist[victim]) // 2)])
                hist[victim] = hist[victim][:max(0, len(hist[victim]) // 2)]
            port = free_port()
            server = subprocess.Popen([RULER, "serve", str(port)], cwd=ws.dir, stdout=subprocess.DEVNULL, stderr=subprocess.DEVNULL)
            for _ in range(100):
                try:
                    socket.create_connection(("127.0.0.1", port), timeout=0.2).close()
                    break
                except OSError:
                    time.sleep(0.05)
            # ---- requests ----
            reqs = []
            for name in cache:
                reqs.append("/files/" + name)
                reqs.append("/files/" + name + "/")
            cdir = ws.path(".ruler/cache")
            dir_entries = [n for n in sorted(os.listdir(cdir)) if os.path.isdir(os.path.join(cdir, n))] if os.path.isdir(cdir) else []
            for name in dir_entries:
                res.count("cache-entry-is-a-directory")
                reqs.append("/files/" + name)
                reqs.append("/files/" + name + "/inside.txt")
                reqs.append("/files/" + name + "%2Finside.txt")
            for hname, raw in hist.items():
                parsed = parse_history(raw)
                for key in (parsed or {}):
                    reqs.append(f"/rules/{hname}/{enc62(key)}")
                reqs.append(f"/rules/{hname}/{enc62(hashlib.sha256(b'no such sources').digest())}")
                reqs.append(f"/rules/{hname}")
            absent = enc62(hashlib.sha256(b"absent").digest())
            some = sorted(cache)[0] if cache else absent
            hostile = [
                "/files/" + absent, "/rules/" + absent + "/" + absent, "/files/" + some[:42], "/files/" + some + "0",
                "/files/" + "Z" * 43, "/files/" + "z" * 43 + "/extra", "/files//" + some, "//files/" + some,
                "/files/..%2F..%2Fsecret.txt", "/files/%2e%2e%2fsecret.txt", "/files/../../secret.txt", "/files/..",
                "/files/" + some.replace(some[3], "%" + format(ord(some[3]), "02x"), 1), "/files/" + "é" * 21 + "a",
                "/files/" + urllib.parse.quote("é" * 20 + "abc"), "/files/%ff" + some[1:], "/files/" + some[:-1] + "_",
                "/files/" + some[:-1] + "%2F", "/secret.txt", "/.ruler/cache/" + some, "/cache/" + some, "/files", "/rules", "/",
                "/files/" + some + "?x=../../secret.txt", "/FILES/" + some, "/rules/" + some + "/" + some + "/" + some,
                "/files/" + "0" * 42, "/files/" + "0" * 44, "/files/" + some + "%00", "/files/current_file_states",
            ]
            for _ in range(60 if thorough else 25):
                s = list(rng.choice(sorted(cache)) if cache and rng.random() < 0.7 else absent)
                for _ in range(rng.randint(1, 3)):
                    s[rng.randrange(len(s))] = rng.choice(ALPHABET + "_-.~!%/")
                hostile.append("/files/" + "".join(s))
            reqs += hostile
            impl = []
            alive = True
            for path in reqs:
                try:
                    status, body = get(port, path)
                except Exception as ex:   # noqa: BLE001
                    status, body = -1, repr(ex).encode()
                    alive = False
                impl.append((status, body))
            # the server keeps running after the hostile stream
            try:
                st, _ = get(port, "/files/" + some)
                if st not in (200, 404):
                    alive = False
            except Exception:   # noqa: BLE001
                alive = False
            try:
                st_post, _ = get(port, "/files/" + some, "POST")
            except Exception:   # noqa: BLE001
                st_post = -1
            replay = {"suite": "real_c19", "rules_sh": render(rules, False), "cache": sorted(cache), "history_files": sorted(hist)}
            if not alive or server.poll() is not None:
                res.violation("C19:server-died", "the server stopped answering during or after the request stream", replay)
            if st_post == 200:
                res.violation("C19:serves-non-get", "a POST request was answered 200", replay)
            # ---- model ----
            reqs = ["".join(c if ord(c) < 128 else urllib.parse.quote(c) for c in p) for p in reqs]
            segs = [warp_segments(p) for p in reqs]
            case = ("(serve (l" + "".join(f" ({hx(n)} {hx(c)})" for n, (c, _) in sorted(cache.items())) + ") (l"
                    + "".join(f" ({hx(n)} {hx(raw)})" for n, raw in sorted(hist.items())) + ") (l"
                    + "".join(" (l" + "".join(" " + hx(s) for s in (sg if sg is not None else [b"no-route"])) + ")" for sg in segs) + "))")
            model = split_top(run_model([case])[0])[1:]
            for path, (status, body), mo in zip(reqs, impl, model):
                res.evaluations += 1
                res.nontrivial.add(path)
                shown = f"(200 {hx(body)})" if status == 200 else "404" if status == 404 else f"({status})"
                res.count("status:" + str(status))
                if shown != mo:
                    res.diffs.append({"index": len(res.diffs), "case": f"GET {path} on cache={sorted(cache)}", "impl": shown[:600], "model": mo[:600]})
                # monitors
                sg = warp_segments(path)
                if status == 200:
                    if sg and len(sg) == 2 and sg[0] == b"files":
                        if name_of(body) != sg[1].decode("utf8", "replace") or sg[1].decode() not in cache or cache[sg[1].decode()][0] != body:
                            res.violation("C19:wrong-content-served", f"GET {path} returned 200 with bytes that are not the cached content of that hash", dict(replay, request=path))
                    elif sg and len(sg) == 3 and sg[0] == b"rules":
                        parsed = parse_history(hist.get(sg[1].decode("utf8", "replace"), b"")) or {}
                        want = None
                        for key, outs in parsed.items():
                            if enc62(key) == sg[2].decode("utf8", "replace"):
                                want = "\n".join(enc62(o) for o in outs).encode()
                        if want is None or body != want:
                            res.violation("C19:wrong-rule-outputs-served", f"GET {path} returned 200 with something else than the recorded target hashes in target order", dict(replay, request=path))
                    else:
                        res.violation("C19:serves-outside-cache-and-history", f"GET {path} returned 200", dict(replay, request=path))
                    if b"must never be served" in body:
                        res.violation("C19:serves-outside-cache-and-history", f"GET {path} leaked a workspace file", dict(replay, request=path))
                elif status == 404:
                    if sg and len(sg) == 2 and sg[0] == b"files" and sg[1].decode("utf8", "replace") in cache:
                        res.violation("C19:cached-file-not-served", f"GET {path} returned 404 although the cache holds that hash", dict(replay, request=path))
                else:
                    res.violation("C19:unclean-answer", f"GET {path} was answered {status}", dict(replay, request=path))
            if len(res.samples) < 3:
                res.samples.append({"requests": reqs[:6] + hostile[:6], "cache_entries": len(cache), "history_files": len(hist)})
        finally:
            if server is not None:
                server.kill()
                server.wait()
            ws.close()
    return res.as_dict()


SUITES = {"real_hist": suite_hist, "real_c10": suite_c10, "real_c15": suite_c15, "real_c19": suite_c19}
