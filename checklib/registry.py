"""Per-property configuration of the check driver: which suites tie the model to the code, what
the evidence says about the trusted base."""

COMMON_TB = [
    "Coq 8.16.1 kernel (coqc, full .vo build; no native_compute; vm_compute only on closed terms)",
    "extraction with ExtrOcamlBasic only (bool/option/unit/list/prod/sumbool/sumor to OCaml types; no Extract Constant of our own), OCaml 4.13.1 compiler, ocaml/driver.ml I/O shell — cross-checked on every run: a sample of the shorter cases (2 per suite quick, 20 thorough) is evaluated inside Coq with vm_compute from independently translated Gallina terms and must print what the extracted model printed",
    "Rust harness (generators, monitors, MemSys, scheduler shim) and the canonical printers on both sides",
    "the correspondence is sampling: model = code is shown on the cases run, not for all inputs",
]

PROPS_HIST_RULE = ("histories over the full C01 alphabet generated while running (edit/revert source, edit rules incl. invalid files, build, goal build, clean, goal clean, "
 "tamper, delete target, delete cache entry, delete ruler directory or parts, chmod, and `mv` = an older copy stashed and later moved back into a target path with its old modification time), 260 quick / 4000 thorough, graphs of 1..6 (9) rules with multi-target rules, "
 "transitive edges, commands in a mini-language (constant, copy, concatenation with tags from a small pool so equal contents are common, chmod), a quarter with failing rules "
 "and missing leaves; corpus cases first. After every op the implementation's verdict, executed script lines, status lines, workspace, cache listing, decoded "
 "history files and file-state table are compared with the model (only the columns this property reads). Distinct by hash of the history; non-trivial = contains a successful build.")

PROPS = {
    "C15": {
        "level": "proof",
        "suites": ["c15_base62", "c15_sha", "real_c15"],
        "rule": "encode: edge values (0, 1, 2^256-1, 62^k and neighbours, 2^k, 2^k-1) plus random 256-bit values; "
                "decode: valid encodings, values in [2^256,62^43), every length 0..60 over an alphabet with "
                "non-alphanumerics and multi-byte characters, one foreign character at each of the 43 positions; "
                "file hash: every length 0..1100 and random larger, six read chunkings, two paths/ages. "
                "Distinct by hash of the model input; non-trivial = non-zero value / non-empty string / non-empty file.",
        "trusted_base": COMMON_TB + [
            "rust-crypto's streaming digest is SHA-256 with absorb(a);absorb(b) = absorb(a++b): tested on every length 0..1100 against the Coq sha256 (itself checked against FIPS vectors by vm_compute), not proved",
            "num-bigint arithmetic modelled by Coq N",
        ],
        "assumptions": [
            "theorems are about coq/Base/Base62.v, coq/Base/Sha256.v, coq/Model/TicketModel.v; tied to src/ticket.rs by the correspondence suites c15_base62 and c15_sha",
            "SHA-256 inside rust-crypto is validated by differential testing, not proved",
        ],
    },
    "C16": {
        "level": "proof",
        "suites": ["c16_history", "c16_table"],
        "rule": "rule histories and file-state tables with 0..50 entries and 0..8 targets written by ruler itself and decoded by the model; "
                "for each: trailing bytes, strict prefixes (every one for small instances), single bit flips (every bit for small instances), "
                "duplicate keys, an independent encoding of the documented layout, non-UTF-8 and 4-byte UTF-8 paths; plus random byte strings and "
                "hostile length fields (u64::MAX, huge vectors). Distinct by hash of the byte string; non-trivial = non-empty input.",
        "trusted_base": COMMON_TB + [
            "bincode 1.3 / serde are modelled (coq/Base/Bincode.v), differentially tested, not verified",
            "HashMap modelled as entry list in file order with later-duplicate-wins (canon_map)",
        ],
        "assumptions": [
            "theorems are about coq/Base/Bincode.v; tied to src/history.rs, src/current.rs, src/blob.rs by suites c16_history and c16_table through History::{write,read}_rule_history and CurrentFileStates::{from_file,to_file}",
            "panic freedom of the Rust readers is observed with catch_unwind on every generated input, not proved",
        ],
    },
    "C13": {
        "level": "proof",
        "suites": ["c13_identity", "c13_shared", "c13_neighbours"],
        "rule": "pairs of rules: a generated rule and a near-miss of it (permuted targets/sources, a string moved across a section boundary, "
                "split/merged command lines, leading/trailing whitespace in a command or source, renamed target, added source, two targets merged) "
                "or an independent rule; strings contain ':' and spaces; plus rules outside the parser's range (empty string, embedded newline). "
                "Each rule's identity is compared with the model's SHA-256 of the canonical serialisation; the monitor compares identities pairwise "
                "with the property's own notion of 'same rule'. Distinct by hash of the rule; every case is non-trivial (a full rule)."
                + " Round 2: suite c13_shared — 60 quick / 600 thorough builds of one multi-target rule written in two of three equivalent notations (flat target lines in two orders, tab-indented directory bundle; names chosen so that bundle order and bytewise order differ), then targets taken away (clean or deletion) and rebuilt: nothing may run after the notation change, every target must come back with its own content.",
        "trusted_base": COMMON_TB + ["SHA-256 collision freedom is idealised: the theorems are about the hashed preimage"],
        "assumptions": [
            "theorems are about coq/Model/RuleSyntax.v + TicketModel.v (ser_rule, canon_rule) and the parser model; tied to Rule::get_ticket / Ticket::from_strings by suite c13_identity, and end-to-end (history file names) by the history suites of C01",
            "modulo SHA-256 collisions, as the property says",
        ],
    },
    "C14": {
        "level": "proof",
        "suites": ["c14_parser", "c14_files_bundles"],
        "rule": "rendered random rule ASTs (flat and bundled paths, shuffled and repeated entries, 0..n blank lines, missing final newline), "
                "single-edit corruptions (deleted line, inserted blank/colon/tab-only line, indentation change, duplicated line, CR-LF), truncation at "
                "every line, repeated-name shapes (file vs directory, both orders, at depth), token soup (tabs, CR, non-ASCII), every text of length "
                "<= 5 (7 thorough) over {NL, TAB, ':', a, b}; several files; bundles directly. Both sides' Result compared exactly; monitors: valid "
                "renderings must give exactly the AST's canonical rules, error lines must point at an offending line, no panic. "
                "Distinct by hash of the text; non-trivial = non-empty text.",
        "trusted_base": COMMON_TB + ["BTreeMap and Vec::sort modelled by a name-sorted association list / insertion sort"],
        "assumptions": [
            "theorems are about coq/Model/Parser.v and coq/Model/Bundle.v; tied to src/rule.rs and src/bundle.rs by suites c14_parser and c14_files_bundles",
            "'never panics' for the Rust code is observed with catch_unwind on every generated input, not proved (the model is total by construction)",
            "merging of repeated identical directory subtrees and the exact bundle error for every malformed bundle are covered by the correspondence only",
        ],
    },
    "C07": {
        "level": "proof",
        "suites": ["hist", "crash", "swap", "crash_coarse", "epoch"],
        "columns": ["cache"],
        "rule": "histories over the full C01 alphabet (edits, reverts, rule edits incl. invalid rules files, builds, goal builds, cleans, tampered and "
                "deleted targets, deleted cache entries, deleted ruler directory and parts of it), deterministic and failing commands, serial schedule; "
                "plus every crash point (every file-system mutation incl. torn writes) of builds and cleans from five kinds of prior state. After every "
                "operation and at every crash point every cache file name is recomputed from its bytes (harness's own SHA-256 + base-62) and the cache "
                "listing (names and contents) is compared with the model. Distinct by hash of the history; non-trivial = contains a successful build."
                + " Round 2: suite swap — 100 quick / 3000 thorough histories that exchange and restore the values of two leaves feeding a two-target rule (or two rules), with a rule toggled between failing and fixed and cleans, three quarters under the coarse clock; the cache-naming monitor runs under both clocks.",
        "trusted_base": COMMON_TB + [
            "the LTS step relation (coq/Model/Inv.v) is the vocabulary of actions on shared state; that ruler's threads perform only such actions is shown for the sequential model (build/clean are step sequences, proved) and sampled for the implementation",
            "directories and path resolution are not modelled (flat path map)",
        ],
        "assumptions": [
            "distinct file writes carry distinct modification times (fine clock), as the property states",
            "theorems are about coq/Model/{World,Work,Build,Ops,Inv}.v; tied to src/{cache,blob,work,build,current}.rs by the history and crash suites (R-hist, cache column) ",
        ],
    },
    "C08": {
        "level": "proof",
        "suites": ["hist", "mixed", "crash", "crash_coarse", "epoch"],
        "columns": ["files", "cache"],
        "rule": "same histories and crash points as C07; monitor: the set of contents at ever-declared target paths and in the cache before each build/clean "
                "is a subset of the set afterwards (and at every crash point outside a command), and no rename by ruler goes over a target or cache "
                "file with different content; workspace and cache listings compared with the model. Non-trivial = contains a successful build."
                + " Round 2: suite mixed — one rule with 2-3 targets each reading its own subset of three leaves; single leaves edited and put back, single targets deleted or tampered, cleans: one build finds targets in different states.",
        "trusted_base": COMMON_TB + ["hash collision freedom idealised (free symbolic hashes / injectivity hypothesis)"],
        "assumptions": [
            "commands write their outputs atomically and deterministically, a failing command writes nothing (the property's own assumption); the theorem covers ruler's own actions at every instant, the whole-build form under deterministic commands is monitored, not proved",
            "theorems are about coq/Model/Inv.v own_step; tied to the code by the history and crash suites",
        ],
    },
    "C12": {
        "level": "proof",
        "suites": ["c12_sorter"],
        "rule": "exhaustive: every directed graph on up to 3 rules with self loops and on 4 rules without (5 in the thorough tier, every 23rd graph), "
                "every goal choice, two name labelings, single-target and two-target variants (targets listed out of sorted order, dependents using "
                "either target); random graphs of 2..40 rules, acyclic and arbitrary, with duplicate targets (across and within rules), "
                "self-dependence, missing goals, two-target rules. The NodePack or error (with payload) is compared exactly with the model; the monitor "
                "is an independent checker (plain reachability: expected kind; plan: exactly the in-scope rules once, order, every binding, leaves, "
                "rule identity) plus invariance under shuffling the input. Distinct by hash of the rule list and goal; non-trivial = at least two rules.",
        "trusted_base": COMMON_TB + ["HashMap/HashSet/BTreeSet modelled by association lists and a sorted list; Vec::sort by insertion sort (unique result for a total antisymmetric order)"],
        "assumptions": [
            "theorems are about coq/Model/TopoSort.v against coq/Model/TopoSpec.v; tied to src/sort.rs by suite c12_sorter (exhaustive on small graphs validates the model against the code; the theorems cover all sizes)",
            "rule identities in nodes are checked by the monitor against Rule::get_ticket, not compared with the model (see C13)",
        ],
    },
    "C03": {
        "level": "proof",
        "suites": ["sched"],
        "columns": ["cmds"],
        "rule": "one build or clean invocation explored under many thread schedules from the same disk state: serial, 20 (60) seeded-random, 10 (20) PCT-style, and bounded exhaustive depth-first enumeration of the choice tree for scenarios of <= 3 rules; scenarios: generated graphs plus wide fan-in, fan-out with byte-identical outputs, independent rules with equal outputs, chain+diamond, with failing rules and missing leaves; initial states fresh / built / built-cleaned / built-edited / built-cleaned-edited / built-tampered; yield points at spawn, send, recv, join, endpoint drop, task exit and every System call. Every schedule's event trace is replayed through the protocol model (trace validation) and the serial run is a history case for the build model. Distinct by hash of the case; all cases non-trivial." + " Monitor: at every execute_command entry each declared source is compared with its independently computed final value, and no later call touches it.",
        "trusted_base": COMMON_TB + ["the scheduler shim (real threads under a baton; preemption inside a System call is not explored)", "std::thread / std::sync::mpsc semantics as re-implemented by the shim and as modelled by the protocol LTS"],
        "assumptions": [
            "PARTIAL: the theorems are about the protocol LTS with an atomic work step (coq/Model/Protocol.v); what 'final' means is C01, that nobody else writes the files is C09; commands are atomic, target-only writers",
            "tied to src/build.rs by trace validation of every explored schedule (suite sched)",
        ],
    },
    "C05": {
        "level": "proof",
        "suites": ["sched"],
        "columns": ["verdict"],
        "rule": "one build or clean invocation explored under many thread schedules from the same disk state: serial, 20 (60) seeded-random, 10 (20) PCT-style, and bounded exhaustive depth-first enumeration of the choice tree for scenarios of <= 3 rules; scenarios: generated graphs plus wide fan-in, fan-out with byte-identical outputs, independent rules with equal outputs, chain+diamond, with failing rules and missing leaves; initial states fresh / built / built-cleaned / built-edited / built-cleaned-edited / built-tampered; yield points at spawn, send, recv, join, endpoint drop, task exit and every System call. Every schedule's event trace is replayed through the protocol model (trace validation) and the serial run is a history case for the build model. Distinct by hash of the case; all cases non-trivial." + " Monitor: the shim reports 'all tasks blocked', panics caught at task and call boundary, failed sends/receives, BuildError::{SenderError,ReceiverError,Weird}."
                + " Round 2: rule graphs ruler must REJECT (dependency cycles at any depth, between siblings, beside acyclic parts; seven fixed shapes and 40 quick / 400 thorough random ones) are run under the serial and random schedules with deadlock detection, and as correspondence cases (the model names the sort error); work-atomic schedules (policy Order) are compared in full with Model/Sched.v build_ord.",
        "trusted_base": COMMON_TB + ["the scheduler shim (real threads under a baton)", "std::thread / std::sync::mpsc semantics as re-implemented by the shim and as modelled by the protocol LTS"],
        "assumptions": [
            "PARTIAL: protocol-level theorems (no channel error, deadlock freedom, termination bound) for every accepted plan and every interleaving; OS-level hangs, commands that never exit, file-system faults and panics inside the work step are monitored, not proved",
            "tied to src/build.rs by trace validation of every explored schedule (suite sched)",
        ],
    },
    "C06": {
        "level": "proof",
        "suites": ["sched"],
        "columns": ["verdict", "files"],
        "rule": "one build or clean invocation explored under many thread schedules from the same disk state: serial, 20 (60) seeded-random, 10 (20) PCT-style, and bounded exhaustive depth-first enumeration of the choice tree for scenarios of <= 3 rules; scenarios: generated graphs plus wide fan-in, fan-out with byte-identical outputs, independent rules with equal outputs, chain+diamond, with failing rules and missing leaves; initial states fresh / built / built-cleaned / built-edited / built-cleaned-edited / built-tampered; yield points at spawn, send, recv, join, endpoint drop, task exit and every System call. Every schedule's event trace is replayed through the protocol model (trace validation) and the serial run is a history case for the build model. Distinct by hash of the case; all cases non-trivial." + " Monitor: every schedule must give the serial schedule's verdict and workspace contents."
                + " Round 2: per scenario 6 (12) runs under the work-atomic scheduler policy Order with random priorities; the complete observation of each (verdict, script lines in execution order, status lines, workspace, cache, histories, table) is compared with the model's build_ord run in the order the work steps took.",
        "trusted_base": COMMON_TB + ["the scheduler shim (real threads under a baton)", "std::thread / std::sync::mpsc semantics as re-implemented by the shim and as modelled by the protocol LTS"],
        "assumptions": [
            "PARTIAL: proved: every complete execution has exactly the same events and final protocol state (only the order differs); NOT proved: that the work steps of independent rules commute on the shared cache up to verdict and workspace — decided by schedule exploration on the implementation",
            "deterministic commands; fine clock",
        ],
    },
    "C19": {
        "level": "proof",
        "suites": ["real_c19", "c19_live"],
        "rule": "ruler directories produced by random build/clean histories of the real binary on the real file system (4 quick / 40 thorough), sometimes with a damaged history "
                "file; `ruler serve` on a loopback port; requests: every cached hash (with and without trailing slash), every recorded (rule, sources) pair, absent hashes, "
                "and hostile paths (wrong length, percent-encoded characters and slashes, '..', empty segments, extra segments, other prefixes, non-ASCII, near-miss "
                "mutations of real names, query strings); status and body compared with the model's respond on the raw segments; monitors: 200 bodies hash to the "
                "requested name / are the recorded outputs, nothing else is ever served, server alive afterwards, POST not served. Distinct by request path."
                + " Round 2: suite c19_live — the real serve() (warp over loopback) runs inside the harness process on the in-memory file system while builds and cleans of swap histories go on, the clock not advancing; after every invocation every history entry and cache entry on disk must be served, unknown and malformed names get 404 (8 quick / 60 thorough servers, about 100 requests each).",
        "trusted_base": COMMON_TB + ["warp/hyper/tokio (routing, raw segment passing, connection handling) are not modelled; checklib/realbin.py's warp_segments states the observed segmentation", "python http.client"],
        "assumptions": [
            "PARTIAL: theorems about the handler logic (coq/Model/Server.v); the HTTP stack and liveness are covered by the loopback correspondence only",
            "cache content addressing from C07; name decoding from C15",
        ],
    },
    "C02": {
        "level": "proof",
        "suites": ["hist", "mixed"],
        "columns": ["verdict", "cmds"],
        "rule": "histories over the full C01 alphabet generated while running (edit/revert source, edit rules incl. invalid files, build, goal build, clean, goal clean, tamper, delete target, delete cache entry, delete ruler directory or parts, chmod), 260 quick / 4000 thorough, graphs of 1..6 (9) rules with multi-target rules, transitive edges, commands in a mini-language (constant, copy, concatenation with tags from a small pool so equal contents are common, chmod), a quarter with failing rules and missing leaves; corpus cases first. After every op the implementation's verdict, executed script lines, status lines, workspace, cache listing, decoded history files and file-state table are compared with the model (only the columns this property reads). Distinct by hash of the history; non-trivial = contains a successful build." + " Monitor: an independent ledger of (rule identity, source contents) -> outputs flags any command the property forbids, commands run twice, and any command or file modification in a repeated build.",
        "trusted_base": COMMON_TB,
        "assumptions": [
            "PARTIAL: proved: at most once per build, a command runs iff some target could be neither confirmed nor recovered, rebuild only on a cache miss; the history-level form is monitored by the ledger (needs C01's history soundness)",
            "deterministic commands, fine clock; deleting the ruler directory or history voids the obligation (DESIGN.md 7.3)",
        ],
    },
    "C04": {
        "level": "proof",
        "suites": ["hist", "sched"],
        "columns": ["verdict", "cmds", "files", "hist"],
        "rule": "histories over the full C01 alphabet generated while running (edit/revert source, edit rules incl. invalid files, build, goal build, clean, goal clean, tamper, delete target, delete cache entry, delete ruler directory or parts, chmod), 260 quick / 4000 thorough, graphs of 1..6 (9) rules with multi-target rules, transitive edges, commands in a mini-language (constant, copy, concatenation with tags from a small pool so equal contents are common, chmod), a quarter with failing rules and missing leaves; corpus cases first. After every op the implementation's verdict, executed script lines, status lines, workspace, cache listing, decoded history files and file-state table are compared with the model (only the columns this property reads). Distinct by hash of the history; non-trivial = contains a successful build." + " Plus schedule exploration of invocations with failing rules and missing leaves (suite sched). Monitors: a dependent of a failed or blocked rule never runs, a missing leaf is reported by name exactly once, failure is reported, next build retries.",
        "trusted_base": COMMON_TB + ["the scheduler shim for the schedule part"],
        "assumptions": [
            "PARTIAL: theorems about the modelled build under the serial schedule (one error per failed thread in join order, cancel propagation, dependents do not run, nothing recorded); all schedules by exploration (C06); 'unaffected rules are brought up to date correctly' is C01, monitored",
        ],
    },
    "C09": {
        "level": "proof",
        "suites": ["hist", "dropped", "real_hist"],
        "columns": ["files"],
        "rule": "histories over the full C01 alphabet generated while running (edit/revert source, edit rules incl. invalid files, build, goal build, clean, goal clean, tamper, delete target, delete cache entry, delete ruler directory or parts, chmod), 260 quick / 4000 thorough, graphs of 1..6 (9) rules with multi-target rules, transitive edges, commands in a mini-language (constant, copy, concatenation with tags from a small pool so equal contents are common, chmod), a quarter with failing rules and missing leaves; corpus cases first. After every op the implementation's verdict, executed script lines, status lines, workspace, cache listing, decoded history files and file-state table are compared with the model (only the columns this property reads). Distinct by hash of the history; non-trivial = contains a successful build." + " Monitor: every mutating System call ruler makes outside commands is classified by an independent reachability computation (in-scope target or ruler directory), and every out-of-scope file must keep content, mtime and permissions across the invocation; goals: none and random targets."
                + " Suite real_hist: 12 quick / 150 thorough histories (writes, tampered and deleted targets, chmod, builds and cleans with and without goal, deleted ruler directory / cache directory / table, a failing rule in a third of them) run with the REAL ruler binary (built from /repo without cfg flags: main.rs argument handling, RealSystem, /bin/sh commands, OS threads under the OS scheduler) in a scratch directory on the real file system; after every operation workspace files with permission bits, the cache listing, the number of history files, the status lines (as a multiset) and success/failure are compared with the model; cache names are recomputed from contents.",
        "trusted_base": COMMON_TB + ["directories are not modelled (flat path map)"],
        "assumptions": [
            "commands write only their own rule's targets (node_confined); no clock assumption",
            "theorems about coq/Model/Build.v build and clean; tied to the code by the files column and the call-log monitor",
        ],
    },
    "C10": {
        "level": "proof",
        "suites": ["c10_clean_build", "swap", "mixed", "real_c10", "memsys_selftest"],
        "columns": ["verdict", "cmds", "files", "cache"],
        "rule": "scenarios: generated rule graph (half with pairwise different target contents), sources, optional goal build and edit, full build, optional chmod, clean with a goal "
                "choice, build with a goal choice; 150 quick / 2000 thorough on the in-memory System compared op by op with the model, and 10 / 120 with the REAL binary and sh "
                "commands (cat, printf, chmod +x) on the real file system, where files with permission bits, the cache listing and the status lines are compared with the model. "
                "Monitors: after clean no in-scope target exists and each content is in the cache; after the build every target is back identical with its executable bit; no command "
                "when the cleaned contents are pairwise different. All cases non-trivial."
                + " Round 2: one to three rounds of clean/build per scenario (a clean after a build that only RECOVERED the targets meets different bookkeeping than the first), per-round checks that no in-scope target exists after the clean and that its content is in the cache.",
        "trusted_base": COMMON_TB + ["rename(2) / permission semantics of the real file system as observed", "sh, cat, printf, chmod"],
        "assumptions": [
            "PARTIAL: proved: clean leaves no plan target and puts each cleaned file into the cache under its hash; restore moves the cache file (content and permission bits) into place; commands run only on a cache miss. The end-to-end 'up to date before clean => next build succeeds with no command' is checked on every scenario, in memory and on the real file system, not proved as one statement",
        ],
    },
    "C17": {
        "level": "proof",
        "suites": ["c17_contradiction", "c17_kill"],
        "columns": ["verdict", "cmds", "files", "hist"],
        "rule": "rule graphs in which one rule's command reads an undeclared file for a random subset of its targets; history: build, change the undeclared input (1 in 8: leave it), "
                "force a re-execution (delete a target / tamper with it / clean and delete its cache entry), build. Monitor: exactly one Contradiction naming exactly the targets "
                "whose fresh output differs from the recorded one, in target order; the rule's history file unchanged; rules that do not depend on it brought up to date. Compared "
                "op by op with the model. 250 quick / 3000 thorough; all cases non-trivial.",
        "trusted_base": COMMON_TB,
        "assumptions": ["theorems about history_insert / handle_rule / build in coq/Model; tied to src/history.rs, src/blob.rs, src/work.rs by suite c17_contradiction"],
    },
    "C20": {
        "level": "proof",
        "suites": ["hist", "mixed", "sched", "real_hist"],
        "columns": ["verdict", "cmds", "status"],
        "rule": "histories over the full C01 alphabet generated while running (edit/revert source, edit rules incl. invalid files, build, goal build, clean, goal clean, tamper, delete target, delete cache entry, delete ruler directory or parts, chmod), 260 quick / 4000 thorough, graphs of 1..6 (9) rules with multi-target rules, transitive edges, commands in a mini-language (constant, copy, concatenation with tags from a small pool so equal contents are common, chmod), a quarter with failing rules and missing leaves; corpus cases first. After every op the implementation's verdict, executed script lines, status lines, workspace, cache listing, decoded history files and file-state table are compared with the model (only the columns this property reads). Distinct by hash of the history; non-trivial = contains a successful build." + " Plus every explored schedule of suite sched. Monitor: each banner is checked against the rename / command log of the same build (Built iff the rule's command ran, Recovered iff moved in from the cache, Up-to-date iff untouched), exactly one line per target of finished rules, none for blocked rules."
                + " Round 2: suite mixed (see C08)."
                + " Suite real_hist: 12 quick / 150 thorough histories (writes, tampered and deleted targets, chmod, builds and cleans with and without goal, deleted ruler directory / cache directory / table, a failing rule in a third of them) run with the REAL ruler binary (built from /repo without cfg flags: main.rs argument handling, RealSystem, /bin/sh commands, OS threads under the OS scheduler) in a scratch directory on the real file system; after every operation workspace files with permission bits, the cache listing, the number of history files, the status lines (as a multiset) and success/failure are compared with the model; cache names are recomputed from contents.",
        "trusted_base": COMMON_TB + ["the recording Printer of the harness"],
        "assumptions": ["reading 7.5: Built iff the command ran, else Recovered iff moved in, else Up-to-date", "theorems about status_lines / handle_rule / build in coq/Model; tied to build.rs by the status column"],
    },
    "C01": {
        "level": "proof",
        "suites": ["hist", "crash", "c13_shared", "real_hist"],
        "columns": ["verdict", "files"],
        "rule": PROPS_HIST_RULE + " Monitor: after every successful build (whole or goal-restricted) every in-scope target is compared with an evaluator written independently of ruler (own dependency order, own interpreter of the command mini-language) that computes the from-scratch contents from the current source files."
                + " Round 2: the crash suite is part of this check too: from every crash state of a killed build a second continuation re-applies the other version of the edited source and builds, with the C01 monitor on."
                + " Suite real_hist: 12 quick / 150 thorough histories (writes, tampered and deleted targets, chmod, builds and cleans with and without goal, deleted ruler directory / cache directory / table, a failing rule in a third of them) run with the REAL ruler binary (built from /repo without cfg flags: main.rs argument handling, RealSystem, /bin/sh commands, OS threads under the OS scheduler) in a scratch directory on the real file system; after every operation workspace files with permission bits, the cache listing, the number of history files, the status lines (as a multiset) and success/failure are compared with the model; cache names are recomputed from contents.",
        "trusted_base": COMMON_TB + ["hash collision freedom idealised (free symbolic hashes; generic theorems take injectivity hypotheses)", "directories not modelled"],
        "assumptions": [
            "commands deterministic in every build of the history (det_history: write only own targets, read only declared sources) — needed for the whole history, shown by a refutation; fine clock",
            "theorems about coq/Model/Build.v against coq/Model/Ideal.v under the serial schedule; other schedules by C06; tied to the code by the history suite (verdict and workspace columns)",
        ],
    },
    "C11": {
        "level": "proof",
        "suites": ["crash", "crash_coarse"],
        "columns": ["verdict", "files", "cache", "hist", "table"],
        "rule": "30 quick / 300 thorough scenarios: generated rule graph and sources, prior state fresh / built / built-edited / built-cleaned / built-tampered / "
                "built-edited-built-reverted, then a build or clean (goal or all) run with every file-system mutation recorded and writes torn into chunks (1 byte for a "
                "quarter of the scenarios, all in thorough). EVERY mutation index is a crash point (directory creation, create, every torn write of state files and of command "
                "outputs, rename, chmod): the snapshot is checked (cache content-addressed, no previously existing content lost outside a running command) and a fresh build "
                "from it must not panic, must not be wedged, must succeed when a from-scratch build would, and must satisfy C01, C07, C08, C09, C20. The uninterrupted scenario "
                "is a history case for the model. evaluations counts scenarios; coverage.suites.crash.extra.crash_points counts the crash points explored."
                + " Round 2: per scenario the implementation's disk at every action boundary is compared state by state with the model's crash states (disk after every prefix of Model/Acts.v build_acts / clean_acts); scenarios whose prior state is 'edited, built, reverted' get a second continuation from every crash state (re-apply the edit, build).",
        "trusted_base": COMMON_TB + ["'killed' = all threads stop between two System calls of the in-memory file system; power-loss reordering below the file-system API is not modelled"],
        "assumptions": [
            "PARTIAL: proved: at every crash state (any prefix of ruler's and the commands' primitive actions, any schedule) the disk invariant holds, no state file under a real name is damaged, the next build is not wedged; C01 for the recovery build needs history soundness at crash states inside a build, which is proved at quiescent points only — the recovery build is monitored at every crash point",
            "serial schedule for the killed invocation in the enumeration; deterministic commands; fine clock",
        ],
    },
    "C18": {
        "level": "proof",
        "suites": ["c18_shortcut", "swap", "crash_coarse", "epoch"],
        "columns": ["verdict", "files", "cache", "hist", "table"],
        "rule": "220 quick / 3000 thorough generated histories (alphabet of C01, deterministic commands), half under the fine clock and half under the coarse clock (one tick per "
                "user action or ruler invocation), each run twice — as is, and with the file-state table erased before every build; verdict and workspace after every build "
                "must agree between the two runs (monitor), and all runs are history cases for the model (which implements both clocks); corpus cases (the F4 history and a "
                "contents-cycling history) run first, paired as well. Distinct by hash of the history; non-trivial = contains a successful build."
                + " Round 2: suite swap (see C07) with paired runs as well.",
        "trusted_base": COMMON_TB,
        "assumptions": [
            "PARTIAL: theorem for the fine clock (any sound table, erased included, gives literally the same build and clean); coarse clock decided by paired runs and model correspondence only",
        ],
    },
}

# round 3 additions to the generation rules
_R3 = {
    "C08": " Round 3: mixed and hist contain `mv` patterns (a target stashed as t.bak, its source edited, build, the old copy moved back with its old modification time, build). Round 4: suite epoch (see C07).",
    "C09": " Round 3: suite dropped — build, clean, the rules file rewritten WITHOUT the rule that produced a path another rule still reads (the path becomes a plain source that the table and the cache still remember), build: ruler must report the missing source and create nothing.",
    "C10": " Round 3: before the clean, an mv dance: every in-scope target moved aside, the leaves changed, build, the leaves restored, the old copies moved back with their old modification times (the table now remembers NEWER states of other contents for those paths).",
    "C17": " Round 3: a third of the scenarios have a neighbour rule that fails in the same build, so the contradicted rule's history must have been written by a build that failed as a whole.",
    "C07": " Round 4: suite epoch — the clock starts at 0 and the first thing that happens is the user writing a TARGET path by hand with a value the rules later produce; that file carries modification time 0 (the time of FileState::empty()), is displaced into the cache by the first build and comes back through the recoveries of swap histories (under the fine clock the first write is stamped 1, so there the suite merely starts from clock 0); a quarter of the histories are directed (coarse clock): a copy dated 0 is kept aside, moved into the target path later, displaced into the cache, recovered and displaced again — with a single rule, so that no two files share a time and every monitor stays on; 80 quick / 2000 thorough, all monitors, paired runs.",
    "C18": " Round 4: suite epoch (see C07) with paired runs.",
    "C02": " Round 3: the monitor separates 'an output ruler itself lost' (it was in the cache when the build started, nobody else's target took it, yet the command ran) from the known finding; mixed has mv patterns.",
}
_R4 = {
    "C02": " Round 4: mixed has the pattern stash a target / change the leaves / build / put the leaves back / move the copy back / build twice (nothing may run).",
    "C03": " Round 4: prepared state built-tampered-cleaned-edited (a target that another rule reads is overwritten by hand, everything cleaned, a leaf beside it edited) and the corpus case corpus/sched/intermediate-scribbled-then-cleaned.case.",
    "C10": " Round 4: swap histories (3/4 under the coarse clock) end with build, clean, build; the C10 monitor applies to every history in which a clean directly follows a successful build of the same goal and a build follows.",
    "C13": " Round 4: suite c13_neighbours — 2-4 rules reading the same source, one of them failing because an undeclared file is missing, the others succeeding, optionally everything built before; repair (optionally after a clean), build, build: every target holds its own output, nobody contradicts a record, the repeated build runs nothing; 60 quick / 800 thorough.",
    "C14": " Round 4: monitor — a Contradiction error names an earlier and a later line of its section, in file order.",
    "C17": " Round 4: suite c17_kill — a repeated build with nothing changed (it rewrites every rule's history file) is killed at every point of its mutation sequence; from each crash state the undeclared input changes, a re-execution is forced and the build must report the contradiction (6 scenarios quick / 60 thorough, every crash point of each); a quarter of the c17 scenarios run on a file system whose reads come in pieces of 2 bytes.",
    "C05": " Round 4: for every explored schedule of a clean, the order in which the clean threads moved files into the cache is replayed through Model/CleanFine.v (case kind cleanfine) and the whole observation compared; a fifth of the scenarios run on a file system whose reads come in pieces of 3 bytes.",
    "C18": " Round 4: in a third of the two-target swap histories the rule reads an undeclared, always empty file that is removed and put back between builds, so that its command fails after some targets were already restored.",
    "C19": " Round 4: after every invocation one cached entry is requested while a one-shot race renames it away right after the server's is_file answered true (what a build restoring that entry does): the answer must be the exact bytes or 404.",
    "C20": " Round 4: monitors on every explored schedule — a rule whose command ran and whose targets are in place has its status lines; the number of reported errors equals the number of failing rules and missing leaves.",
}
_R5 = {
    "C01": " Round 5: a fifth of the histories run on a file system whose reads return 3 bytes at a time.",
    "C03": " Round 5: a fifth of the scenarios on a file system whose reads return 3 bytes at a time; every corpus case is explored a second time with one-byte reads (corpus/sched/edit-behind-the-first-short-read.case).",
    "C04": " Round 5: monitor — after a build the file-state table has no entry for a target of a rule whose command failed in that build.",
    "C08": " Round 5: suite crash_coarse (see C11) with a content monitor on the builds that continue from each crash state.",
    "C09": " Round 5: suite dropped also writes the rules file with one rule repeated and builds / cleans a goal: nothing in the workspace may change.",
    "C10": " Round 5: suite mixed (single targets deleted or tampered, then cleans) with the generic first-half monitor.",
    "C13": " Round 5: c13_identity also generates rules whose neighbouring strings are 55..300 bytes long and moves one character across the boundary between two of them (300 quick / 3000 thorough pairs).",
}
for _k, _v in _R3.items():
    PROPS[_k]["rule"] += _v
for _k, _v in _R5.items():
    PROPS[_k]["rule"] += _v
for _k, _v in _R4.items():
    PROPS[_k]["rule"] += _v
