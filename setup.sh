#!/bin/bash
# Build everything the checks need, offline, from files on disk only.
set -e
cd "$(dirname "$0")"
export CARGO_NET_OFFLINE=true
mkdir -p work evidence replays
( cd coq && coq_makefile -f _CoqProject -o Makefile >/dev/null && timeout 3000 make -j"$(nproc)" )
python3 - <<'PY'
import sys, os
sys.path.insert(0, os.getcwd())
import importlib.machinery, importlib.util
loader = importlib.machinery.SourceFileLoader("check_main", os.path.join(os.getcwd(), "check"))
spec = importlib.util.spec_from_loader("check_main", loader)
m = importlib.util.module_from_spec(spec); loader.exec_module(m)
rc, out = m.ensure_driver()
print(out[-2000:]); assert rc == 0, "driver build failed"
from checklib import realbin
rc, out = realbin.ensure_ruler()
print("\n".join(out.split("\n")[-3:])); assert rc == 0, "ruler binary build failed"
rc, out = m.ensure_harness()
print("\n".join(out.split("\n")[-5:])); assert rc == 0, "harness build failed"
PY
echo "setup ok"
