(* C06 — the outcome of a build does not depend on thread scheduling.
   ROUND 2: see the second half of this file — the verdict and every workspace file's content are proved equal for
   every order in which the workers do their (atomic) work steps; what follows describes round 1.
   Only the property theorems; proofs in Proofs/ProtocolFacts.v.
   PARTIAL. What is proved, for every interleaving: every complete execution consists of exactly the same
   events — each worker is spawned, receives on each in-edge once, works once, sends on each out-edge once,
   finishes and is joined — only their order differs, and all complete executions end in the same protocol
   state; with C03 (a consumer works after all its producers) every complete execution is a linearisation
   of the same dependency order. What is NOT proved is that the *effects* of the work steps of independent
   rules on the shared cache commute up to what the property observes (verdict and workspace contents):
   that is where the repaired defect F2 lived (restore's check-then-rename race), and it is decided on the
   implementation by schedule exploration — serial, random, PCT and bounded exhaustive schedules of the
   same invocation must give the same verdict and workspace, with the serial run compared to the model. *)
From Coq Require Import List Arith Permutation String.
From Ruler Require Import Bytes AList RuleSyntax TopoSort World Cmdlang Work Build Ops Inv BuildSpec Ideal InvFacts C01Hist C01Facts
     Sched SchedBasic SchedFacts Fine FineBasic FineFacts.
From Ruler Require Import Protocol ProtocolFacts.
Local Close Scope N_scope.
Local Open Scope nat_scope.

Theorem C06_same_events_every_schedule : forall g evs1 evs2 s1 s2, wf_graph g ->
  run_events g (init_pstate g) evs1 = Some s1 -> finished g s1 = true ->
  run_events g (init_pstate g) evs2 = Some s2 -> finished g s2 = true ->
  Permutation evs1 evs2 /\ s1 = s2.
Proof. exact c06_same_events_every_schedule. Qed.

Theorem C06_complete_run_events : forall g evs s, wf_graph g ->
  run_events g (init_pstate g) evs = Some s -> finished g s = true ->
  NoDup evs /\ (forall ev, In ev evs <-> event_of_graph g ev) /\ s = final_pstate g.
Proof. exact c06_complete_run_events. Qed.

Theorem C06_complete_run_length : forall g evs s, wf_graph g ->
  run_events g (init_pstate g) evs = Some s -> finished g s = true ->
  length evs = measure g (init_pstate g).
Proof. exact c06_complete_run_length. Qed.

(* ------------------------------------------------------------------------------------------------------
   THE OUTCOME UNDER EVERY WORK ORDER (Model/Sched.v; proofs in Proofs/Sched{Basic,Serial,Rule,Inv,Facts}.v).
   `build_ord ord` is the build in which the workers — leaves first, then rule nodes, numbered in spawn order —
   perform their work steps (wait for all sources, then handle the rule: resolve targets against history and
   cache, possibly run the command) in the order `ord`, each step atomic, followed by main's join loop in spawn
   order. `valid_order`: every worker once, each after the workers it waits for — by the protocol theorems above
   (and C03) every complete execution of the thread protocol induces such an order. The serial model
   Build.build is the spawn order.
   For every two valid orders, from any state with the disk invariant and sound histories (every state reached by
   a history, C01) and a plan of deterministic, confined commands: THE SAME VERDICT (the very same error list)
   and THE SAME CONTENT OF EVERY FILE of the workspace — although the executed command sequences, the cache and
   the status lines may differ (independent rules that produce byte-identical files compete for one cache entry:
   one is recovered, the other re-runs; neither fails). What is not represented: interleaving INSIDE a work
   step (the cache's check-then-rename, where the repaired defect F2 lived); that is explored on the
   implementation, and work-atomic schedules of the implementation are compared in full with build_ord. *)
Local Open Scope N_scope.
Local Notation build_sym := (build sym_eqb SContent SList SRule).
Local Notation build_ord_sym := (build_ord sym_eqb SContent SList SRule).
Local Notation hist_sound_sym := (hist_sound sym sym_eqb SContent SList SRule).

Theorem C06_serial_build_is_the_spawn_order : forall (w : world sym) rp goal w1 t pack,
  init_dir sym w = Ok (w1, t) -> get_nodes sym w1 rp goal = Ok pack ->
  build_ord_sym (spawn_order pack) w rp goal = build_sym w rp goal.
Proof. exact build_ord_spawn_order_sym. Qed.

Theorem C06_same_verdict_and_files_for_every_work_order : forall (w : world sym) rp goal w1 tbl pack ord1 ord2,
  disk_inv sym_eqb SContent w -> hist_sound_sym w ->
  init_dir sym w = Ok (w1, tbl) -> get_nodes sym w1 rp goal = Ok pack ->
  Forall det_node (p_nodes pack) -> valid_order pack ord1 -> valid_order pack ord2 ->
  o_verdict (build_ord_sym ord1 w rp goal) = o_verdict (build_ord_sym ord2 w rp goal) /\
  forall p, content_at (o_world (build_ord_sym ord1 w rp goal)) p = content_at (o_world (build_ord_sym ord2 w rp goal)) p.
Proof. exact build_ord_schedule_independent_sym. Qed.

(* C01 on every schedule *)
Theorem C06_every_work_order_equals_scratch : forall (w : world sym) rp goal w1 tbl pack ord,
  disk_inv sym_eqb SContent w -> hist_sound_sym w ->
  init_dir sym w = Ok (w1, tbl) -> get_nodes sym w1 rp goal = Ok pack ->
  Forall det_node (p_nodes pack) -> valid_order pack ord ->
  o_verdict (build_ord_sym ord w rp goal) = VOk ->
  forall t, In t (plan_targets pack) ->
    content_at (o_world (build_ord_sym ord w rp goal)) t = content_at (scratch_world w pack) t.
Proof. exact build_ord_equals_scratch_sym. Qed.

(* the verdict is decided by the from-scratch run alone (no state file being damaged): success iff every leaf exists
   and every command of the plan, run in plan order from absent targets, exits 0 and leaves all its targets *)
Theorem C06_success_iff_from_scratch_success : forall (w w1 : world sym) rp goal tbl pack ord,
  disk_inv sym_eqb SContent w -> hist_sound_sym w ->
  init_dir sym w = Ok (w1, tbl) -> get_nodes sym w1 rp goal = Ok pack ->
  Forall det_node (p_nodes pack) -> valid_order pack ord ->
  read_histories sym sym_eqb SRule w1 (p_nodes pack) <> None ->
  (o_verdict (build_ord_sym ord w rp goal) = VOk <-> scratch_success sym w pack).
Proof. exact build_ord_verdict_scratch_corrected_sym. Qed.

(* the orders are not a degenerate notion: two different valid orders of one plan execute different command
   sequences and still agree (vm_compute on a concrete history with two independent rules producing
   byte-identical files) *)
Theorem C06_example_two_orders :
  valid_order cx_pack [0; 1; 3; 2]%nat /\ valid_order cx_pack [0; 1; 2; 3]%nat /\ [0; 1; 3; 2]%nat <> [0; 1; 2; 3]%nat.
Proof. split; [exact (proj1 ex_orders_valid) | split; [exact (proj2 ex_orders_valid) | exact ex_orders_differ]]. Qed.

(* ------------------------------------------------------------------------------------------------------
   INTERLEAVINGS INSIDE THE WORK STEPS (Model/Fine.v; proofs in Proofs/Fine{Basic,Rule,Inv,Serial,Facts}.v).
   A rule thread's work is split at every operation on the cache directory — the only state the threads share:
   the back-up rename, the is_file check of a restore, the restore rename (which may find the entry gone: another
   rule took it between the check and the rename, the situation of the repaired defect F2). A run is any list of
   worker numbers, one step each; `complete_run`: afterwards every worker is done. For any two complete runs —
   from any state with the disk invariant and sound histories, a plan of deterministic confined commands — THE
   SAME VERDICT and THE SAME CONTENT OF EVERY FILE; the serial run is Build.build; a successful run leaves the
   from-scratch contents. "Independent rules that happen to produce or need byte-identical files never make each
   other fail": C06_racing_rules_example shows two rules that both see one cache entry at their check; whichever
   loses the rename re-runs its command; both orders give the same files (by the theorem and by computation).
   Every schedule the exploration runs on the implementation is replayed through this model (suite sched, "fine"). *)
Local Open Scope string_scope.
Local Notation build_fine_sym := (build_fine sym_eqb SContent SList SRule).
Local Notation complete_run_sym := (complete_run sym sym_eqb SContent SList SRule).

Theorem C06_same_verdict_and_files_for_every_interleaving : forall (w : world sym) rp goal w1 tbl pack ch1 ch2,
  disk_inv sym_eqb SContent w -> hist_sound_sym w ->
  init_dir sym w = Ok (w1, tbl) -> get_nodes sym w1 rp goal = Ok pack -> Forall det_node (p_nodes pack) ->
  complete_run_sym ch1 w rp goal -> complete_run_sym ch2 w rp goal ->
  o_verdict (build_fine_sym ch1 w rp goal) = o_verdict (build_fine_sym ch2 w rp goal) /\
  forall p, content_at (o_world (build_fine_sym ch1 w rp goal)) p = content_at (o_world (build_fine_sym ch2 w rp goal)) p.
Proof. exact build_fine_schedule_independent_sym. Qed.

Theorem C06_serial_interleaving_is_the_build : forall (w : world sym) rp goal w1 tbl pack blobs t',
  disk_inv sym_eqb SContent w -> hist_sound_sym w ->
  init_dir sym w = Ok (w1, tbl) -> get_nodes sym w1 rp goal = Ok pack -> Forall det_node (p_nodes pack) ->
  take_blobs sym SContent tbl (worker_paths pack) = (blobs, t') ->
  build_fine_sym (serial_choices sym pack blobs) w rp goal = build_sym w rp goal.
Proof. exact build_fine_serial_sym. Qed.

Theorem C06_every_interleaving_has_the_builds_verdict : forall (w : world sym) rp goal w1 tbl pack ch,
  disk_inv sym_eqb SContent w -> hist_sound_sym w ->
  init_dir sym w = Ok (w1, tbl) -> get_nodes sym w1 rp goal = Ok pack -> Forall det_node (p_nodes pack) ->
  complete_run_sym ch w rp goal ->
  o_verdict (build_fine_sym ch w rp goal) = o_verdict (build_sym w rp goal).
Proof. exact build_fine_verdict_sym. Qed.

Theorem C06_every_interleaving_equals_scratch : forall (w : world sym) rp goal w1 tbl pack ch,
  disk_inv sym_eqb SContent w -> hist_sound_sym w ->
  init_dir sym w = Ok (w1, tbl) -> get_nodes sym w1 rp goal = Ok pack -> Forall det_node (p_nodes pack) ->
  complete_run_sym ch w rp goal ->
  o_verdict (build_fine_sym ch w rp goal) = VOk ->
  forall t, In t (plan_targets pack) ->
    content_at (o_world (build_fine_sym ch w rp goal)) t = content_at (scratch_world w pack) t.
Proof. exact build_fine_equals_scratch_sym. Qed.

Theorem C06_racing_rules_example :
  o_verdict (build_fine_sym fx_c_wins fx_w RULES_PATH None) = VOk /\
  o_verdict (build_fine_sym fx_b_wins fx_w RULES_PATH None) = VOk /\
  o_commands (build_fine_sym fx_c_wins fx_w RULES_PATH None) = [bs "gen b =x @a"] /\
  o_commands (build_fine_sym fx_b_wins fx_w RULES_PATH None) = [bs "gen c =x @a"] /\
  content_at (o_world (build_fine_sym fx_c_wins fx_w RULES_PATH None)) (bs "b") = Some (bs "x1") /\
  content_at (o_world (build_fine_sym fx_b_wins fx_w RULES_PATH None)) (bs "b") = Some (bs "x1") /\
  content_at (o_world (build_fine_sym fx_c_wins fx_w RULES_PATH None)) (bs "c") = Some (bs "x1") /\
  content_at (scratch_world fx_w fx_pack) (bs "c") = Some (bs "x1").
Proof. exact fx_values. Qed.

(* the hypotheses hold after every history (C01_invariants_after_every_history), so: after ANY finite history of the
   C01 alphabet in which every build ran deterministic commands, the build of a plan of deterministic commands gives the
   same verdict and the same content of every file under every interleaving of the rule threads *)
Theorem C06_every_history_every_interleaving : forall t0 (ops : list (op sym)) goal w1 tbl pack ch1 ch2,
  det_history sym sym_eqb SContent SList SRule (init_world Fine t0) ops ->
  let w := fold_left (fun w o => fst (apply_op sym_eqb SContent SList SRule w o)) ops (init_world Fine t0) in
  init_dir sym w = Ok (w1, tbl) -> get_nodes sym w1 RULES_PATH goal = Ok pack -> Forall det_node (p_nodes pack) ->
  complete_run_sym ch1 w RULES_PATH goal -> complete_run_sym ch2 w RULES_PATH goal ->
  o_verdict (build_fine_sym ch1 w RULES_PATH goal) = o_verdict (build_fine_sym ch2 w RULES_PATH goal) /\
  forall p, content_at (o_world (build_fine_sym ch1 w RULES_PATH goal)) p = content_at (o_world (build_fine_sym ch2 w RULES_PATH goal)) p.
Proof.
  intros t0 ops goal w1 tbl pack ch1 ch2 Hd w Hi Hg Hdet Hc1 Hc2.
  destruct (reach_hist_sound_partial_sym t0 ops Hd) as [Hinv Hs].
  exact (build_fine_schedule_independent_sym w RULES_PATH goal w1 tbl pack ch1 ch2 Hinv Hs Hi Hg Hdet Hc1 Hc2).
Qed.

Check C06_same_events_every_schedule.
Check C06_same_verdict_and_files_for_every_work_order.
Check C06_same_verdict_and_files_for_every_interleaving.

(* ---- clean under every interleaving of its rule threads (round 4; Model/CleanFine.v, Proofs/CleanFine*.v) ----
   Any two complete runs of a clean give the same verdict, the same file at every workspace path, the same CONTENT under
   every cache name, the same histories and table — under the fine clock (disk invariant) and under any clock (per-path
   invariant) — and agree with the serial Build.clean. What does depend on the order, and nothing else: which of two
   byte-identical files ends up as the cache entry (CleanFineFacts.clean_fine_entry_attributes_depend_on_order). *)
From Coq Require Import Relations.
From Ruler Require Import Bytes AList RuleSyntax TopoSort World Work Build Ops Inv InvFacts BuildSpec C01Facts C02Sym CoarseInv C18CoarseFacts Sched Fine FineCor CleanFine CleanFineBasic CleanFineInv CleanFineFacts.
Local Open Scope nat_scope.

Theorem C06_clean_serial_run_is_the_clean : forall (w : world sym) rp goal w1 tbl pack,
  init_dir sym w = Ok (w1, tbl) -> get_nodes sym w1 rp goal = Ok pack ->
  clean_fine_sym (cserial (node_blobs SContent tbl (p_nodes pack))) w rp goal = clean_sym w rp goal.
Proof. exact clean_fine_serial_sym. Qed.
Print Assumptions C06_clean_serial_run_is_the_clean.

Theorem C06_clean_same_outcome_for_every_interleaving : forall (w : world sym) rp goal ch1 ch2,
  disk_inv sym_eqb SContent w ->
  clean_complete_sym ch1 w rp goal -> clean_complete_sym ch2 w rp goal ->
  let o1 := clean_fine_sym ch1 w rp goal in
  let o2 := clean_fine_sym ch2 w rp goal in
  o_verdict o1 = o_verdict o2 /\
  (forall p, fget (o_world o1) p = fget (o_world o2) p) /\
  (forall t, cache_content sym_eqb (o_world o1) t = cache_content sym_eqb (o_world o2) t) /\
  rd_hist (w_rd (o_world o1)) = rd_hist (w_rd (o_world o2)) /\
  rd_table (w_rd (o_world o1)) = rd_table (w_rd (o_world o2)).
Proof. exact clean_fine_schedule_independent_sym. Qed.
Print Assumptions C06_clean_same_outcome_for_every_interleaving.

Theorem C06_clean_same_outcome_for_every_interleaving_any_clock : forall (w : world sym) rp goal ch1 ch2,
  coarse_inv sym_eqb SContent w ->
  clean_complete_sym ch1 w rp goal -> clean_complete_sym ch2 w rp goal ->
  let o1 := clean_fine_sym ch1 w rp goal in
  let o2 := clean_fine_sym ch2 w rp goal in
  o_verdict o1 = o_verdict o2 /\
  (forall p, fget (o_world o1) p = fget (o_world o2) p) /\
  (forall t, cache_content sym_eqb (o_world o1) t = cache_content sym_eqb (o_world o2) t) /\
  rd_hist (w_rd (o_world o1)) = rd_hist (w_rd (o_world o2)) /\
  rd_table (w_rd (o_world o1)) = rd_table (w_rd (o_world o2)).
Proof. exact clean_fine_schedule_independent_coarse_sym. Qed.
Print Assumptions C06_clean_same_outcome_for_every_interleaving_any_clock.

Theorem C06_clean_every_interleaving_equals_the_clean : forall (w : world sym) rp goal ch,
  disk_inv sym_eqb SContent w -> clean_complete_sym ch w rp goal ->
  let o1 := clean_fine_sym ch w rp goal in
  let o2 := clean_sym w rp goal in
  o_verdict o1 = o_verdict o2 /\
  (forall p, fget (o_world o1) p = fget (o_world o2) p) /\
  (forall t, cache_content sym_eqb (o_world o1) t = cache_content sym_eqb (o_world o2) t) /\
  rd_hist (w_rd (o_world o1)) = rd_hist (w_rd (o_world o2)) /\
  rd_table (w_rd (o_world o1)) = rd_table (w_rd (o_world o2)).
Proof. exact clean_fine_equals_clean_sym. Qed.
Print Assumptions C06_clean_every_interleaving_equals_the_clean.
