(* C06 — the outcome of a build does not depend on thread scheduling.
   Only the property theorems; proofs in Proofs/ProtocolFacts.v.
   PARTIAL. What is proved, for every interleaving: every complete execution consists of exactly the same
   events — each worker is spawned, receives on each in-edge once, works once, sends on each out-edge once,
   finishes and is joined — only their order differs, and all complete executions end in the same protocol
   state; with C03 (a consumer works after all its producers) every complete execution is a linearisation
   of the same dependency order. What is NOT proved is that the *effects* of the work steps of independent
   rules on the shared cache commute up to what the property observes (verdict and workspace contents):
   that is where the repaired defect F2 lived (restore's check-then-rename race), and it is decided on the
   implementation by schedule exploration — serial, random, PCT and bounded exhaustive schedules of the
   same invocation must give the same verdict and workspace, with the serial run compared to the model. *)
From Coq Require Import List Arith Permutation.
From Ruler Require Import Bytes Protocol ProtocolFacts.
Local Close Scope N_scope.
Local Open Scope nat_scope.

Theorem C06_same_events_every_schedule : forall g evs1 evs2 s1 s2, wf_graph g ->
  run_events g (init_pstate g) evs1 = Some s1 -> finished g s1 = true ->
  run_events g (init_pstate g) evs2 = Some s2 -> finished g s2 = true ->
  Permutation evs1 evs2 /\ s1 = s2.
Proof. exact c06_same_events_every_schedule. Qed.

Theorem C06_complete_run_events : forall g evs s, wf_graph g ->
  run_events g (init_pstate g) evs = Some s -> finished g s = true ->
  NoDup evs /\ (forall ev, In ev evs <-> event_of_graph g ev) /\ s = final_pstate g.
Proof. exact c06_complete_run_events. Qed.

Theorem C06_complete_run_length : forall g evs s, wf_graph g ->
  run_events g (init_pstate g) evs = Some s -> finished g s = true ->
  length evs = measure g (init_pstate g).
Proof. exact c06_complete_run_length. Qed.

Check C06_same_events_every_schedule.
