(* C11 — being killed at any point never wedges or corrupts: the next build recovers.
   Only the property theorems; proofs in Proofs/C11Facts.v (+ InvFacts, C16, C01).
   A crash state is what is on disk after ANY prefix of the primitive actions of ruler's threads and of the
   commands (`ruler_step` = every constructor of Inv.step except the user's mv and the user's tampering with the ruler
   directory; every interleaving is a sequence of such steps). After the repair of F3 a state file is
   replaced under its real name by a single rename, so in the model the write is one step; what a kill in
   the middle leaves is a `.partial` file that nothing reads, and by C16 a torn file would be rejected, not
   misread.
   PARTIAL with respect to "completes successfully and satisfies C01": proved: at every crash state the
   disk invariant holds (cache content-addressed, remembered states sound), no state file under a real name
   is damaged, and the next build is not wedged (never fails with the fatal unreadable-table / unreadable-
   history verdicts); C01 then applies to that next build because its hypotheses are disk_inv and history
   soundness — history soundness at crash states *inside* a build is not proved separately (it is proved
   at quiescent points); content preservation at the crash instant is C08 per step. On the implementation
   every mutation of every scenario is a crash point (creates, torn writes, renames, inside commands too):
   the snapshot is checked (C07, C08) and a fresh build from it must terminate, succeed when a from-scratch
   build would, and satisfy C01. Power-loss reordering below the file-system API is not modelled. *)
From Coq Require Import Relations.
From Ruler Require Import Bytes AList RuleSyntax TopoSort World Cmdlang Work Build Ops Inv BuildSpec Ideal InvFacts C01Hist C01Facts C11Facts
     Acts ActsFacts F6Facts.

Theorem C11_crash_state_recovers : forall w w' : world sym,
  disk_inv sym_eqb SContent w -> no_bad_state_files sym sym_eqb w ->
  clos_refl_trans _ (ruler_step sym sym_eqb SContent) w w' ->
  disk_inv sym_eqb SContent w' /\ cache_addressed sym_eqb SContent w' /\ no_bad_state_files sym sym_eqb w' /\
  (forall rp goal, o_verdict (build sym_eqb SContent SList SRule w' rp goal) <> VFatal FTable /\
                   o_verdict (build sym_eqb SContent SList SRule w' rp goal) <> VFatal FHistory).
Proof. exact c11_crash_state_recovers_sym. Qed.

(* the modelled build and clean consist of such steps only (so every prefix of them is covered) *)
Theorem C11_build_is_ruler_steps : forall (w : world sym) rp goal,
  disk_inv sym_eqb SContent w -> rd_table (w_rd w) <> Some SF_bad ->
  clos_refl_trans _ (ruler_step sym sym_eqb SContent) w (o_world (build sym_eqb SContent SList SRule w rp goal)).
Proof. exact build_rsteps_sym. Qed.

(* no action of ruler or of a command damages a state file; only the user can *)
Theorem C11_state_files_stay_good : forall (w w' : world sym),
  step sym_eqb SContent w w' -> no_bad_state_files sym sym_eqb w ->
  no_bad_state_files sym sym_eqb w' \/ exists rd', w' = set_rd w rd' /\ rdir_shrinks sym sym_eqb (w_rd w) rd'.
Proof. exact (step_keeps_state_files_good sym sym_eqb SContent sym_eqb_spec). Qed.

(* a build from a state without damaged state files is never wedged *)
Theorem C11_build_not_wedged : forall (w : world sym) rp goal,
  no_bad_state_files sym sym_eqb w ->
  o_verdict (build sym_eqb SContent SList SRule w rp goal) <> VFatal FTable /\
  o_verdict (build sym_eqb SContent SList SRule w rp goal) <> VFatal FHistory.
Proof. exact build_not_wedged_sym. Qed.

(* the premise is satisfiable and kept by whole builds and cleans *)
Theorem C11_initial_state_good : forall mode t0, no_bad_state_files sym sym_eqb (init_world mode t0).
Proof. exact (init_world_state_files_good sym sym_eqb). Qed.

Theorem C11_build_keeps_state_files_good : forall (w : world sym) rp goal,
  disk_inv sym_eqb SContent w -> no_bad_state_files sym sym_eqb w ->
  no_bad_state_files sym sym_eqb (o_world (build sym_eqb SContent SList SRule w rp goal)).
Proof. exact (build_keeps_state_files_good sym sym_eqb SContent SList SRule sym_eqb_spec). Qed.

(* ------------------------------------------------------------------------------------------------------
   EVERY CRASH POINT, EXPLICITLY (Model/Acts.v, Proofs/Acts*.v). `build_acts w rp goal` / `clean_acts` list the
   primitive disk actions of the modelled invocation in order (mkdirs, renames into and out of the cache, one
   script line of a command each, the replacement of a state file); the crash states are the disk after every
   prefix, `run_acts (firstn k acts) w`. The crash suite compares these prefix states, one by one and in order, with
   the implementation's disk at every action boundary.
   crash_ok = disk invariant (cache content-addressed, remembered states sound) + sound rule histories + no
   damaged state file. It holds after every history without user damage to state files, at EVERY crash point of a
   build or clean started there, and therefore the next build from ANY crash point is never wedged and satisfies
   C01: whenever it reports success every target of its plan holds the from-scratch content. (Whether it reports
   success is decided by the user's commands; see C01/C06 for the verdict.) *)

Local Notation crash_ok_sym := (crash_ok sym sym_eqb SContent SList SRule).
Local Notation build_acts_sym := (build_acts sym_eqb SContent SList SRule).
Local Notation clean_acts_sym := (clean_acts sym_eqb SContent).
Local Notation run_acts_sym := (run_acts sym_eqb SRule).
Local Notation build_sym := (build sym_eqb SContent SList SRule).

Theorem C11_crash_ok_meaning : forall w : world sym,
  crash_ok_sym w <->
  disk_inv sym_eqb SContent w /\ hist_sound sym sym_eqb SContent SList SRule w /\ no_bad_state_files sym sym_eqb w.
Proof. exact crash_ok_sym_unfold. Qed.

(* the action lists are the modelled build and clean: running all actions gives exactly their final disk *)
Theorem C11_actions_are_the_build : forall (w : world sym) rp goal,
  run_acts_sym (build_acts_sym w rp goal) w = o_world (build_sym w rp goal).
Proof. exact acts_build_sound_sym. Qed.

Theorem C11_actions_are_the_clean : forall (w : world sym) rp goal,
  run_acts_sym (clean_acts_sym w rp goal) w = o_world (clean sym_eqb SContent w rp goal).
Proof. exact acts_clean_sound_sym. Qed.

(* every crash point of a build / of a clean *)
Theorem C11_every_crash_point_of_a_build : forall (w : world sym) goal pre suf,
  crash_ok_sym w -> build_det sym w goal ->
  build_acts_sym w RULES_PATH goal = pre ++ suf -> crash_ok_sym (run_acts_sym pre w).
Proof. exact acts_build_crash_ok_sym. Qed.

Theorem C11_every_crash_point_of_a_clean : forall (w : world sym) goal pre suf,
  crash_ok_sym w -> clean_acts_sym w RULES_PATH goal = pre ++ suf -> crash_ok_sym (run_acts_sym pre w).
Proof. exact acts_clean_crash_ok_sym. Qed.

(* the next build (some time later: tick) from any crash point of a build *)
Theorem C11_next_build_after_a_killed_build : forall (w : world sym) goal k goal' w1 tbl pack,
  crash_ok_sym w -> build_det sym w goal ->
  let wc := tick (run_acts_sym (firstn k (build_acts_sym w RULES_PATH goal)) w) in
  crash_ok_sym wc /\ cache_addressed sym_eqb SContent wc /\
  o_verdict (build_sym wc RULES_PATH goal') <> VFatal FTable /\
  o_verdict (build_sym wc RULES_PATH goal') <> VFatal FHistory /\
  (init_dir sym wc = Ok (w1, tbl) -> get_nodes sym w1 RULES_PATH goal' = Ok pack ->
   Forall det_node (p_nodes pack) ->
   o_verdict (build_sym wc RULES_PATH goal') = VOk ->
   forall t, In t (plan_targets pack) ->
     content_at (o_world (build_sym wc RULES_PATH goal')) t = content_at (scratch_world wc pack) t).
Proof. exact c11_recovery_after_build_crash_tick_sym. Qed.

Theorem C11_next_build_after_a_killed_clean : forall (w : world sym) goal k goal' w1 tbl pack,
  crash_ok_sym w ->
  let wc := tick (run_acts_sym (firstn k (clean_acts_sym w RULES_PATH goal)) w) in
  crash_ok_sym wc /\ cache_addressed sym_eqb SContent wc /\
  o_verdict (build_sym wc RULES_PATH goal') <> VFatal FTable /\
  o_verdict (build_sym wc RULES_PATH goal') <> VFatal FHistory /\
  (init_dir sym wc = Ok (w1, tbl) -> get_nodes sym w1 RULES_PATH goal' = Ok pack ->
   Forall det_node (p_nodes pack) ->
   o_verdict (build_sym wc RULES_PATH goal') = VOk ->
   forall t, In t (plan_targets pack) ->
     content_at (o_world (build_sym wc RULES_PATH goal')) t = content_at (scratch_world wc pack) t).
Proof. exact c11_recovery_after_clean_crash_tick_sym. Qed.

(* the premise holds after every history of the C01 alphabet in which the user did not plant or damage state files *)
Theorem C11_crash_ok_after_every_history : forall t0 (ops : list (op sym)),
  det_history sym sym_eqb SContent SList SRule (init_world Fine t0) ops ->
  Forall (fun o => match o with OSetTable _ | OSetHist _ _ => False | _ => True end) ops ->
  crash_ok_sym (fold_left (fun w o => fst (apply_op sym_eqb SContent SList SRule w o)) ops (init_world Fine t0)).
Proof. exact history_crash_ok_sym. Qed.

(* After the repair of F6 (build.rs saves the table without the entries of the files it handles BEFORE any worker
   starts): at every crash point strictly inside a build — after the initial actions, before the final write — the
   table on disk has NO entry for any leaf or target of the plan, so what it remembers can never describe a file
   that a worker has since replaced. No hypothesis about the clock or the hashes: this is what makes a kill safe
   under a coarse clock too (suite crash_coarse found the defect and now checks the repair). *)
Theorem C11_no_stale_table_entry_inside_a_build : forall (w : world sym) goal w1 t pack k tbl,
  init_dir sym w = Ok (w1, t) -> get_nodes sym w1 RULES_PATH goal = Ok pack ->
  (length (init_acts w) < k < length (build_acts_sym w RULES_PATH goal))%nat ->
  rd_table (w_rd (run_acts_sym (firstn k (build_acts_sym w RULES_PATH goal)) w)) = Some (SF_ok tbl) ->
  forall p, In p (p_leaves pack) \/ In p (plan_targets pack) -> alookup bytes_eqb tbl p = None.
Proof. exact f6_no_stale_entries_at_sym. Qed.

Check C11_crash_state_recovers.
Check C11_every_crash_point_of_a_build.
Check C11_next_build_after_a_killed_build.


(* ---- killed in the middle of a CONCURRENT build (Model/Fine.v) ----
   `ch` is any list of worker choices, hence any prefix of any interleaving of the rule threads at their
   cache operations: the state reached is crash_ok, the next build reads its state files, and when it
   succeeds every target has its from-scratch content. The _tick variant lets the clock advance between
   the kill and the next invocation; the last theorem is the F6 repair under interleavings: the table on
   disk never mentions a path a worker may be rewriting. *)
From Ruler Require Import Inv Ideal BuildSpec InvFacts C01Hist C01Facts C11Facts C02Sym Sched Fine FineFacts FineCorStep FineCor FineStatus FineCorFinal FineCorExamples.
Local Open Scope nat_scope.

Theorem C11_killed_inside_any_interleaving : forall (w : world sym) rp goal w1 tbl pack hists blobs t' ch goal' w1' tbl' pack',
  disk_inv sym_eqb SContent w -> hist_sound_sym w -> no_bad_state_files sym sym_eqb w ->
  init_dir sym w = Ok (w1, tbl) -> get_nodes sym w1 rp goal = Ok pack -> Forall det_node (p_nodes pack) ->
  read_histories sym sym_eqb SRule w1 (p_nodes pack) = Some hists ->
  take_blobs sym SContent tbl (worker_paths pack) = (blobs, t') ->
  let wc := fn_world (frun_sym pack blobs hists ch (fn_start_sym w1 t' pack)) in
  crash_ok_sym wc /\ cache_addressed sym_eqb SContent wc /\
  o_verdict (build_sym wc RULES_PATH goal') <> VFatal FTable /\
  o_verdict (build_sym wc RULES_PATH goal') <> VFatal FHistory /\
  (init_dir sym wc = Ok (w1', tbl') -> get_nodes sym w1' RULES_PATH goal' = Ok pack' ->
   Forall det_node (p_nodes pack') ->
   o_verdict (build_sym wc RULES_PATH goal') = VOk ->
   forall t, In t (plan_targets pack') ->
     content_at (o_world (build_sym wc RULES_PATH goal')) t = content_at (scratch_world wc pack') t).
Proof. exact fine_crash_recovers_sym. Qed.
Print Assumptions C11_killed_inside_any_interleaving.

Theorem C11_killed_inside_any_interleaving_later : forall (w : world sym) rp goal w1 tbl pack hists blobs t' ch goal' w1' tbl' pack',
  disk_inv sym_eqb SContent w -> hist_sound_sym w -> no_bad_state_files sym sym_eqb w ->
  init_dir sym w = Ok (w1, tbl) -> get_nodes sym w1 rp goal = Ok pack -> Forall det_node (p_nodes pack) ->
  read_histories sym sym_eqb SRule w1 (p_nodes pack) = Some hists ->
  take_blobs sym SContent tbl (worker_paths pack) = (blobs, t') ->
  let wc := tick (fn_world (frun_sym pack blobs hists ch (fn_start_sym w1 t' pack))) in
  crash_ok_sym wc /\ cache_addressed sym_eqb SContent wc /\
  o_verdict (build_sym wc RULES_PATH goal') <> VFatal FTable /\
  o_verdict (build_sym wc RULES_PATH goal') <> VFatal FHistory /\
  (init_dir sym wc = Ok (w1', tbl') -> get_nodes sym w1' RULES_PATH goal' = Ok pack' ->
   Forall det_node (p_nodes pack') ->
   o_verdict (build_sym wc RULES_PATH goal') = VOk ->
   forall t, In t (plan_targets pack') ->
     content_at (o_world (build_sym wc RULES_PATH goal')) t = content_at (scratch_world wc pack') t).
Proof. exact fine_crash_recovers_tick_sym. Qed.
Print Assumptions C11_killed_inside_any_interleaving_later.

Theorem C11_no_stale_table_entry_in_any_interleaving : forall (w1 : world sym) (tbl : table sym) pack hists blobs t' ch,
  take_blobs sym SContent tbl (worker_paths pack) = (blobs, t') ->
  let st := frun_sym pack blobs hists ch (fn_start_sym w1 t' pack) in
  rd_table (w_rd (fn_world st)) = Some (SF_ok t') /\
  forall p, In p (p_leaves pack) \/ In p (plan_targets pack) -> alookup bytes_eqb t' p = None.
Proof. exact fine_no_stale_entries_sym. Qed.
Print Assumptions C11_no_stale_table_entry_in_any_interleaving.

(* ---- ANY clock (round 4; Proofs/CoarseCrash*.v) ----
   The theorems above assume the property's "distinct writes carry distinct times". Defect F6 lived where that fails
   (a coarse clock) AND ruler is killed: these theorems close exactly that corner. From the per-path invariant
   `coarse_inv` (which holds after every history with confined commands under either clock, C18), at EVERY prefix of
   the action list of a build or clean the disk satisfies `pre_inv` (cache content-addressed, no file newer than the
   clock, every entry of the table ON DISK sound for the file now at its path); after the tick that separates the kill
   from the next invocation `coarse_inv` holds again, so by C18 the saved table cannot change any later result; the
   same after any history that contains kills, and at every state of every interleaving of the rule threads at their
   cache operations. The last theorem is the necessity of F6's repair: without the early table write the statement is
   false. *)
From Ruler Require Import Inv Ideal BuildSpec InvFacts C01Hist C01Facts C11Facts C02Sym Acts Sched Fine FineFacts C18Facts CoarseInv CoarseBuild C18CoarseFacts CoarseCrash CoarseCrashFacts CoarseCrashFine EpochFacts.
Local Open Scope nat_scope.

Theorem C11_any_clock_every_crash_point_of_a_build : forall (w : world sym) goal pre suf,
  coarse_inv_sym w -> build_confined sym w goal ->
  build_acts_sym w RULES_PATH goal = pre ++ suf ->
  pre_inv_sym (run_acts_sym pre w).
Proof. exact coarse_build_crash_point_sym. Qed.
Print Assumptions C11_any_clock_every_crash_point_of_a_build.

Theorem C11_any_clock_every_crash_point_of_a_clean : forall (w : world sym) goal pre suf,
  coarse_inv_sym w ->
  clean_acts_sym w RULES_PATH goal = pre ++ suf ->
  pre_inv_sym (run_acts_sym pre w).
Proof. exact coarse_clean_crash_point_sym. Qed.
Print Assumptions C11_any_clock_every_crash_point_of_a_clean.

Theorem C11_any_clock_invariant_restored_after_the_kill : forall (w : world sym) goal pre suf,
  coarse_inv_sym w -> build_confined sym w goal ->
  build_acts_sym w RULES_PATH goal = pre ++ suf ->
  coarse_inv_sym (tick (run_acts_sym pre w)).
Proof. exact coarse_crash_then_tick_sym. Qed.
Print Assumptions C11_any_clock_invariant_restored_after_the_kill.

Theorem C11_any_clock_every_history_with_kills : forall mode (t0 : N) (kops : list (kop sym)),
  confined_khistory_sym (init_world mode t0) kops ->
  coarse_inv_sym (fold_left apply_kop_sym kops (init_world mode t0)).
Proof. exact coarse_inv_every_history_with_kills_sym. Qed.
Print Assumptions C11_any_clock_every_history_with_kills.

Theorem C11_any_clock_crash_point_after_a_history_with_kills : forall mode (t0 : N) (kops : list (kop sym)) goal k,
  confined_khistory_sym (init_world mode t0) kops ->
  build_confined sym (fold_left apply_kop_sym kops (init_world mode t0)) goal ->
  let w := fold_left apply_kop_sym kops (init_world mode t0) in
  pre_inv_sym (run_acts_sym (firstn k (build_acts_sym w RULES_PATH goal)) w).
Proof. exact coarse_crash_point_after_kills_sym. Qed.
Print Assumptions C11_any_clock_crash_point_after_a_history_with_kills.

Theorem C11_any_clock_killed_inside_any_interleaving : forall (w : world sym) rp goal w1 tbl pack hists blobs t' ch,
  coarse_inv sym_eqb SContent w ->
  init_dir sym w = Ok (w1, tbl) -> get_nodes sym w1 rp goal = Ok pack -> Forall node_confined (p_nodes pack) ->
  take_blobs sym SContent tbl (worker_paths pack) = (blobs, t') ->
  pre_inv sym_eqb SContent (fn_world (frun_sym pack blobs hists ch (fn_start_sym w1 t' pack))).
Proof. exact coarse_fine_crash_point_sym. Qed.
Print Assumptions C11_any_clock_killed_inside_any_interleaving.

Theorem C11_any_clock_without_the_early_table_write_refuted :
  ~ (forall (w : world sym) goal pre suf,
       coarse_inv_sym w -> build_confined sym w goal ->
       build_acts_legacy_sym w RULES_PATH goal = pre ++ suf ->
       pre_inv_sym (run_acts_sym pre w)).
Proof. exact coarse_build_crash_point_legacy_refuted. Qed.
Print Assumptions C11_any_clock_without_the_early_table_write_refuted.
