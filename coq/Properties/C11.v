(* C11 — being killed at any point never wedges or corrupts: the next build recovers.
   Only the property theorems; proofs in Proofs/C11Facts.v (+ InvFacts, C16, C01).
   A crash state is what is on disk after ANY prefix of the primitive actions of ruler's threads and of the
   commands (`ruler_step` = every constructor of Inv.step except the user's tampering with the ruler
   directory; every interleaving is a sequence of such steps). After the repair of F3 a state file is
   replaced under its real name by a single rename, so in the model the write is one step; what a kill in
   the middle leaves is a `.partial` file that nothing reads, and by C16 a torn file would be rejected, not
   misread.
   PARTIAL with respect to "completes successfully and satisfies C01": proved: at every crash state the
   disk invariant holds (cache content-addressed, remembered states sound), no state file under a real name
   is damaged, and the next build is not wedged (never fails with the fatal unreadable-table / unreadable-
   history verdicts); C01 then applies to that next build because its hypotheses are disk_inv and history
   soundness — history soundness at crash states *inside* a build is not proved separately (it is proved
   at quiescent points); content preservation at the crash instant is C08 per step. On the implementation
   every mutation of every scenario is a crash point (creates, torn writes, renames, inside commands too):
   the snapshot is checked (C07, C08) and a fresh build from it must terminate, succeed when a from-scratch
   build would, and satisfy C01. Power-loss reordering below the file-system API is not modelled. *)
From Coq Require Import Relations.
From Ruler Require Import Bytes AList RuleSyntax TopoSort World Cmdlang Work Build Ops Inv InvFacts C11Facts.

Theorem C11_crash_state_recovers : forall w w' : world sym,
  disk_inv sym_eqb SContent w -> no_bad_state_files sym sym_eqb w ->
  clos_refl_trans _ (ruler_step sym sym_eqb SContent) w w' ->
  disk_inv sym_eqb SContent w' /\ cache_addressed sym_eqb SContent w' /\ no_bad_state_files sym sym_eqb w' /\
  (forall rp goal, o_verdict (build sym_eqb SContent SList SRule w' rp goal) <> VFatal FTable /\
                   o_verdict (build sym_eqb SContent SList SRule w' rp goal) <> VFatal FHistory).
Proof. exact c11_crash_state_recovers_sym. Qed.

(* the modelled build and clean consist of such steps only (so every prefix of them is covered) *)
Theorem C11_build_is_ruler_steps : forall (w : world sym) rp goal,
  disk_inv sym_eqb SContent w -> rd_table (w_rd w) <> Some SF_bad ->
  clos_refl_trans _ (ruler_step sym sym_eqb SContent) w (o_world (build sym_eqb SContent SList SRule w rp goal)).
Proof. exact build_rsteps_sym. Qed.

(* no action of ruler or of a command damages a state file; only the user can *)
Theorem C11_state_files_stay_good : forall (w w' : world sym),
  step sym_eqb SContent w w' -> no_bad_state_files sym sym_eqb w ->
  no_bad_state_files sym sym_eqb w' \/ exists rd', w' = set_rd w rd' /\ rdir_shrinks sym sym_eqb (w_rd w) rd'.
Proof. exact (step_keeps_state_files_good sym sym_eqb SContent sym_eqb_spec). Qed.

(* a build from a state without damaged state files is never wedged *)
Theorem C11_build_not_wedged : forall (w : world sym) rp goal,
  no_bad_state_files sym sym_eqb w ->
  o_verdict (build sym_eqb SContent SList SRule w rp goal) <> VFatal FTable /\
  o_verdict (build sym_eqb SContent SList SRule w rp goal) <> VFatal FHistory.
Proof. exact build_not_wedged_sym. Qed.

(* the premise is satisfiable and kept by whole builds and cleans *)
Theorem C11_initial_state_good : forall mode t0, no_bad_state_files sym sym_eqb (init_world mode t0).
Proof. exact (init_world_state_files_good sym sym_eqb). Qed.

Theorem C11_build_keeps_state_files_good : forall (w : world sym) rp goal,
  disk_inv sym_eqb SContent w -> no_bad_state_files sym sym_eqb w ->
  no_bad_state_files sym sym_eqb (o_world (build sym_eqb SContent SList SRule w rp goal)).
Proof. exact (build_keeps_state_files_good sym sym_eqb SContent SList SRule sym_eqb_spec). Qed.

Check C11_crash_state_recovers.
