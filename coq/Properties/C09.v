(* C09 — ruler only touches declared targets in scope and its own directory.
   Only the property theorems; proofs in Proofs/BuildFacts.v. The `file` record is content, modification time
   and executable bit, so "fget ... = fget ..." says all three are kept. "Apart from what the user's commands
   do": the hypothesis node_confined says each command writes only its own rule's targets (Model/BuildSpec.v);
   clean runs no command and needs no hypothesis. The plan is the goal's rule and its prerequisites, or all
   rules (C12), so a path outside plan_targets is a source-only file, the rules file, an undeclared file or a
   target of an out-of-scope rule. No clock assumption, any hash type. *)
From Ruler Require Import Bytes AList RuleSyntax TopoSort World Cmdlang Work Build Ops BuildSpec BuildFacts.

Theorem C09_build_frame :
  forall (T : Type) (teqb : T -> T -> bool) (hc : bytes -> T) (hl : list T -> T) (hr : rule -> T)
         (w : world T) rp goal w1 t pack p,
    init_dir T w = Ok (w1, t) -> get_nodes T w1 rp goal = Ok pack ->
    Forall node_confined (p_nodes pack) -> ~ In p (plan_targets pack) ->
    fget (o_world (build teqb hc hl hr w rp goal)) p = fget w p.
Proof. exact build_frame. Qed.

Theorem C09_clean_frame :
  forall (T : Type) (teqb : T -> T -> bool) (hc : bytes -> T) (w : world T) rp goal w1 t pack p,
    init_dir T w = Ok (w1, t) -> get_nodes T w1 rp goal = Ok pack ->
    ~ In p (plan_targets pack) ->
    fget (o_world (clean teqb hc w rp goal)) p = fget w p.
Proof. exact clean_frame. Qed.

(* when there is no plan (unreadable table, missing / invalid rules file, rejected graph) nothing outside
   the ruler directory changes at all *)
Theorem C09_build_without_plan_touches_nothing :
  forall (T : Type) (teqb : T -> T -> bool) (hc : bytes -> T) (hl : list T -> T) (hr : rule -> T)
         (w : world T) rp goal,
    (forall f, init_dir T w = Err f -> w_files (o_world (build teqb hc hl hr w rp goal)) = w_files w) /\
    (forall w1 t f, init_dir T w = Ok (w1, t) -> get_nodes T w1 rp goal = Err f ->
                    w_files (o_world (build teqb hc hl hr w rp goal)) = w_files w).
Proof. exact build_frame_fatal. Qed.

Theorem C09_clean_without_plan_touches_nothing :
  forall (T : Type) (teqb : T -> T -> bool) (hc : bytes -> T) (w : world T) rp goal,
    (forall f, init_dir T w = Err f -> w_files (o_world (clean teqb hc w rp goal)) = w_files w) /\
    (forall w1 t f, init_dir T w = Ok (w1, t) -> get_nodes T w1 rp goal = Err f ->
                    w_files (o_world (clean teqb hc w rp goal)) = w_files w).
Proof. exact clean_frame_fatal. Qed.

Check C09_build_frame.


(* ---- under every interleaving of the rule threads at their cache operations (Model/Fine.v) ---- *)
From Ruler Require Import Inv Ideal BuildSpec InvFacts C01Hist C01Facts C11Facts C02Sym Sched Fine FineFacts FineCorStep FineCor FineStatus FineCorFinal FineCorExamples.
Local Open Scope nat_scope.

Theorem C09_frame_in_every_state_of_every_interleaving : forall (w1 : world sym) (tbl : table sym) pack hists blobs t' ch,
  take_blobs sym SContent tbl (worker_paths pack) = (blobs, t') ->
  Forall node_confined (p_nodes pack) ->
  let st := frun_sym pack blobs hists ch (fn_start_sym w1 t' pack) in
  forall p, ~ In p (plan_targets pack) -> fget (fn_world st) p = fget w1 p.
Proof. exact fine_frame_sym. Qed.
Print Assumptions C09_frame_in_every_state_of_every_interleaving.

(* ---- clean under every interleaving of its rule threads (round 4; Model/CleanFine.v, Proofs/CleanFine*.v) ----
   Paths outside the plan's targets keep their file in every state of every run of a clean; without a plan nothing changes. *)
From Coq Require Import Relations.
From Ruler Require Import Bytes AList RuleSyntax TopoSort World Work Build Ops Inv InvFacts BuildSpec C01Facts C02Sym CoarseInv C18CoarseFacts Sched Fine FineCor CleanFine CleanFineBasic CleanFineInv CleanFineFacts.
Local Open Scope nat_scope.

Theorem C09_clean_frame_under_every_interleaving : forall (w : world sym) rp goal w1 tbl pack ch p,
  init_dir sym w = Ok (w1, tbl) -> get_nodes sym w1 rp goal = Ok pack ->
  ~ In p (plan_targets pack) ->
  fget (o_world (clean_fine_sym ch w rp goal)) p = fget w p.
Proof. exact clean_fine_frame_sym. Qed.
Print Assumptions C09_clean_frame_under_every_interleaving.

Theorem C09_clean_without_plan_under_every_interleaving : forall (w : world sym) rp goal ch,
  (forall w1 tbl pack, init_dir sym w = Ok (w1, tbl) -> get_nodes sym w1 rp goal <> Ok pack) ->
  w_files (o_world (clean_fine_sym ch w rp goal)) = w_files w.
Proof. exact clean_fine_frame_fatal_sym. Qed.
Print Assumptions C09_clean_without_plan_under_every_interleaving.
