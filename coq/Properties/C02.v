(* C02 — no unnecessary work: up-to-date and recoverable targets are never rebuilt.
   Only the property theorems; proofs in Proofs/BuildFacts.v.
   PARTIAL. Proved: a rule's command runs at most once per build (the executed script lines are, node by
   node in plan order, the node's whole script once or nothing), a command runs exactly when some target of
   the rule could neither be confirmed nor recovered (needs_rebuild), a target whose current hash equals the
   remembered one is left untouched, and a target whose remembered content is in the cache is restored, not
   rebuilt. Round 2 (below; proofs in Proofs/C02{Hist,Repeat,Recover,Keep,Revert,Sym}.v) adds the history-level
   statements: one rule thread whose history has the entry and whose targets are in place or in the cache
   executes nothing; repeating a successful build is a no-op; reverting a source recovers the earlier targets
   without running a command when contents are pairwise different — and the refutation showing that the
   literal "revert" clause fails when two targets hold byte-identical outputs (one cache entry per content,
   and a restore MOVES it): a known finding, see known_findings.json. *)
From Ruler Require Import Bytes AList RuleSyntax TopoSort World Cmdlang Work Build Ops Inv BuildSpec Ideal BuildFacts InvFacts C01Hist C01Facts
     C02Extra C02Hist C02Repeat C02Recover C02Keep C02Revert C02Sym.

Theorem C02_at_most_once :
  forall (T : Type) (teqb : T -> T -> bool) (hc : bytes -> T) (hl : list T -> T) (hr : rule -> T)
         (w : world T) rp goal w1 t pack,
    init_dir T w = Ok (w1, t) -> get_nodes T w1 rp goal = Ok pack ->
    exists flags : list bool,
      length flags = length (p_nodes pack) /\
      o_commands (build teqb hc hl hr w rp goal) =
      flat_map (fun nf : node * bool => if snd nf then script_lines (n_command (fst nf)) else [])
               (combine (p_nodes pack) flags).
Proof. exact build_commands_shape. Qed.

(* the command of a rule runs iff some target needs a rebuild, i.e. never when every target was confirmed
   up to date or taken back from the cache *)
Theorem C02_command_runs_iff_needed :
  forall (T : Type) (teqb : T -> T -> bool) (hc : bytes -> T),
    (forall a b : T, teqb a b = true <-> a = b) ->
    forall (w : world T) b h st cmd wr w' s,
      handle_rule teqb hc w b h st cmd = (Ok wr, w', s) ->
      (wr_option wr = CommandExecuted <-> s <> []).
Proof. intros T teqb hc _ w b h st cmd wr w' s H. exact (proj1 (handle_rule_executed_iff T teqb hc w b h st cmd wr w' s H)). Qed.

(* a target that still holds the remembered output is left untouched; one that does not is displaced into
   the cache and, when the cache holds the remembered output, restored from it *)
Theorem C02_resolution_cases :
  forall (T : Type) (teqb : T -> T -> bool) (hc : bytes -> T),
    (forall a b : T, teqb a b = true <-> a = b) ->
    forall (w : world T) remembered p assumed w',
      (resolve_single teqb hc w remembered p assumed = Ok (AlreadyCorrect, w') ->
         w' = w /\ get_file_ticket teqb hc w p assumed = Some remembered) /\
      (resolve_single teqb hc w remembered p assumed = Ok (NeedsRebuild, w') ->
         exists w0, ((w0 = w /\ fget w p = None) \/
                     (exists cur, get_file_ticket teqb hc w p assumed = Some cur /\ cur <> remembered /\
                                  back_up teqb w cur p = Some w0)) /\
                    restore teqb w0 remembered p = RNotThere /\ w' = w0).
Proof.
  intros T teqb hc Hs w remembered p assumed w'. split.
  - exact (resolve_single_already T teqb hc Hs w remembered p assumed w').
  - exact (resolve_single_needs_cache_miss T teqb hc Hs w remembered p assumed w').
Qed.

(* "NotThere" is exactly: the cache has no entry under the remembered hash *)
Theorem C02_rebuild_only_on_cache_miss :
  forall (T : Type) (teqb : T -> T -> bool) (w : world T) r p,
    restore teqb w r p = RNotThere <-> exists c, cache_of w = Some c /\ alookup teqb c r = None.
Proof. exact restore_not_there_iff. Qed.

(* ------------------------------------------------------------------------------------------------------
   HISTORY LEVEL. *)
Local Notation build_sym := (build sym_eqb SContent SList SRule).

(* one rule thread: the rule's history has an entry for the current sources, and each target either still hashes to
   the remembered output or the cache holds it (two targets that must both come out of the cache needing different
   entries): no script line is executed, whatever the command is, and the remembered hashes are what is sent on *)
Theorem C02_recorded_rule_is_not_rerun : forall (w : world sym) (b : blob sym) h key cmd remembered,
  disk_inv sym_eqb SContent w -> InvProofs.blob_ok sym sym_eqb SContent w b ->
  alookup sym_eqb h key = Some remembered ->
  length remembered = length b -> NoDup (map fst b) -> cache_of w <> None ->
  (forall i p a r, nth_error b i = Some (p, a) -> nth_error remembered i = Some r ->
     get_file_ticket sym_eqb SContent w p a = Some (fs_t r) \/
     exists c f, cache_of w = Some c /\ alookup sym_eqb c (fs_t r) = Some f) ->
  (forall i j pi ai ri pj aj rj, i <> j ->
     nth_error b i = Some (pi, ai) -> nth_error remembered i = Some ri ->
     nth_error b j = Some (pj, aj) -> nth_error remembered j = Some rj ->
     get_file_ticket sym_eqb SContent w pi ai <> Some (fs_t ri) ->
     get_file_ticket sym_eqb SContent w pj aj <> Some (fs_t rj) -> fs_t ri <> fs_t rj) ->
  exists wr w' ress,
    handle_rule sym_eqb SContent w b h key cmd = (Ok wr, w', []) /\
    wr_option wr = Resolutions ress /\ needs_rebuild ress = false /\ wr_history wr = Some h /\
    wr_tickets wr = map fs_t remembered.
Proof. exact handle_rule_no_rerun_sym. Qed.

(* "repeating a build with nothing changed runs no command and modifies no file outside the ruler directory":
   after a successful build of a plan whose commands write only their own targets (the rules file not being one),
   the same build again — at once or later — succeeds, executes nothing, leaves every file outside the ruler
   directory and the whole cache exactly as they are, and reports every target Up-to-date. Sound histories and
   determinism are not needed. *)
Theorem C02_repeated_build_is_a_noop : forall (w : world sym) rp goal w1 tbl pack,
  disk_inv sym_eqb SContent w -> init_dir sym w = Ok (w1, tbl) -> get_nodes sym w1 rp goal = Ok pack ->
  Forall node_confined (p_nodes pack) -> ~ In rp (plan_targets pack) ->
  o_verdict (build_sym w rp goal) = VOk ->
  forall w2, w2 = o_world (build_sym w rp goal) \/ w2 = tick (o_world (build_sym w rp goal)) ->
  let o2 := build_sym w2 rp goal in
  o_verdict o2 = VOk /\ o_commands o2 = [] /\
  w_files (o_world o2) = w_files w2 /\
  rd_cache (w_rd (o_world o2)) = rd_cache (w_rd w2) /\
  Forall (fun s => fst s = BUpToDate) (o_status o2).
Proof. exact repeat_build_noop_confined_sym. Qed.

(* "reverting a source to an earlier version brings the earlier targets back from the cache instead of re-running
   commands": build, edit a leaf source, build, put the leaf back, build — the third build succeeds, executes
   nothing, every target holds what it held after the first build, every status is Up-to-date or Recovered —
   PROVIDED no content that a target held after the first build also occurs at another target after the first or
   the second build (one cache entry per content). *)
Theorem C02_revert_recovers_earlier_targets : forall (w0 : world sym) rp goal w1 tbl pack s f c',
  disk_inv sym_eqb SContent w0 ->
  init_dir sym w0 = Ok (w1, tbl) -> get_nodes sym w1 rp goal = Ok pack ->
  Forall node_confined (p_nodes pack) -> ~ In rp (plan_targets pack) ->
  In s (p_leaves pack) -> s <> rp -> fget w0 s = Some f ->
  let b1 := build_sym w0 rp goal in
  let wA := tick (o_world b1) in
  let b2 := build_sym (tick (write_file wA s c')) rp goal in
  let wB := tick (o_world b2) in
  let wC := tick (write_file wB s (f_content f)) in
  let b3 := build_sym wC rp goal in
  o_verdict b1 = VOk -> o_verdict b2 = VOk ->
  (forall t t' c, In t (plan_targets pack) -> In t' (plan_targets pack) -> t <> t' ->
     content_at wA t = Some c -> (content_at wA t' = Some c \/ content_at wB t' = Some c) -> False) ->
  o_verdict b3 = VOk /\ o_commands b3 = [] /\
  (forall t, In t (plan_targets pack) -> content_at (o_world b3) t = content_at wA t) /\
  Forall (fun st => fst st = BUpToDate \/ fst st = BRecovered) (o_status b3).
Proof. exact revert_recovers_confined_sym. Qed.

(* The proviso is needed, i.e. the literal sentence of the property is FALSE of ruler: with the rules a <- s,
   b <- a, c <- a (plain copies, so a, b, c are byte-identical) the build after the revert recovers `a` and RE-RUNS
   the commands of b and c, because the cache holds one file per content and a restore moves it out (witness by
   vm_compute on the model; the same history on the implementation is the replay of the known finding
   C02:revert-reruns-byte-identical-outputs). *)
Theorem C02_revert_clause_literal_refuted :
  ~ (forall (w0 : world sym) rp goal w1 tbl pack s f c',
       disk_inv sym_eqb SContent w0 -> hist_sound sym sym_eqb SContent SList SRule w0 ->
       init_dir sym w0 = Ok (w1, tbl) -> get_nodes sym w1 rp goal = Ok pack ->
       Forall det_node (p_nodes pack) -> ~ In rp (plan_targets pack) ->
       In s (p_leaves pack) -> s <> rp -> fget w0 s = Some f ->
       let b1 := build_sym w0 rp goal in
       let wA := tick (o_world b1) in
       let b2 := build_sym (tick (write_file wA s c')) rp goal in
       let wB := tick (o_world b2) in
       let wC := tick (write_file wB s (f_content f)) in
       let b3 := build_sym wC rp goal in
       o_verdict b1 = VOk -> o_verdict b2 = VOk -> o_commands b3 = []).
Proof. exact revert_recovers_without_distinctness_refuted. Qed.

Check C02_at_most_once.
Check C02_repeated_build_is_a_noop.
