(* C02 — no unnecessary work: up-to-date and recoverable targets are never rebuilt.
   Only the property theorems; proofs in Proofs/BuildFacts.v.
   PARTIAL. Proved: a rule's command runs at most once per build (the executed script lines are, node by
   node in plan order, the node's whole script once or nothing), a command runs exactly when some target of
   the rule could neither be confirmed nor recovered (needs_rebuild), a target whose current hash equals the
   remembered one is left untouched, and a target whose remembered content is in the cache is restored, not
   rebuilt. NOT proved: the history-level form ("already built from byte-identical sources in an earlier
   build of the history" implies the remembered entry is found), which needs the history-soundness
   invariant of C01; it is monitored on every history by an independent ledger. *)
From Ruler Require Import Bytes AList RuleSyntax TopoSort World Cmdlang Work Build Ops BuildSpec BuildFacts C02Extra.

Theorem C02_at_most_once :
  forall (T : Type) (teqb : T -> T -> bool) (hc : bytes -> T) (hl : list T -> T) (hr : rule -> T)
         (w : world T) rp goal w1 t pack,
    init_dir T w = Ok (w1, t) -> get_nodes T w1 rp goal = Ok pack ->
    exists flags : list bool,
      length flags = length (p_nodes pack) /\
      o_commands (build teqb hc hl hr w rp goal) =
      flat_map (fun nf : node * bool => if snd nf then script_lines (n_command (fst nf)) else [])
               (combine (p_nodes pack) flags).
Proof. exact build_commands_shape. Qed.

(* the command of a rule runs iff some target needs a rebuild, i.e. never when every target was confirmed
   up to date or taken back from the cache *)
Theorem C02_command_runs_iff_needed :
  forall (T : Type) (teqb : T -> T -> bool) (hc : bytes -> T),
    (forall a b : T, teqb a b = true <-> a = b) ->
    forall (w : world T) b h st cmd wr w' s,
      handle_rule teqb hc w b h st cmd = (Ok wr, w', s) ->
      (wr_option wr = CommandExecuted <-> s <> []).
Proof. intros T teqb hc _ w b h st cmd wr w' s H. exact (proj1 (handle_rule_executed_iff T teqb hc w b h st cmd wr w' s H)). Qed.

(* a target that still holds the remembered output is left untouched; one that does not is displaced into
   the cache and, when the cache holds the remembered output, restored from it *)
Theorem C02_resolution_cases :
  forall (T : Type) (teqb : T -> T -> bool) (hc : bytes -> T),
    (forall a b : T, teqb a b = true <-> a = b) ->
    forall (w : world T) remembered p assumed w',
      (resolve_single teqb hc w remembered p assumed = Ok (AlreadyCorrect, w') ->
         w' = w /\ get_file_ticket teqb hc w p assumed = Some remembered) /\
      (resolve_single teqb hc w remembered p assumed = Ok (NeedsRebuild, w') ->
         exists w0, ((w0 = w /\ fget w p = None) \/
                     (exists cur, get_file_ticket teqb hc w p assumed = Some cur /\ cur <> remembered /\
                                  back_up teqb w cur p = Some w0)) /\
                    restore teqb w0 remembered p = RNotThere /\ w' = w0).
Proof.
  intros T teqb hc Hs w remembered p assumed w'. split.
  - exact (resolve_single_already T teqb hc Hs w remembered p assumed w').
  - exact (resolve_single_needs_cache_miss T teqb hc Hs w remembered p assumed w').
Qed.

(* "NotThere" is exactly: the cache has no entry under the remembered hash *)
Theorem C02_rebuild_only_on_cache_miss :
  forall (T : Type) (teqb : T -> T -> bool) (w : world T) r p,
    restore teqb w r p = RNotThere <-> exists c, cache_of w = Some c /\ alookup teqb c r = None.
Proof. exact restore_not_there_iff. Qed.

Check C02_at_most_once.
