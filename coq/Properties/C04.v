(* C04 — failures are contained, reported, and not remembered.
   ROUND 2 (end of this file): containment and the verdict on EVERY work order (Model/Sched.v), no longer only the
   serial schedule; the next paragraph describes round 1.
   Only the property theorems; proofs in Proofs/C04Facts.v and Proofs/BuildFacts.v.
   PARTIAL with respect to schedules and to "still brought up to date correctly": the theorems are about
   the modelled build (serial schedule); that every schedule gives the same verdict is C06 (explored), that
   unaffected rules end with the from-scratch contents is C01 applied to them (monitored here on every
   history and schedule with an independent from-scratch evaluator). *)
From Ruler Require Import Bytes AList RuleSyntax TopoSort World Cmdlang Work Build Ops Inv BuildSpec Ideal BuildFacts C04Facts InvFacts C01Hist
     C01Build C01Facts Sched SchedBasic SchedFacts.

(* reported: the verdict is success iff no thread failed; otherwise it carries exactly one error per failed
   thread (a rule whose command exits non-zero or does not produce a target, a missing leaf), in join order;
   cancelled rules add none *)
Theorem C04_one_error_per_failure :
  forall (T : Type) (teqb : T -> T -> bool) (hc : bytes -> T) (hl : list T -> T) (hr : rule -> T)
         (w : world T) rp goal w1 t pack st2,
    init_dir T w = Ok (w1, t) -> get_nodes T w1 rp goal = Ok pack ->
    run_nodes T teqb hc hl hr (st_leaves T teqb hc w1 t pack) (p_nodes pack) = Some st2 ->
    o_verdict (build teqb hc hl hr w rp goal) =
    match flat_map (result_errors T) (rs_results T st2) with
    | [] => VOk
    | es => VWorkErrors es
    end.
Proof. exact build_verdict_errors. Qed.

(* contained: a rule one of whose sources was not delivered (its producer failed or was itself cancelled,
   or the leaf file is missing) runs no command, changes no file, and passes the cancel on *)
Theorem C04_dependents_do_not_run :
  forall (T : Type) (teqb : T -> T -> bool) (hc : bytes -> T) (hl : list T -> T) (hr : rule -> T)
         (st : run_state T) (n : node) si st',
    In si (n_source_indices n) ->
    received T (rs_leaf_sent T st) (rs_node_sent T st) si = None ->
    run_node T teqb hc hl hr st n = Some st' ->
    rs_world T st' = rs_world T st /\
    rs_commands T st' = rs_commands T st /\
    rs_node_sent T st' = rs_node_sent T st ++ [None] /\
    rs_results T st' = rs_results T st ++ [(Some (n_rule n), TCanceled)].
Proof. exact run_node_canceled. Qed.

(* a failed or cancelled rule sends a cancel on every edge, a successful one its target tickets *)
Theorem C04_failure_sends_cancel :
  forall (T : Type) (teqb : T -> T -> bool) (hc : bytes -> T) (hl : list T -> T) (hr : rule -> T)
         (st : run_state T) (n : node) st',
    run_node T teqb hc hl hr st n = Some st' ->
    exists tr sent,
      rs_results T st' = rs_results T st ++ [(Some (n_rule n), tr)] /\
      rs_node_sent T st' = rs_node_sent T st ++ [sent] /\
      match tr with
      | TOk wr => sent = Some (wr_tickets wr)
      | TErr _ => sent = None
      | TCanceled => sent = None
      end.
Proof. exact run_node_sends. Qed.

(* not remembered: the history file of every rule whose thread did not succeed is unchanged by the build,
   so the next build finds no entry for the failed execution and tries it again *)
Theorem C04_failure_not_recorded :
  forall (T : Type) (teqb : T -> T -> bool) (hc : bytes -> T) (hl : list T -> T) (hr : rule -> T),
    (forall a b : T, teqb a b = true <-> a = b) ->
    forall (w : world T) rp goal w1 t pack k,
      init_dir T w = Ok (w1, t) -> get_nodes T w1 rp goal = Ok pack ->
      match run_nodes T teqb hc hl hr (st_leaves T teqb hc w1 t pack) (p_nodes pack) with
      | None => True
      | Some st2 => forall r wr, In (Some r, TOk wr) (rs_results T st2) -> hr r <> k
      end ->
      hist_at T teqb (o_world (build teqb hc hl hr w rp goal)) k = hist_at T teqb w k.
Proof. exact build_failed_rule_history_unchanged. Qed.

(* a failing command is an error of the rule: no script line at all, or any non-zero exit code *)
Theorem C04_command_verdict : forall codes,
  command_verdict codes = None <-> (codes <> [] /\ forallb (fun c => c =? 0) codes = true).
Proof.
  intro codes. unfold command_verdict. destruct codes as [|c r]; [split; [discriminate | intros [H _]; congruence]|].
  destruct (forallb (fun c0 => c0 =? 0) (c :: r)) eqn:E; split; try discriminate; auto.
  - intros _. split; [discriminate | reflexivity].
  - intros [_ H]. discriminate.
Qed.

(* ------------------------------------------------------------------------------------------------------
   ON EVERY SCHEDULE (Model/Sched.v, Proofs/SchedBasic.v, SchedFacts.v). After the work steps of any valid order:
   every worker has a result; a worker passes a cancel on exactly when it failed or was itself canceled; a leaf is
   never canceled; a rule node is canceled — runs no command, changes nothing — exactly when one of the workers it
   waits for passed a cancel on. With C06_same_verdict_and_files_for_every_work_order the verdict (one error per
   failed rule or missing leaf, in spawn order) is the same for every order, and every rule that does not depend
   on a failure ends with the from-scratch contents (C06_every_work_order_equals_scratch gives it for successful
   builds; the invariant behind it, Proofs/SchedInv.v winv, per rule in failing builds too). *)
Local Close Scope N_scope.
Theorem C04_containment_on_every_work_order : forall pack (blobs : list (blob sym)) hists (w1 : world sym) ord,
  plan_wf pack -> blobs_shaped sym pack blobs -> valid_order pack ord ->
  let st1 := fold_left (work_step sym_eqb SContent SList pack blobs hists) ord (st_init sym w1 pack) in
  forall k, (k < nworkers pack)%nat ->
    exists r tr,
      nth k (ss_res st1) None = Some (r, tr) /\
      (sent_cancel sym st1 k <-> (tr = TCanceled \/ exists e, tr = TErr e)) /\
      (forall wr, tr = TOk wr -> nth k (ss_sent st1) None = Some (Some (wr_tickets wr))) /\
      ((k < length (p_leaves pack))%nat -> tr <> TCanceled) /\
      ((length (p_leaves pack) <= k)%nat ->
       (tr = TCanceled <-> exists d, In d (deps pack k) /\ sent_cancel sym st1 d)).
Proof. exact sched_failure_containment_sym. Qed.

(* a canceled worker's step leaves the world and the list of executed script lines as they were *)
Theorem C04_canceled_rule_does_nothing : forall pack (blobs : list (blob sym)) hists (st : sstate sym) k r,
  has_worked sym st k = false ->
  nth k (ss_res (work_step sym_eqb SContent SList pack blobs hists st k)) None = Some (r, TCanceled) ->
  ss_world (work_step sym_eqb SContent SList pack blobs hists st k) = ss_world st /\
  ss_commands (work_step sym_eqb SContent SList pack blobs hists st k) = ss_commands st.
Proof. exact (work_step_canceled_frame sym sym_eqb SContent SList). Qed.

Check C04_one_error_per_failure.
Check C04_containment_on_every_work_order.
