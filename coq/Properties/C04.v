(* C04 — failures are contained, reported, and not remembered.
   Only the property theorems; proofs in Proofs/C04Facts.v and Proofs/BuildFacts.v.
   PARTIAL with respect to schedules and to "still brought up to date correctly": the theorems are about
   the modelled build (serial schedule); that every schedule gives the same verdict is C06 (explored), that
   unaffected rules end with the from-scratch contents is C01 applied to them (monitored here on every
   history and schedule with an independent from-scratch evaluator). *)
From Ruler Require Import Bytes AList RuleSyntax TopoSort World Cmdlang Work Build Ops BuildSpec BuildFacts C04Facts.

(* reported: the verdict is success iff no thread failed; otherwise it carries exactly one error per failed
   thread (a rule whose command exits non-zero or does not produce a target, a missing leaf), in join order;
   cancelled rules add none *)
Theorem C04_one_error_per_failure :
  forall (T : Type) (teqb : T -> T -> bool) (hc : bytes -> T) (hl : list T -> T) (hr : rule -> T)
         (w : world T) rp goal w1 t pack st2,
    init_dir T w = Ok (w1, t) -> get_nodes T w1 rp goal = Ok pack ->
    run_nodes T teqb hc hl hr (st_leaves T teqb hc w1 t pack) (p_nodes pack) = Some st2 ->
    o_verdict (build teqb hc hl hr w rp goal) =
    match flat_map (result_errors T) (rs_results T st2) with
    | [] => VOk
    | es => VWorkErrors es
    end.
Proof. exact build_verdict_errors. Qed.

(* contained: a rule one of whose sources was not delivered (its producer failed or was itself cancelled,
   or the leaf file is missing) runs no command, changes no file, and passes the cancel on *)
Theorem C04_dependents_do_not_run :
  forall (T : Type) (teqb : T -> T -> bool) (hc : bytes -> T) (hl : list T -> T) (hr : rule -> T)
         (st : run_state T) (n : node) si st',
    In si (n_source_indices n) ->
    received T (rs_leaf_sent T st) (rs_node_sent T st) si = None ->
    run_node T teqb hc hl hr st n = Some st' ->
    rs_world T st' = rs_world T st /\
    rs_commands T st' = rs_commands T st /\
    rs_node_sent T st' = rs_node_sent T st ++ [None] /\
    rs_results T st' = rs_results T st ++ [(Some (n_rule n), TCanceled)].
Proof. exact run_node_canceled. Qed.

(* a failed or cancelled rule sends a cancel on every edge, a successful one its target tickets *)
Theorem C04_failure_sends_cancel :
  forall (T : Type) (teqb : T -> T -> bool) (hc : bytes -> T) (hl : list T -> T) (hr : rule -> T)
         (st : run_state T) (n : node) st',
    run_node T teqb hc hl hr st n = Some st' ->
    exists tr sent,
      rs_results T st' = rs_results T st ++ [(Some (n_rule n), tr)] /\
      rs_node_sent T st' = rs_node_sent T st ++ [sent] /\
      match tr with
      | TOk wr => sent = Some (wr_tickets wr)
      | TErr _ => sent = None
      | TCanceled => sent = None
      end.
Proof. exact run_node_sends. Qed.

(* not remembered: the history file of every rule whose thread did not succeed is unchanged by the build,
   so the next build finds no entry for the failed execution and tries it again *)
Theorem C04_failure_not_recorded :
  forall (T : Type) (teqb : T -> T -> bool) (hc : bytes -> T) (hl : list T -> T) (hr : rule -> T),
    (forall a b : T, teqb a b = true <-> a = b) ->
    forall (w : world T) rp goal w1 t pack k,
      init_dir T w = Ok (w1, t) -> get_nodes T w1 rp goal = Ok pack ->
      match run_nodes T teqb hc hl hr (st_leaves T teqb hc w1 t pack) (p_nodes pack) with
      | None => True
      | Some st2 => forall r wr, In (Some r, TOk wr) (rs_results T st2) -> hr r <> k
      end ->
      hist_at T teqb (o_world (build teqb hc hl hr w rp goal)) k = hist_at T teqb w k.
Proof. exact build_failed_rule_history_unchanged. Qed.

(* a failing command is an error of the rule: no script line at all, or any non-zero exit code *)
Theorem C04_command_verdict : forall codes,
  command_verdict codes = None <-> (codes <> [] /\ forallb (fun c => c =? 0) codes = true).
Proof.
  intro codes. unfold command_verdict. destruct codes as [|c r]; [split; [discriminate | intros [H _]; congruence]|].
  destruct (forallb (fun c0 => c0 =? 0) (c :: r)) eqn:E; split; try discriminate; auto.
  - intros _. split; [discriminate | reflexivity].
  - intros [_ H]. discriminate.
Qed.

Check C04_one_error_per_failure.
