(* C01 — a successful incremental build equals a from-scratch build.
   Only the property theorems; proofs in Proofs/C01{Script,Hist,Build,Plan,Facts}.v on top of the disk
   invariant (InvFacts), the frame lemmas (BuildFacts) and plan correctness (C12).
   Specification: Model/Ideal.v — `scratch_world w pack` removes every target of the plan and runs every
   command of the plan once, in plan (= dependency, C12) order, on the current source files; `det_node` says
   a rule's command writes only its own targets and reads only its declared sources (the property's
   "deterministic function of the declared sources" for the command mini-language). Hashes are idealised as
   collision-free: free symbolic hashes `sym` (the generic theorems in C01Facts take injectivity of the
   three hash functions as hypotheses). Clock: distinct writes carry distinct times, starting above 0.
   The theorems are about the modelled build (serial schedule); other schedules: C06. *)
From Ruler Require Import Bytes AList RuleSyntax TopoSort World Cmdlang Work Build Ops Inv BuildSpec Ideal
     InvFacts C01Hist C01Facts.

Local Notation hist_sound_sym := (hist_sound sym sym_eqb SContent SList SRule).
Local Notation build_sym := (build sym_eqb SContent SList SRule).
Local Notation run_sym ops w0 := (fold_left (fun w o => fst (apply_op sym_eqb SContent SList SRule w o)) ops w0).
Local Notation det_history_sym := (det_history sym sym_eqb SContent SList SRule).

(* one build, from ANY state that satisfies the disk invariant and whose rule histories are sound:
   whenever it reports success, every target of its plan holds exactly the from-scratch content — for a
   whole build and for a goal-restricted one (the plan is then the goal's rule and its prerequisites).
   It holds per node: the targets of every rule that succeeded equal the from-scratch contents even when
   other rules fail. *)
Theorem C01_incremental_equals_scratch : forall (w : world sym) rp goal w1 tbl pack,
  disk_inv sym_eqb SContent w -> hist_sound_sym w ->
  init_dir sym w = Ok (w1, tbl) -> get_nodes sym w1 rp goal = Ok pack ->
  Forall det_node (p_nodes pack) ->
  o_verdict (build_sym w rp goal) = VOk ->
  forall t, In t (plan_targets pack) ->
    content_at (o_world (build_sym w rp goal)) t = content_at (scratch_world w pack) t.
Proof. exact c01_incremental_equals_scratch_sym. Qed.

Theorem C01_goal_restricted : forall (w : world sym) rp g w1 tbl pack,
  disk_inv sym_eqb SContent w -> hist_sound_sym w ->
  init_dir sym w = Ok (w1, tbl) -> get_nodes sym w1 rp (Some g) = Ok pack ->
  Forall det_node (p_nodes pack) ->
  o_verdict (build_sym w rp (Some g)) = VOk ->
  In g (plan_targets pack) /\
  forall t, In t (plan_targets pack) ->
    content_at (o_world (build_sym w rp (Some g))) t = content_at (scratch_world w pack) t.
Proof. exact c01_goal_restricted_sym. Qed.

(* "no matter what came before": both hypotheses hold after EVERY finite history over the alphabet of
   C01 — edits and reverts of sources, rules-file edits (any text, accepted or rejected), builds, goal
   builds, cleans, goal cleans, tampered and deleted targets, deleted cache entries, deleted ruler directory
   or parts of it, an older copy moved (back) into a path with its old modification time (OMove), failed
   builds included — provided commands were deterministic in every build of the
   history (det_history; only a user planting decodable state files is excluded) *)
Theorem C01_invariants_after_every_history : forall t0 (ops : list (op sym)),
  det_history_sym (init_world Fine t0) ops ->
  disk_inv sym_eqb SContent (run_sym ops (init_world Fine t0)) /\ hist_sound_sym (run_sym ops (init_world Fine t0)).
Proof. exact reach_hist_sound_partial_sym. Qed.

(* hence the property as stated: after any such history, a successful build leaves from-scratch contents *)
Theorem C01_every_history : forall t0 (ops : list (op sym)) goal w1 tbl pack,
  det_history_sym (init_world Fine t0) ops ->
  init_dir sym (run_sym ops (init_world Fine t0)) = Ok (w1, tbl) ->
  get_nodes sym w1 RULES_PATH goal = Ok pack ->
  Forall det_node (p_nodes pack) ->
  o_verdict (build_sym (run_sym ops (init_world Fine t0)) RULES_PATH goal) = VOk ->
  forall t, In t (plan_targets pack) ->
    content_at (o_world (build_sym (run_sym ops (init_world Fine t0)) RULES_PATH goal)) t =
    content_at (scratch_world (run_sym ops (init_world Fine t0)) pack) t.
Proof. exact c01_every_history_sym_partial. Qed.

(* the determinism assumption is needed for the WHOLE history, not only for the last build: a command of
   an earlier rules file that wrote another rule's target poisons that rule's history (witness by
   vm_compute, also reproduced on the SHA-256 instance) *)
Theorem C01_only_last_build_deterministic_refuted :
  ~ (forall t0 (ops : list (op sym)) goal w1 tbl pack,
       Forall (safe_op sym) ops ->
       init_dir sym (run_sym ops (init_world Fine t0)) = Ok (w1, tbl) ->
       get_nodes sym w1 RULES_PATH goal = Ok pack ->
       Forall det_node (p_nodes pack) ->
       o_verdict (build_sym (run_sym ops (init_world Fine t0)) RULES_PATH goal) = VOk ->
       forall t, In t (plan_targets pack) ->
         content_at (o_world (build_sym (run_sym ops (init_world Fine t0)) RULES_PATH goal)) t =
         content_at (scratch_world (run_sym ops (init_world Fine t0)) pack) t).
Proof. exact c01_every_history_sym_refuted. Qed.

(* a deterministic command is a function of its declared sources *)
Theorem C01_command_is_function_of_sources : forall (r : rule) (w w' : world sym),
  det_rule r ->
  (forall p, In p (r_sources r ++ r_targets r) -> content_at w p = content_at w' p) ->
  fst (run_script w (script_lines (r_command r))) = fst (run_script w' (script_lines (r_command r))) /\
  forall p, In p (r_sources r ++ r_targets r) ->
    content_at (snd (run_script w (script_lines (r_command r)))) p =
    content_at (snd (run_script w' (script_lines (r_command r)))) p.
Proof. exact G1_det_rule_functional_sym. Qed.

Check C01_incremental_equals_scratch.
Check C01_every_history.
