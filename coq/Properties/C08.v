(* C08 — ruler never loses file content: whatever it displaces stays recoverable.
   Only the property theorems; proofs in Proofs/InvFacts.v. "Ruler itself" = the actions of `own_step`
   (back-up, restore, state-file writes, directory creation); what a user's command overwrites or deletes
   is the command's doing. Hashes are idealised as collision-free (free symbolic hashes `sym`; the generic
   statement takes injectivity of the content hash as a hypothesis). *)
From Coq Require Import Relations.
From Ruler Require Import Bytes AList RuleSyntax TopoSort World Work Build Ops Inv BuildSpec InvFacts Acts ActsFacts C01Facts C02Keep C02Sym.

(* At every state that satisfies the disk invariant — by C07 that is every state reached under any
   schedule, at any instant — every action of ruler itself keeps every protected content (the contents of
   the cache and of the files at the given paths): a back-up moves the file into the cache, and an entry it
   replaces there holds the same content; a restore moves a cache file to an empty path. The paths are the
   declared target paths: ruler only ever restores into a target of the rule being handled (C09). *)
Theorem C08_own_step_keeps_content : forall paths (w w' : world sym) c,
  disk_inv sym_eqb SContent w -> own_step_on sym sym_eqb SContent paths w w' ->
  protected_content sym_eqb paths w c -> protected_content sym_eqb paths w' c.
Proof. exact c08_own_step_keeps_content_sym. Qed.

(* without the restriction on where restores go, the content is still never destroyed: it stays protected
   or now sits at a path that was empty before *)
Theorem C08_own_step_never_destroys : forall paths (w w' : world sym) c,
  disk_inv sym_eqb SContent w -> own_step sym_eqb SContent w w' -> protected_content sym_eqb paths w c ->
  protected_content sym_eqb paths w' c \/
  exists p f, ~ In p paths /\ fget w p = None /\ fget w' p = Some f /\ f_content f = c.
Proof. exact c08_own_step_content_general_sym. Qed.

(* the generic form: any hash type with a correct equality test and an injective content hash *)
Theorem C08_own_step_keeps_content_any_hash :
  forall (T : Type) (teqb : T -> T -> bool) (hc : bytes -> T),
    (forall a b, teqb a b = true <-> a = b) -> (forall a b, hc a = hc b -> a = b) ->
    forall paths (w w' : world T) c,
      disk_inv teqb hc w -> own_step_on T teqb hc paths w w' ->
      protected_content teqb paths w c -> protected_content teqb paths w' c.
Proof. intros T teqb hc H1 H2. exact (c08_own_step_keeps_content T teqb hc H1 H2). Qed.

(* the restriction in the first theorem is needed: literally "any own step, any set of paths" is false *)
Theorem C08_literal_statement_refuted :
  ~ (forall paths (w w' : world sym) c,
       disk_inv sym_eqb SContent w -> own_step sym_eqb SContent w w' ->
       protected_content sym_eqb paths w c -> protected_content sym_eqb paths w' c).
Proof. exact c08_own_step_keeps_content_literal_refuted. Qed.

(* THE WHOLE-BUILD FORM (round 2; Proofs/C02Keep.v): every content that is in the cache or at a target of the plan
   before a successful build whose commands write only their own targets is in the cache or at a target of the
   plan after it — whatever is displaced (hand-edited targets, intermediate results replaced by a rebuild) went
   into the cache first. (For a build that fails, and for what the user's command itself overwrites, the
   per-action theorems above apply; monitored on every history, schedule and crash point as well.) *)
Theorem C08_successful_build_keeps_every_content : forall (w : world sym) rp goal w1 tbl pack,
  disk_inv sym_eqb SContent w -> init_dir sym w = Ok (w1, tbl) -> get_nodes sym w1 rp goal = Ok pack ->
  Forall node_confined (p_nodes pack) ->
  o_verdict (build sym_eqb SContent SList SRule w rp goal) = VOk ->
  forall c, protected_content sym_eqb (plan_targets pack) w c ->
            protected_content sym_eqb (plan_targets pack) (o_world (build sym_eqb SContent SList SRule w rp goal)) c.
Proof. exact build_keeps_protected_sym. Qed.

(* ------------------------------------------------------------------------------------------------------
   EVERY ACTION THE MODELLED BUILD AND CLEAN ACTUALLY PERFORM (Model/Acts.v), in the order they perform them: each
   action that is ruler's own (everything except a script line of the user's command) keeps every protected
   content, the protected paths being any set that contains the plan's targets — so at every instant of a build
   or clean, between any two of its actions, nothing that was at a target path or in the cache has been lost by
   ruler. (A restore is only ever emitted into a path that ruler found or made empty.) *)

Local Notation build_acts_sym := (build_acts sym_eqb SContent SList SRule).
Local Notation clean_acts_sym := (clean_acts sym_eqb SContent).
Local Notation run_acts_sym := (run_acts sym_eqb SRule).

Theorem C08_every_action_of_a_build_keeps_content : forall (w : world sym) rp goal pre a suf paths c,
  disk_inv sym_eqb SContent w ->
  (forall w1 t pack, init_dir sym w = Ok (w1, t) -> get_nodes sym w1 rp goal = Ok pack ->
                     incl (plan_targets pack) paths) ->
  build_acts_sym w rp goal = pre ++ a :: suf ->
  (forall l, a <> ALine l) ->
  protected_content sym_eqb paths (run_acts_sym pre w) c ->
  protected_content sym_eqb paths (run_acts_sym (pre ++ [a]) w) c.
Proof. exact acts_build_keep_content_targets_sym. Qed.

(* for an arbitrary set of paths the content is never destroyed: it stays protected or sits at a path that was empty *)
Theorem C08_every_action_of_a_build_never_destroys : forall (w : world sym) rp goal pre a suf paths c,
  disk_inv sym_eqb SContent w ->
  build_acts_sym w rp goal = pre ++ a :: suf ->
  (forall l, a <> ALine l) ->
  protected_content sym_eqb paths (run_acts_sym pre w) c ->
  protected_content sym_eqb paths (run_acts_sym (pre ++ [a]) w) c
  \/ exists p f, ~ In p paths /\ fget (run_acts_sym pre w) p = None /\
                 fget (run_acts_sym (pre ++ [a]) w) p = Some f /\ f_content f = c.
Proof. exact acts_build_keep_content_sym. Qed.

(* clean runs no command at all: every one of its actions keeps every protected content, for any set of paths *)
Theorem C08_every_action_of_a_clean_keeps_content : forall (w : world sym) rp goal pre a suf paths c,
  disk_inv sym_eqb SContent w ->
  clean_acts_sym w rp goal = pre ++ a :: suf ->
  protected_content sym_eqb paths (run_acts_sym pre w) c ->
  protected_content sym_eqb paths (run_acts_sym (pre ++ [a]) w) c.
Proof. exact acts_clean_keep_content_sym. Qed.

Check C08_own_step_keeps_content.
Check C08_every_action_of_a_build_keeps_content.


(* ---- every step of every interleaving (Model/Fine.v) ----
   A step of a rule thread other than its final one (which runs the user's command) never loses a content
   that was held by a planned target or a cache entry, whatever the other rule threads did before; and a
   restore (cache -> target rename) is only ever attempted into an ABSENT path, so it cannot overwrite. *)
From Ruler Require Import Inv Ideal BuildSpec InvFacts C01Hist C01Facts C11Facts C02Sym Sched Fine FineFacts FineCorStep FineCor FineStatus FineCorFinal FineCorExamples.
Local Open Scope nat_scope.

Theorem C08_every_step_of_every_interleaving_keeps_content : forall (w : world sym) rp goal w1 tbl pack hists blobs t' ch k st',
  disk_inv sym_eqb SContent w -> hist_sound_sym w ->
  init_dir sym w = Ok (w1, tbl) -> get_nodes sym w1 rp goal = Ok pack -> Forall det_node (p_nodes pack) ->
  read_histories sym sym_eqb SRule w1 (p_nodes pack) = Some hists ->
  take_blobs sym SContent tbl (worker_paths pack) = (blobs, t') ->
  let st := frun_sym pack blobs hists ch (fn_start_sym w1 t' pack) in
  fstep_sym pack blobs hists st k = Some st' ->
  (forall ro, phase_of sym st k <> WFinish ro) ->
  forall paths c, incl (plan_targets pack) paths ->
    protected_content sym_eqb paths (fn_world st) c -> protected_content sym_eqb paths (fn_world st') c.
Proof. exact fine_step_keeps_content_sym. Qed.
Print Assumptions C08_every_step_of_every_interleaving_keeps_content.

Theorem C08_restore_only_into_absent_path : forall (w1 : world sym) rp goal tbl pack hists blobs t' ch j nd done i p,
  get_nodes sym w1 rp goal = Ok pack -> Forall det_node (p_nodes pack) ->
  take_blobs sym SContent tbl (worker_paths pack) = (blobs, t') ->
  let st := frun_sym pack blobs hists ch (fn_start_sym w1 t' pack) in
  nth_error (p_nodes pack) j = Some nd ->
  phase_of sym st (length (p_leaves pack) + j) = WCheck done i \/ phase_of sym st (length (p_leaves pack) + j) = WRename done i ->
  nth_error (n_targets nd) i = Some p -> fget (fn_world st) p = None.
Proof. exact fine_restore_into_absent_sym. Qed.
Print Assumptions C08_restore_only_into_absent_path.

(* ---- clean under every interleaving of its rule threads (round 4; Model/CleanFine.v, Proofs/CleanFine*.v) ----
   Every step of every run of a clean keeps every content that is in the cache or at a path of ANY protected set. *)
From Coq Require Import Relations.
From Ruler Require Import Bytes AList RuleSyntax TopoSort World Work Build Ops Inv InvFacts BuildSpec C01Facts C02Sym CoarseInv C18CoarseFacts Sched Fine FineCor CleanFine CleanFineBasic CleanFineInv CleanFineFacts.
Local Open Scope nat_scope.

Theorem C08_clean_every_step_of_every_interleaving_keeps_content : forall (w : world sym) rp goal w1 tbl pack ch k st',
  disk_inv sym_eqb SContent w -> init_dir sym w = Ok (w1, tbl) -> get_nodes sym w1 rp goal = Ok pack ->
  let blobs := node_blobs SContent tbl (p_nodes pack) in
  let st := crun_sym blobs ch (cinit sym w1 (length blobs)) in
  cstep_sym blobs st k = Some st' ->
  forall paths c, protected_content sym_eqb paths (cs_world st) c -> protected_content sym_eqb paths (cs_world st') c.
Proof. exact clean_fine_keeps_content_sym. Qed.
Print Assumptions C08_clean_every_step_of_every_interleaving_keeps_content.

Theorem C08_clean_every_step_any_clock : forall (w : world sym) rp goal w1 tbl pack ch k st',
  coarse_inv sym_eqb SContent w -> init_dir sym w = Ok (w1, tbl) -> get_nodes sym w1 rp goal = Ok pack ->
  let blobs := node_blobs SContent tbl (p_nodes pack) in
  let st := crun_sym blobs ch (cinit sym w1 (length blobs)) in
  cstep_sym blobs st k = Some st' ->
  forall paths c, protected_content sym_eqb paths (cs_world st) c -> protected_content sym_eqb paths (cs_world st') c.
Proof. exact clean_fine_keeps_content_coarse_sym. Qed.
Print Assumptions C08_clean_every_step_any_clock.
