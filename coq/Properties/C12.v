(* C12 — dependency sorting accepts exactly the valid graphs and orders them correctly.
   Only the property theorems; the specification is Model/TopoSpec.v (plain reachability over the rules,
   written independently of the machine), proofs in Proofs/TopoSort{Basic,Build,Inv,Facts}.v.
   The machine is the repaired sorter (fix 353746f); Model/Legacy.v keeps the old one with the witness
   on which the acceptance theorem failed. *)
From Coq Require Import Permutation.
From Ruler Require Import Bytes RuleSyntax TopoSort TopoSpec TopoSortFacts.

(* the model's fuel is never exhausted: the sorter is a total function to (plan | documented error) *)
Theorem C12_total : forall rs goal, toposort rs goal <> Err SortOutOfFuel.
Proof. exact c12_total. Qed.

(* dependency analysis succeeds EXACTLY when no path is a target of two rules, the goal (if given) is some
   rule's target, and no dependency cycle is reachable from the goal's rule (from any rule, without goal) *)
Theorem C12_accepts_iff : forall rs goal,
  (exists pack, toposort rs goal = Ok pack) <-> valid rs goal.
Proof. exact c12_accepts_iff_unconditional. Qed.

(* otherwise it reports an error of the matching kind *)
Theorem C12_error_kinds : forall rs goal,
  (forall t, toposort rs goal = Err (TargetInMultipleRules t) ->
             (count_occ (list_eq_dec N.eq_dec) (all_targets rs) t >= 2)%nat) /\
  (forall g, toposort rs goal = Err (TargetMissing g) -> goal = Some g /\ ~ In g (all_targets rs)) /\
  (forall t, toposort rs goal = Err (SelfDependentRule t) ->
             exists r, in_scope rs goal r /\ In t (r_targets r) /\ exists s, In s (r_sources r) /\ In s (r_targets r)) /\
  (forall c, toposort rs goal = Err (CircularDependence c) -> cyclic rs goal).
Proof.
  intros rs goal. split; [|split; [|split]].
  - intros t H. exact (c12_error_multiple_declared rs goal t H).
  - intros g H. exact (c12_error_missing rs goal g H).
  - intros t H. exact (c12_error_self_in_scope rs goal t H).
  - intros c H. exact (c12_error_circular rs goal c H).
Qed.

(* on success the plan is correct (plan_ok, Model/TopoSpec.v): it contains exactly the rules in scope — the
   goal's rule and its transitive prerequisites, or all rules — each once; every node carries its rule's
   targets and command; every source is bound to Pair(i, sub) with i an EARLIER node whose sub-th target is
   that source, or to Leaf(i) naming that source, which is no rule's target; the leaves are exactly the
   non-target sources of plan rules, duplicate-free *)
Theorem C12_plan_correct : forall rs goal pack,
  Forall (fun r => r_targets r <> []) rs ->
  toposort rs goal = Ok pack -> plan_ok rs goal pack.
Proof. exact c12_plan_correct. Qed.

(* the plan (and every error) is the same for any ordering of the rules in the input *)
Theorem C12_order_invariant :
  forall rs rs' goal, Permutation rs rs' -> toposort rs goal = toposort rs' goal.
Proof. exact c12_order_invariant. Qed.

(* Reading (DESIGN.md 7.1): a rule whose own target list repeats a path is rejected with
   TargetInMultipleRules (first conjunct of C12_error_kinds counts occurrences over all declared targets).
   Not claimed: the target list carried by CircularDependence is the whole stack, which can name a pending
   sibling that is on no cycle (Proofs/TopoSortFacts.v ex_cycle_list_includes_pending_sibling). *)

Check C12_accepts_iff : forall rs goal, (exists pack, toposort rs goal = Ok pack) <-> valid rs goal.
Check C12_plan_correct.
