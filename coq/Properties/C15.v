(* C15 — content hashes are true SHA-256 of the bytes and their text form is a bijection.
   This file holds only the property theorems; proofs are in Proofs/. *)
From Ruler Require Import Tactics Bytes Base62 Sha256 BytesFacts Base62Facts TicketModel TicketFacts.
Local Open Scope N_scope.

(* the 43-character text form decodes back to the same hash, for every 256-bit value *)
Theorem C15_decode_encode :
  forall b : bytes, length b = 32%nat -> all_bytes b -> decode62 (encode62 b) = Ok b.
Proof. exact decode62_encode62. Qed.

Theorem C15_text_form_shape :
  forall b : bytes, length (encode62 b) = 43%nat /\ Forall is_alnum (encode62 b).
Proof. intro b; split; [exact (encode62_length b) | exact (encode62_alnum b)]. Qed.

(* whatever is accepted is the text form of the value returned (so decoding is injective and only
   true encodings are accepted) *)
Theorem C15_encode_decode :
  forall s b, decode62 s = Ok b -> encode62 b = s /\ length b = 32%nat /\ all_bytes b.
Proof. exact encode62_decode62. Qed.

(* exactly which strings are rejected, and how *)
Theorem C15_rejects_wrong_length :
  forall s, decode62 s = Err InvalidLength <-> length s <> 43%nat.
Proof. exact decode62_invalid_length. Qed.

Theorem C15_rejects_foreign_character :
  forall s c, decode62 s = Err (InvalidCharacter c) <->
    length s = 43%nat /\ exists pre post, s = pre ++ c :: post /\ Forall is_alnum pre /\ ~ is_alnum c.
Proof. exact decode62_invalid_character. Qed.

Theorem C15_rejects_too_large :
  forall s, decode62 s = Err Overflow <->
    length s = 43%nat /\ exists ds, chars_to_digits s = inr ds /\ 2 ^ 256 <= from_digits62 ds.
Proof. exact decode62_overflow. Qed.

Theorem C15_text_form_injective :
  forall a b, length a = 32%nat -> all_bytes a -> length b = 32%nat -> all_bytes b ->
    encode62 a = encode62 b -> a = b.
Proof. exact encode62_injective. Qed.

(* the hash of a file is SHA-256 of its bytes whatever way the reader chunks them
   (given a digest object that is a streaming SHA-256: absorb a; absorb b = absorb (a ++ b)) *)
Theorem C15_file_hash_chunking :
  forall (content : bytes) (chunks : list bytes),
    concat chunks = content -> file_ticket_chunked chunks = sha256 content.
Proof. exact file_ticket_chunked_correct. Qed.

(* a directory's hash preimage determines the listed names and every child hash *)
Theorem C15_dir_preimage_injective :
  forall names1 tickets1 names2 tickets2,
    Forall (fun n => ~ In NL n) names1 -> Forall (fun n => ~ In NL n) names2 ->
    length names1 = length tickets1 -> length names2 = length tickets2 ->
    Forall (fun t => length t = 32%nat) tickets1 -> Forall (fun t => length t = 32%nat) tickets2 ->
    dir_preimage names1 tickets1 = dir_preimage names2 tickets2 ->
    names1 = names2 /\ tickets1 = tickets2.
Proof. exact dir_preimage_injective. Qed.

Check C15_decode_encode : forall b : bytes, length b = 32%nat -> all_bytes b -> decode62 (encode62 b) = Ok b.
Check C15_encode_decode : forall s b, decode62 s = Ok b -> encode62 b = s /\ length b = 32%nat /\ all_bytes b.
