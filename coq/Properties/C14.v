(* C14 — the rules-file parser is total and faithful to the documented format.
   Only the property theorems; proofs in Proofs/BundleFacts.v and Proofs/ParserFacts.v, examples of
   every error kind in Proofs/ParserExamples.v. The model functions are total by construction; that the
   Rust code never panics is a correspondence result (catch_unwind on every generated text), not a theorem. *)
From Coq Require Import Permutation.
From Ruler Require Import Bytes Bundle RuleSyntax Parser BundleFacts ParserFacts.

(* the fuel of the bundle parser is a model artefact and is never exhausted: the model is a total
   function from texts to (rules | one of the documented errors) *)
Theorem C14_total : forall content, parse content <> Err (BundleError BOutOfFuel).
Proof. exact c14_total. Qed.

(* every state-machine error names the offending line: an UnexpectedEmptyLine n points at an empty line,
   an UnexpectedExtraColon n at a lone ':', end-of-file errors carry (number of lines) + 1 *)
Theorem C14_error_lines : forall content,
  let ls := split_on NL content in
  (forall n, parse content = Err (UnexpectedEmptyLine n) ->
             (1 <= n <= length ls)%nat /\ nth (n - 1) ls [COLON] = []) /\
  (forall n, parse content = Err (UnexpectedExtraColon n) ->
             (1 <= n <= length ls)%nat /\ nth (n - 1) ls [] = [COLON]) /\
  (forall n, parse content = Err (EofMidTargets n) \/ parse content = Err (EofMidSources n) \/
             parse content = Err (EofMidCommand n) -> n = S (length ls)).
Proof. exact c14_error_lines. Qed.

(* several files: first error wins, success is the concatenation *)
Theorem C14_several_files : forall cs1 cs2,
  parse_all (cs1 ++ cs2) =
  match parse_all cs1 with
  | Err e => Err e
  | Ok r1 => match parse_all cs2 with Err e => Err e | Ok r2 => Ok (r1 ++ r2) end
  end.
Proof. exact c14_parse_all_app. Qed.

(* well-formed files with flat paths: any number of rules, each preceded by any number (>= 0) of blank
   lines, with k trailing blank "lines" (0: no final newline, 1: final newline, more: trailing blank
   lines), yield exactly the written command lines and the written paths, duplicates merged, in
   bytewise order *)
Theorem C14_flat_roundtrip : forall (krs : list (nat * rule)) (k : nat),
  Forall (fun p => flat_ok (snd p)) krs ->
  parse (join_with [NL] (render_rules krs ++ blanks k)) =
  Ok (map (fun p => mk_rule (dedup_sort (r_targets (snd p))) (dedup_sort (r_sources (snd p)))
                            (r_command (snd p))) krs).
Proof. exact c14_flat_roundtrip. Qed.

(* the result does not depend on the order of the path lines *)
Theorem C14_line_order_irrelevant : forall r r',
  flat_ok r ->
  Permutation (r_targets r) (r_targets r') -> Permutation (r_sources r) (r_sources r') ->
  r_command r = r_command r' ->
  parse (join_with [NL] (render_rule r')) = parse (join_with [NL] (render_rule r)).
Proof. exact c14_line_order_irrelevant. Qed.

(* tab-indented directory bundles: a forest (non-empty names not starting with a tab, non-empty
   directories, distinct sibling names) rendered with tab indentation parses to the same forest with every
   level in bytewise order; its flattening has exactly the forest's paths *)
Theorem C14_bundle_roundtrip : forall ns,
  good_forest ns -> parse_lines (render_forest ns) = Ok (sort_forest ns).
Proof. exact c14_bundle_roundtrip. Qed.

Theorem C14_bundle_paths_preserved : forall ns, Permutation (flatten (sort_forest ns)) (flatten ns).
Proof. exact c14_bundle_paths_preserved. Qed.

(* the two combined: a rule whose target and source sections are bundles *)
Theorem C14_bundled_rule_roundtrip : forall tf sf cmd,
  bundled_ok tf sf cmd ->
  parse (join_with [NL] (rule_lines (render_forest tf) (render_forest sf) cmd)) =
  Ok [mk_rule (flatten (sort_forest tf)) (flatten (sort_forest sf)) cmd].
Proof. exact c14_bundled_rule_roundtrip. Qed.

(* the general form: any file made of rule texts whose three blocks are clean lines and whose path blocks
   the bundle parser accepts, with arbitrary blank lines around the rules *)
Theorem C14_roundtrip_general : forall xs rs k,
  Forall2 rtext_ok xs rs -> parse (join_with [NL] (render_texts xs ++ blanks k)) = Ok rs.
Proof. exact c14_roundtrip_general. Qed.

(* Not covered by a theorem (correspondence only): merging of *repeated identical directory subtrees*
   inside a bundle, and the exact bundle error (kind and section-relative indices) for every malformed
   bundle; the flat case of "repeated path entries are merged" is C14_flat_roundtrip (dedup_sort). *)

Check C14_flat_roundtrip.
Check C14_error_lines.
