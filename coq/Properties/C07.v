(* C07 — the cache is content-addressed: each entry holds the content it is named after.
   Only the property theorems; proofs in Proofs/InvFacts.v.
   T is the type of hashes; the statements hold for every T with a correct equality test (no property
   of the hash function is needed for C07), and are instantiated with the free symbolic hashes `sym`. *)
From Coq Require Import Relations.
From Ruler Require Import Bytes AList RuleSyntax World Work Build Ops Inv InvFacts C07Extra C01Facts CoarseInv CoarseBuild C18CoarseFacts.

Local Notation steps teqb hc := (clos_refl_trans _ (step teqb hc)).

(* the invariant holds of the empty world (the clock starts above 0) ... *)
Theorem C07_init : forall t0, disk_inv sym_eqb SContent (init_world Fine t0).
Proof. exact c07_init_sym. Qed.

(* ... and is preserved by every primitive action on shared state, whoever performs it and in whatever
   order: back-up (rename into the cache under the hash obtained through the mtime shortcut from a sound
   remembered state), restore, any write / delete / chmod by a command or the user, state-file writes,
   directory creation, the user deleting parts of the ruler directory *)
Theorem C07_step_preserves_invariant : forall w w' : world sym,
  disk_inv sym_eqb SContent w -> step sym_eqb SContent w w' -> disk_inv sym_eqb SContent w'.
Proof. exact (step_preserves_inv sym sym_eqb SContent sym_eqb_spec). Qed.

(* hence after ANY finite sequence of such actions — every interleaving of the rule threads, every
   prefix of it (every crash point), successful or not — every cache entry is named after its content *)
Theorem C07_cache_content_addressed : forall w w' : world sym,
  disk_inv sym_eqb SContent w -> steps sym_eqb SContent w w' -> cache_addressed sym_eqb SContent w'.
Proof. exact c07_cache_content_addressed_sym. Qed.

(* a thread's remembered file states stay sound while other threads act (what lets the above be applied
   to interleavings: the side condition of SBackup is stable) *)
Theorem C07_remembered_state_stable : forall (w w' : world sym) st,
  disk_inv sym_eqb SContent w -> steps sym_eqb SContent w w' ->
  state_ok sym_eqb SContent w st -> state_ok sym_eqb SContent w' st.
Proof. exact (state_ok_stable_steps sym sym_eqb SContent sym_eqb_spec). Qed.

(* the modelled build and clean perform nothing but such actions *)
Theorem C07_build_is_steps : forall (w : world sym) rp goal,
  disk_inv sym_eqb SContent w ->
  steps sym_eqb SContent w (o_world (build sym_eqb SContent SList SRule w rp goal)).
Proof. exact build_steps_sym. Qed.

Theorem C07_clean_is_steps : forall (w : world sym) rp goal,
  disk_inv sym_eqb SContent w ->
  steps sym_eqb SContent w (o_world (clean sym_eqb SContent w rp goal)).
Proof. exact clean_steps_sym. Qed.

(* at every quiescent point of every history over the alphabet of C01 (edits, reverts, rule edits,
   builds, goal builds, cleans, tampering, deletions, deleted cache entries / ruler directory; only a
   user planting *decodable* state files is excluded) the cache is content-addressed *)
Theorem C07_every_history : forall t0 (ops : list (op sym)),
  Forall (safe_op sym) ops ->
  cache_addressed sym_eqb SContent
    (fold_left (fun w o => fst (apply_op sym_eqb SContent SList SRule w o)) ops (init_world Fine t0)).
Proof. exact c07_every_history_sym. Qed.

(* the same for any hash type with a correct equality test (so in particular for real SHA-256 values,
   where nothing about collisions is needed for this property) *)
Theorem C07_every_history_any_hash :
  forall (T : Type) (teqb : T -> T -> bool) (hc : bytes -> T) (hl : list T -> T) (hr : rule -> T),
    (forall a b, teqb a b = true <-> a = b) ->
    forall t0 (ops : list (op T)), Forall (safe_op T) ops ->
      cache_addressed teqb hc (fold_left (fun w o => fst (apply_op teqb hc hl hr w o)) ops (init_world Fine t0)).
Proof. intros T teqb hc hl hr Hspec. exact (c07_every_history T teqb hc Hspec hl hr). Qed.

(* consequence: what a restore puts at a path is the content whose hash was asked for *)
Theorem C07_restore_gives_requested_content : forall (w w' : world sym) t p f,
  disk_inv sym_eqb SContent w -> restore sym_eqb w t p = RDone w' -> fget w' p = Some f ->
  t = SContent (f_content f).
Proof. exact c07_restore_content_sym. Qed.

(* ROUND 2 — ANY CLOCK. The theorems above assume that distinct writes carry distinct times (the fine clock, part of
   disk_inv). Under the coarse clock (all writes of one invocation share a time) the cache is content-addressed after
   every history as well: it is the first component of the per-path invariant `coarse_inv` (Proofs/CoarseInv.v), which
   holds after every history of the C01 alphabet whose builds run commands confined to their targets. (For kills
   under the coarse clock see C11 and suite crash_coarse: defect F6, repaired.) *)
Theorem C07_every_history_any_clock : forall mode t0 (ops : list (op sym)),
  confined_history sym sym_eqb SContent SList SRule (init_world mode t0) ops ->
  cache_addressed sym_eqb SContent
    (fold_left (fun w o => fst (apply_op sym_eqb SContent SList SRule w o)) ops (init_world mode t0)).
Proof. intros mode t0 ops Hc. exact (proj1 (coarse_inv_every_history_sym mode t0 ops Hc)). Qed.

Check C07_cache_content_addressed.
Check C07_every_history.
Check C07_every_history_any_clock.


(* ---- interleavings at cache operations (Model/Fine.v) ----
   Every state a build passes through, under EVERY interleaving `ch` of the rule threads' steps at the
   shared cache directory (any prefix of any run: `ch` is arbitrary), satisfies the disk invariant, so
   each cache entry holds the content it is named after at every instant of a concurrent build, not only
   at its end. Non-vacuity: Proofs/FineCorExamples.v (two rules racing for one cache entry). *)
From Ruler Require Import Inv Ideal BuildSpec InvFacts C01Hist C01Facts C11Facts C02Sym Sched Fine FineFacts FineCorStep FineCor FineStatus FineCorFinal FineCorExamples.
Local Open Scope nat_scope.

Theorem C07_every_state_of_every_interleaving : forall (w : world sym) rp goal w1 tbl pack hists blobs t' ch,
  disk_inv sym_eqb SContent w -> hist_sound_sym w -> no_bad_state_files sym sym_eqb w ->
  init_dir sym w = Ok (w1, tbl) -> get_nodes sym w1 rp goal = Ok pack -> Forall det_node (p_nodes pack) ->
  read_histories sym sym_eqb SRule w1 (p_nodes pack) = Some hists ->
  take_blobs sym SContent tbl (worker_paths pack) = (blobs, t') ->
  let st := frun_sym pack blobs hists ch (fn_start_sym w1 t' pack) in
  disk_inv sym_eqb SContent (fn_world st) /\ hist_sound_sym (fn_world st) /\ no_bad_state_files sym sym_eqb (fn_world st).
Proof. exact fine_crash_ok_sym. Qed.
Print Assumptions C07_every_state_of_every_interleaving.

(* the user's mtime-preserving `mv` (an older copy put back at a path) keeps the invariant as well *)
From Ruler Require Import MvFacts.
Theorem C07_user_mv_keeps_invariant : forall (w : world sym) p q,
  disk_inv sym_eqb SContent w -> disk_inv sym_eqb SContent (move_file w p q).
Proof. exact mv_keeps_disk_inv_sym. Qed.
Print Assumptions C07_user_mv_keeps_invariant.

(* ---- ANY clock, at every crash point (round 4; Proofs/CoarseCrashFacts.v): the cache is content-addressed at every
   prefix of the actions of a build or clean started from the per-path invariant of C18 ---- *)
From Ruler Require Import Inv Ideal BuildSpec InvFacts C01Hist C01Facts C11Facts C02Sym Acts Sched Fine FineFacts C18Facts CoarseInv CoarseBuild C18CoarseFacts CoarseCrash CoarseCrashFacts CoarseCrashFine EpochFacts.
Local Open Scope nat_scope.

Theorem C07_any_clock_every_crash_point_of_a_build : forall (w : world sym) goal pre suf,
  coarse_inv_sym w -> build_confined sym w goal ->
  build_acts_sym w RULES_PATH goal = pre ++ suf ->
  cache_addressed sym_eqb SContent (run_acts_sym pre w).
Proof. exact coarse_crash_cache_addressed_sym. Qed.
Print Assumptions C07_any_clock_every_crash_point_of_a_build.

Theorem C07_any_clock_every_crash_point_of_a_clean : forall (w : world sym) goal pre suf,
  coarse_inv_sym w ->
  clean_acts_sym w RULES_PATH goal = pre ++ suf ->
  cache_addressed sym_eqb SContent (run_acts_sym pre w).
Proof. exact coarse_clean_crash_cache_addressed_sym. Qed.
Print Assumptions C07_any_clock_every_crash_point_of_a_clean.

(* ---- clean under every interleaving of its rule threads (round 4; Model/CleanFine.v, Proofs/CleanFine*.v) ----
   Every state of every run of a clean satisfies the disk invariant (each step is a step of the primitive-action LTS or
   the identity); under any clock, the in-flight invariant. *)
From Coq Require Import Relations.
From Ruler Require Import Bytes AList RuleSyntax TopoSort World Work Build Ops Inv InvFacts BuildSpec C01Facts C02Sym CoarseInv C18CoarseFacts Sched Fine FineCor CleanFine CleanFineBasic CleanFineInv CleanFineFacts.
Local Open Scope nat_scope.

Theorem C07_clean_every_state_of_every_interleaving : forall (w : world sym) rp goal w1 tbl pack ch,
  disk_inv sym_eqb SContent w -> init_dir sym w = Ok (w1, tbl) -> get_nodes sym w1 rp goal = Ok pack ->
  let blobs := node_blobs SContent tbl (p_nodes pack) in
  let st := crun_sym blobs ch (cinit sym w1 (length blobs)) in
  disk_inv sym_eqb SContent (cs_world st) /\
  clos_refl_trans (world sym) (step sym_eqb SContent) w (cs_world st).
Proof. exact clean_fine_every_state_inv_sym. Qed.
Print Assumptions C07_clean_every_state_of_every_interleaving.

Theorem C07_clean_every_state_of_every_interleaving_any_clock : forall (w : world sym) rp goal w1 tbl pack ch,
  coarse_inv sym_eqb SContent w -> init_dir sym w = Ok (w1, tbl) -> get_nodes sym w1 rp goal = Ok pack ->
  let blobs := node_blobs SContent tbl (p_nodes pack) in
  let st := crun_sym blobs ch (cinit sym w1 (length blobs)) in
  pre_inv sym_eqb SContent (cs_world st).
Proof. exact clean_fine_every_state_pre_inv_sym. Qed.
Print Assumptions C07_clean_every_state_of_every_interleaving_any_clock.
