(* C13 — rule identity: history is shared exactly between identical rules.
   Only the property theorems; proofs in Proofs/RuleIdentityFacts.v. *)
From Coq Require Import Permutation.
From Ruler Require Import Bytes Sha256 TicketModel RuleSyntax Parser RuleIdentityFacts.

(* The identity of a rule is SHA-256 of the serialisation of its canonical form (targets and sources
   sorted, command as written): by definition of the model, checked against Rule::get_ticket by the
   correspondence suite c13_identity. *)
Theorem C13_ticket_is_hash_of_canonical_form :
  forall r, rule_ticket r = sha256 (ser_rule (canon_rule r)).
Proof. intro r. reflexivity. Qed.

(* re-ordering target or source lines does not change the identity *)
Theorem C13_reorder_same_ticket : forall r1 r2,
  Permutation (r_targets r1) (r_targets r2) -> Permutation (r_sources r1) (r_sources r2) ->
  r_command r1 = r_command r2 -> rule_ticket r1 = rule_ticket r2.
Proof. exact c13_reorder_same_ticket. Qed.

(* the canonical form coincides exactly for rules with the same targets and sources (as multisets;
   as sets for the duplicate-free lists the parser produces) and the same command lines in order *)
Theorem C13_identity_iff : forall r1 r2,
  canon_rule r1 = canon_rule r2 <->
  (Permutation (r_targets r1) (r_targets r2) /\ Permutation (r_sources r1) (r_sources r2) /\
   r_command r1 = r_command r2).
Proof. exact c13_identity_iff. Qed.

(* the serialisation that is hashed is injective on everything the parser can produce (strings
   non-empty and newline-free): any change to the command, any added, removed or renamed source or
   target changes the hashed bytes, so identities coincide only for the same rule or on a SHA-256
   collision between two explicitly different preimages *)
Theorem C13_ser_injective : forall r1 r2,
  producible r1 -> producible r2 -> ser_rule r1 = ser_rule r2 -> r1 = r2.
Proof. exact c13_ser_injective. Qed.

Theorem C13_ticket_preimage_iff : forall r1 r2, producible r1 -> producible r2 ->
  (ser_rule (canon_rule r1) = ser_rule (canon_rule r2) <->
   (Permutation (r_targets r1) (r_targets r2) /\ Permutation (r_sources r1) (r_sources r2) /\
    r_command r1 = r_command r2)).
Proof. exact c13_ticket_preimage_iff. Qed.

(* the hypothesis is exactly what the parser guarantees ... *)
Theorem C13_parser_range : forall content rules,
  parse content = Ok rules -> Forall producible rules.
Proof. exact c13_parser_range. Qed.

Theorem C13_parsed_ticket_preimage_iff : forall c1 c2 rs1 rs2 r1 r2,
  parse c1 = Ok rs1 -> parse c2 = Ok rs2 -> In r1 rs1 -> In r2 rs2 ->
  (ser_rule (canon_rule r1) = ser_rule (canon_rule r2) <->
   (Permutation (r_targets r1) (r_targets r2) /\ Permutation (r_sources r1) (r_sources r2) /\
    r_command r1 = r_command r2)).
Proof. exact c13_parsed_ticket_preimage_iff. Qed.

(* ... and it is needed: outside it (an empty string, an embedded newline) two different rules share
   their identity. These inputs cannot come out of the parser. *)
Theorem C13_not_injective_outside :
  exists r1 r2,
    ~ producible r1 /\ ~ producible r2 /\ r1 <> r2 /\ canon_rule r1 <> canon_rule r2 /\
    ser_rule r1 = ser_rule r2 /\ ser_rule (canon_rule r1) = ser_rule (canon_rule r2) /\
    rule_ticket r1 = rule_ticket r2.
Proof. exact c13_not_injective_outside. Qed.

Check C13_ser_injective : forall r1 r2, producible r1 -> producible r2 -> ser_rule r1 = ser_rule r2 -> r1 = r2.
Check C13_parser_range : forall content rules, parse content = Ok rules -> Forall producible rules.

(* ---- a rule's record is only ever derived from that rule's own record (round 4; Proofs/HistMono.v) ----
   Every history file a build writes is written under the name of a rule of the plan, extends the file main read under
   THAT name before any worker ran, and differs from it in at most one key: results recorded for one rule cannot be filed
   under another. (The mutants C04-4 / C13-4 are excluded by this statement: HistMono.hm_shifted_not_own.) *)
From Ruler Require Import Bytes AList RuleSyntax TopoSort World Work Build Ops Inv InvFacts Acts Sched Fine C01Facts HistMono.

Theorem C13_each_history_is_written_from_its_own : forall (w : world sym) rp goal r h',
  In (AWriteHist r h') (build_acts_sym w rp goal) ->
  exists w1 tbl pack n h,
    init_dir sym w = Ok (w1, tbl) /\ get_nodes sym w1 rp goal = Ok pack /\ In n (p_nodes pack) /\ r = n_rule n /\
    read_history sym sym_eqb SRule w1 r = Some h /\ hist_le_sym h h' /\ hist_diff1_sym h h'.
Proof. exact build_writes_each_history_from_its_own_sym. Qed.
Print Assumptions C13_each_history_is_written_from_its_own.
