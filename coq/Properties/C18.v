(* C18 — the modification-time shortcut never changes a result.
   Only the property theorems; proofs in Proofs/C18Facts.v.
   PARTIAL: proved for the clock in which distinct writes carry distinct times (fine clock): under the
   disk invariant — which holds after every history (C07/C01) — the hash obtained through the shortcut from
   any sound remembered state IS the hash of the file's bytes, and a build (or clean) run with the saved
   file-state table and run with the table erased — or with any other sound table — gives the same verdict,
   the same workspace, the same cache, the same histories, the same commands and the same status lines,
   literally. For the coarse clock (one tick per user action or ruler invocation, files written in one
   build share a time; ruler restoring a different file into a path) there is no theorem: the per-path
   coherence it needs was violated by the repaired defect F4; it is decided by running every generated
   history twice (as is / table erased before every build) under both clocks on the implementation, with
   all four runs also compared with the model. *)
From Ruler Require Import Bytes AList RuleSyntax TopoSort World Cmdlang Work Build Ops Inv InvFacts C18Facts.

Theorem C18_shortcut_returns_true_hash : forall (w : world sym) p assumed,
  disk_inv sym_eqb SContent w -> state_ok sym_eqb SContent w assumed ->
  get_file_ticket sym_eqb SContent w p assumed = option_map (fun f => SContent (f_content f)) (fget w p).
Proof. exact shortcut_transparent_sym. Qed.

Theorem C18_fine : forall (w : world sym) rp goal,
  disk_inv sym_eqb SContent w ->
  let o1 := build sym_eqb SContent SList SRule w rp goal in
  let o2 := build sym_eqb SContent SList SRule (erase_table sym w) rp goal in
  o_verdict o1 = o_verdict o2 /\ w_files (o_world o1) = w_files (o_world o2) /\
  rd_cache (w_rd (o_world o1)) = rd_cache (w_rd (o_world o2)) /\
  rd_hist (w_rd (o_world o1)) = rd_hist (w_rd (o_world o2)) /\
  o_commands o1 = o_commands o2 /\ o_status o1 = o_status o2.
Proof. exact c18_fine_sym. Qed.

Theorem C18_fine_clean : forall (w : world sym) rp goal,
  disk_inv sym_eqb SContent w ->
  let o1 := clean sym_eqb SContent w rp goal in
  let o2 := clean sym_eqb SContent (erase_table sym w) rp goal in
  o_verdict o1 = o_verdict o2 /\ w_files (o_world o1) = w_files (o_world o2) /\
  rd_cache (w_rd (o_world o1)) = rd_cache (w_rd (o_world o2)) /\
  rd_hist (w_rd (o_world o1)) = rd_hist (w_rd (o_world o2)) /\
  o_commands o1 = o_commands o2 /\ o_status o1 = o_status o2.
Proof. exact c18_fine_clean_sym. Qed.

(* not only an erased table: any two sound tables give the same build *)
Theorem C18_any_sound_table : forall (w : world sym) x rp goal,
  disk_inv sym_eqb SContent w -> disk_inv sym_eqb SContent (with_table sym w x) ->
  rd_table (w_rd w) <> Some SF_bad -> x <> Some SF_bad ->
  let o1 := build sym_eqb SContent SList SRule w rp goal in
  let o2 := build sym_eqb SContent SList SRule (with_table sym w x) rp goal in
  o_verdict o1 = o_verdict o2 /\ w_files (o_world o1) = w_files (o_world o2) /\
  rd_cache (w_rd (o_world o1)) = rd_cache (w_rd (o_world o2)) /\
  rd_hist (w_rd (o_world o1)) = rd_hist (w_rd (o_world o2)) /\
  o_commands o1 = o_commands o2 /\ o_status o1 = o_status o2.
Proof. exact (c18_table_irrelevant sym sym_eqb SContent SList SRule sym_eqb_spec). Qed.

Check C18_fine.
