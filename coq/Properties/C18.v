(* C18 — the modification-time shortcut never changes a result.
   ROUND 2 (end of this file): THE COARSE CLOCK IS NOW PROVED TOO — a per-path invariant replaces the global one; the
   paragraph below describes round 1.
   Only the property theorems; proofs in Proofs/C18Facts.v.
   PARTIAL: proved for the clock in which distinct writes carry distinct times (fine clock): under the
   disk invariant — which holds after every history (C07/C01) — the hash obtained through the shortcut from
   any sound remembered state IS the hash of the file's bytes, and a build (or clean) run with the saved
   file-state table and run with the table erased — or with any other sound table — gives the same verdict,
   the same workspace, the same cache, the same histories, the same commands and the same status lines,
   literally. For the coarse clock (one tick per user action or ruler invocation, files written in one
   build share a time; ruler restoring a different file into a path) there is no theorem: the per-path
   coherence it needs was violated by the repaired defect F4; it is decided by running every generated
   history twice (as is / table erased before every build) under both clocks on the implementation, with
   all four runs also compared with the model. *)
From Ruler Require Import Bytes AList RuleSyntax TopoSort World Cmdlang Work Build Ops Inv BuildSpec InvFacts C01Facts C18Facts
     CoarseInv C18Coarse CoarseBuild C18CoarseFacts.

Theorem C18_shortcut_returns_true_hash : forall (w : world sym) p assumed,
  disk_inv sym_eqb SContent w -> state_ok sym_eqb SContent w assumed ->
  get_file_ticket sym_eqb SContent w p assumed = option_map (fun f => SContent (f_content f)) (fget w p).
Proof. exact shortcut_transparent_sym. Qed.

Theorem C18_fine : forall (w : world sym) rp goal,
  disk_inv sym_eqb SContent w ->
  let o1 := build sym_eqb SContent SList SRule w rp goal in
  let o2 := build sym_eqb SContent SList SRule (erase_table sym w) rp goal in
  o_verdict o1 = o_verdict o2 /\ w_files (o_world o1) = w_files (o_world o2) /\
  rd_cache (w_rd (o_world o1)) = rd_cache (w_rd (o_world o2)) /\
  rd_hist (w_rd (o_world o1)) = rd_hist (w_rd (o_world o2)) /\
  o_commands o1 = o_commands o2 /\ o_status o1 = o_status o2.
Proof. exact c18_fine_sym. Qed.

Theorem C18_fine_clean : forall (w : world sym) rp goal,
  disk_inv sym_eqb SContent w ->
  let o1 := clean sym_eqb SContent w rp goal in
  let o2 := clean sym_eqb SContent (erase_table sym w) rp goal in
  o_verdict o1 = o_verdict o2 /\ w_files (o_world o1) = w_files (o_world o2) /\
  rd_cache (w_rd (o_world o1)) = rd_cache (w_rd (o_world o2)) /\
  rd_hist (w_rd (o_world o1)) = rd_hist (w_rd (o_world o2)) /\
  o_commands o1 = o_commands o2 /\ o_status o1 = o_status o2.
Proof. exact c18_fine_clean_sym. Qed.

(* not only an erased table: any two sound tables give the same build *)
Theorem C18_any_sound_table : forall (w : world sym) x rp goal,
  disk_inv sym_eqb SContent w -> disk_inv sym_eqb SContent (with_table sym w x) ->
  rd_table (w_rd w) <> Some SF_bad -> x <> Some SF_bad ->
  let o1 := build sym_eqb SContent SList SRule w rp goal in
  let o2 := build sym_eqb SContent SList SRule (with_table sym w x) rp goal in
  o_verdict o1 = o_verdict o2 /\ w_files (o_world o1) = w_files (o_world o2) /\
  rd_cache (w_rd (o_world o1)) = rd_cache (w_rd (o_world o2)) /\
  rd_hist (w_rd (o_world o1)) = rd_hist (w_rd (o_world o2)) /\
  o_commands o1 = o_commands o2 /\ o_status o1 = o_status o2.
Proof. exact (c18_table_irrelevant sym sym_eqb SContent SList SRule sym_eqb_spec). Qed.

(* ------------------------------------------------------------------------------------------------------
   ANY CLOCK, IN PARTICULAR THE COARSE ONE (Proofs/CoarseInv.v, C18Coarse.v, CoarseBuild.v, C18CoarseFacts.v).
   Under the coarse clock every write of one invocation carries the same time, so "equal times mean equal content"
   is false; what holds is PER PATH: `coarse_inv` = the cache is content-addressed, every table entry is sound for
   the file now at ITS path (if the shortcut would accept it, its hash is that file's hash), and between operations
   the clock is strictly ahead of every file and every remembered time. It holds initially and after EVERY history
   of the C01 alphabet whose builds run commands confined to their targets (C18_invariant_after_every_history, any
   clock mode) — the repair of F4 (`forget_replaced`: what was remembered about a file ruler itself replaced by a
   restore is dropped) is exactly what carries it through a build — and under it a build or clean with the saved
   table and with the table erased give LITERALLY the same verdict, workspace, cache, histories, commands, status. *)
Local Notation build_sym := (build sym_eqb SContent SList SRule).
Local Notation run_sym ops w0 := (fold_left (fun w o => fst (apply_op sym_eqb SContent SList SRule w o)) ops w0).

Theorem C18_shortcut_returns_true_hash_per_path : forall (w : world sym) p st,
  state_ok_at sym_eqb SContent w p st ->
  get_file_ticket sym_eqb SContent w p st = option_map (fun f => SContent (f_content f)) (fget w p).
Proof. exact coarse_shortcut_transparent_sym. Qed.

Theorem C18_any_clock : forall (w : world sym) rp goal,
  coarse_inv sym_eqb SContent w ->
  (forall w1 tbl pack, init_dir sym w = Ok (w1, tbl) -> get_nodes sym w1 rp goal = Ok pack ->
                       Forall node_confined (p_nodes pack)) ->
  let o1 := build_sym w rp goal in
  let o2 := build_sym (erase_table sym w) rp goal in
  o_verdict o1 = o_verdict o2 /\ w_files (o_world o1) = w_files (o_world o2) /\
  rd_cache (w_rd (o_world o1)) = rd_cache (w_rd (o_world o2)) /\
  rd_hist (w_rd (o_world o1)) = rd_hist (w_rd (o_world o2)) /\
  o_commands o1 = o_commands o2 /\ o_status o1 = o_status o2.
Proof. exact c18_coarse_sym. Qed.

Theorem C18_any_clock_clean : forall (w : world sym) rp goal,
  coarse_inv sym_eqb SContent w ->
  let o1 := clean sym_eqb SContent w rp goal in
  let o2 := clean sym_eqb SContent (erase_table sym w) rp goal in
  o_verdict o1 = o_verdict o2 /\ w_files (o_world o1) = w_files (o_world o2) /\
  rd_cache (w_rd (o_world o1)) = rd_cache (w_rd (o_world o2)) /\
  rd_hist (w_rd (o_world o1)) = rd_hist (w_rd (o_world o2)) /\
  o_commands o1 = o_commands o2 /\ o_status o1 = o_status o2.
Proof. exact c18_coarse_clean_sym. Qed.

Theorem C18_invariant_after_every_history : forall mode t0 (ops : list (op sym)),
  confined_history sym sym_eqb SContent SList SRule (init_world mode t0) ops ->
  coarse_inv sym_eqb SContent (run_sym ops (init_world mode t0)).
Proof. exact coarse_inv_every_history_sym. Qed.

(* hence the property under the coarse clock, after every history *)
Theorem C18_coarse_clock_every_history : forall t0 (ops : list (op sym)) goal,
  confined_history sym sym_eqb SContent SList SRule (init_world Coarse t0) ops ->
  build_confined sym (run_sym ops (init_world Coarse t0)) goal ->
  let w := run_sym ops (init_world Coarse t0) in
  let o1 := build_sym w RULES_PATH goal in
  let o2 := build_sym (erase_table sym w) RULES_PATH goal in
  o_verdict o1 = o_verdict o2 /\ w_files (o_world o1) = w_files (o_world o2) /\
  rd_cache (w_rd (o_world o1)) = rd_cache (w_rd (o_world o2)) /\
  rd_hist (w_rd (o_world o1)) = rd_hist (w_rd (o_world o2)) /\
  o_commands o1 = o_commands o2 /\ o_status o1 = o_status o2.
Proof. exact c18_coarse_every_history_sym. Qed.

(* the repair of F4 is what makes it true: the build WITHOUT `forget_replaced` (Build.build otherwise unchanged) violates
   the very same statement under the coarse clock (counterexample by vm_compute: two copy rules whose sources are
   exchanged and put back) *)
Theorem C18_pre_repair_build_refuted :
  ~ (forall (w : world sym) rp goal,
       coarse_inv sym_eqb SContent w ->
       (forall w1 tbl pack, init_dir sym w = Ok (w1, tbl) -> get_nodes sym w1 rp goal = Ok pack ->
                            Forall node_confined (p_nodes pack)) ->
       let o1 := legacy_build sym sym_eqb SContent SList SRule w rp goal in
       let o2 := legacy_build sym sym_eqb SContent SList SRule (erase_table sym w) rp goal in
       o_verdict o1 = o_verdict o2 /\ w_files (o_world o1) = w_files (o_world o2) /\
       rd_cache (w_rd (o_world o1)) = rd_cache (w_rd (o_world o2)) /\
       rd_hist (w_rd (o_world o1)) = rd_hist (w_rd (o_world o2)) /\
       o_commands o1 = o_commands o2 /\ o_status o1 = o_status o2).
Proof. exact c18_coarse_legacy_refuted. Qed.

Check C18_fine.
Check C18_any_clock.
Check C18_coarse_clock_every_history.

(* ---- an older copy put (back) at a path by the user: `mv`, which keeps the modification time ----
   (fine clock) Whatever the table remembers about q - in particular a NEWER time with the hash of what was at q -
   after `mv p q` the ticket ruler computes for q is the hash of the bytes that are now there. This is the
   theorem a `<=` comparison in the shortcut falsifies (Proofs/MvFacts.v mv_le_shortcut_refuted; seeds C01-2,
   C08-3, C10-3 are such mutations). *)
From Ruler Require Import MvFacts.

Theorem C18_older_copy_moved_into_place_is_rehashed : forall (w : world sym) p q st f,
  disk_inv sym_eqb SContent w -> state_ok sym_eqb SContent w st -> fget (move_file w p q) q = Some f ->
  get_file_ticket sym_eqb SContent (move_file w p q) q st = Some (SContent (f_content f)).
Proof. exact mv_old_copy_is_rehashed_sym. Qed.
Print Assumptions C18_older_copy_moved_into_place_is_rehashed.

(* (coarse clock) The user's `mv` of one target over ANOTHER target written in the same tick is outside what an
   mtime shortcut can see, and outside the property's alphabet (its user actions are writes, which take a new
   tick): the per-path invariant does not survive it, and C18's conclusion fails on the witness. Stated so that
   the exclusion of OMove from the coarse-clock theorems (CoarseBuild.op_confined) is visible, not hidden. *)
Theorem C18_coarse_clock_user_mv_refuted :
  exists (w : world sym) p q,
    coarse_inv sym_eqb SContent w /\ safe_op sym (OMove p q) /\
    ~ coarse_inv sym_eqb SContent (fst (apply_sym w (OMove p q))).
Proof. exact coarse_inv_mv_refuted. Qed.
Print Assumptions C18_coarse_clock_user_mv_refuted.

(* ---- after a kill, any clock (round 4; Proofs/CoarseCrashFacts.v): the build that follows a killed build gives the
   same verdict, files, cache, histories, commands and status with the saved table as with the table erased; and the
   same after ANY history that contains kills at arbitrary points ---- *)
From Ruler Require Import Inv Ideal BuildSpec InvFacts C01Hist C01Facts C11Facts C02Sym Acts Sched Fine FineFacts C18Facts CoarseInv CoarseBuild C18CoarseFacts CoarseCrash CoarseCrashFacts CoarseCrashFine EpochFacts.
Local Open Scope nat_scope.

Theorem C18_any_clock_build_after_a_killed_build : forall (w : world sym) goal pre suf goal',
  coarse_inv_sym w -> build_confined sym w goal ->
  build_acts_sym w RULES_PATH goal = pre ++ suf ->
  let wc := tick (run_acts_sym pre w) in
  build_confined sym wc goal' ->
  let o1 := build_sym wc RULES_PATH goal' in
  let o2 := build_sym (erase_table sym wc) RULES_PATH goal' in
  o_verdict o1 = o_verdict o2 /\ w_files (o_world o1) = w_files (o_world o2) /\
  rd_cache (w_rd (o_world o1)) = rd_cache (w_rd (o_world o2)) /\
  rd_hist (w_rd (o_world o1)) = rd_hist (w_rd (o_world o2)) /\
  o_commands o1 = o_commands o2 /\ o_status o1 = o_status o2.
Proof. exact coarse_crash_next_build_table_irrelevant_sym. Qed.
Print Assumptions C18_any_clock_build_after_a_killed_build.

Theorem C18_any_clock_build_after_a_killed_clean : forall (w : world sym) goal pre suf goal',
  coarse_inv_sym w ->
  clean_acts_sym w RULES_PATH goal = pre ++ suf ->
  let wc := tick (run_acts_sym pre w) in
  build_confined sym wc goal' ->
  let o1 := build_sym wc RULES_PATH goal' in
  let o2 := build_sym (erase_table sym wc) RULES_PATH goal' in
  o_verdict o1 = o_verdict o2 /\ w_files (o_world o1) = w_files (o_world o2) /\
  rd_cache (w_rd (o_world o1)) = rd_cache (w_rd (o_world o2)) /\
  rd_hist (w_rd (o_world o1)) = rd_hist (w_rd (o_world o2)) /\
  o_commands o1 = o_commands o2 /\ o_status o1 = o_status o2.
Proof. exact coarse_clean_crash_next_build_table_irrelevant_sym. Qed.
Print Assumptions C18_any_clock_build_after_a_killed_clean.

Theorem C18_any_clock_every_history_with_kills : forall mode (t0 : N) (kops : list (kop sym)) goal,
  confined_khistory_sym (init_world mode t0) kops ->
  build_confined sym (fold_left apply_kop_sym kops (init_world mode t0)) goal ->
  let w := fold_left apply_kop_sym kops (init_world mode t0) in
  let o1 := build_sym w RULES_PATH goal in
  let o2 := build_sym (erase_table sym w) RULES_PATH goal in
  o_verdict o1 = o_verdict o2 /\ w_files (o_world o1) = w_files (o_world o2) /\
  rd_cache (w_rd (o_world o1)) = rd_cache (w_rd (o_world o2)) /\
  rd_hist (w_rd (o_world o1)) = rd_hist (w_rd (o_world o2)) /\
  o_commands o1 = o_commands o2 /\ o_status o1 = o_status o2.
Proof. exact c18_every_history_with_kills_sym. Qed.
Print Assumptions C18_any_clock_every_history_with_kills.

From Coq Require Import Relations NArith.
Local Close Scope nat_scope.
Local Open Scope N_scope.
(* ---- files dated 0, the Unix epoch (round 4; Model/Inv.v no longer assumes them away; Proofs/EpochFacts.v) ----
   "Nothing remembered" is the WHOLE state FileState::empty(), not "time 0": a file dated 0 is hashed correctly
   whatever is remembered; and zeroing only the time of a remembered state (instead of forgetting the whole state)
   is refuted on a world where a file dated 0 has just been recovered. *)

Theorem C18_file_dated_zero_is_hashed_correctly : forall (w : world sym) p assumed f,
  disk_inv sym_eqb SContent w -> state_ok sym_eqb SContent w assumed ->
  fget w p = Some f -> f_mtime f = 0%N ->
  get_file_ticket sym_eqb SContent w p assumed = Some (SContent (f_content f)).
Proof. exact shortcut_transparent_at_epoch_sym. Qed.
Print Assumptions C18_file_dated_zero_is_hashed_correctly.

Theorem C18_zeroing_the_time_is_not_forgetting_refuted :
  (* the mutant shortcut is harmless: with every sound state it returns the hash of the file's bytes *)
  (forall (w : world sym) p assumed,
     state_ok sym_eqb SContent w assumed ->
     get_file_ticket' SContent w p assumed = option_map (fun f => SContent (f_content f)) (fget w p)) /\
  (* the mutant forget_replaced is not: in the world where t has just been recovered with time 0 and content "X",
     zeroing the time of what was remembered about t ("Y") leaves a state that is not sound, and the (real) shortcut
     takes it for the hash of t; the model's forget_replaced leaves the empty state, which is sound *)
  (disk_inv sym_eqb SContent ep_w /\
   file_at ep_w [116] = Some ([88], 0%N) /\
   forget' ep_st = mk_fstate (SContent [89]) 0%N false /\
   ~ state_ok sym_eqb SContent ep_w (forget' ep_st) /\
   get_file_ticket sym_eqb SContent ep_w [116] (forget' ep_st) = Some (SContent [89]) /\
   state_ok sym_eqb SContent ep_w (empty_state SContent) /\
   get_file_ticket sym_eqb SContent ep_w [116] (empty_state SContent) = Some (SContent [88])) /\
  (* hence the counterpart for forget' of R3 (InvFacts.state_ok_stable_steps: a sound state stays sound along
     ruler's and the user's steps) is false: ep_st is sound before the third build, forget' ep_st is not after it *)
  ~ (forall (w w' : world sym) (st : fstate sym),
       disk_inv sym_eqb SContent w -> state_ok sym_eqb SContent w st ->
       clos_refl_trans _ (step sym_eqb SContent) w w' -> state_ok sym_eqb SContent w' (forget' st)).
Proof. exact epoch_legacy_refuted. Qed.
Print Assumptions C18_zeroing_the_time_is_not_forgetting_refuted.
