(* C05 — build and clean always terminate: no deadlock, panic or channel error.
   Only the property theorems; proofs in Proofs/ProtocolFacts.v and Proofs/ProtocolPlan.v.
   The theorems are about the thread / channel protocol of build.rs (Model/Protocol.v): main spawns the
   workers in plan order and joins them in order; a worker reads ALL its in-edges, works, sends one packet
   (ticket or cancel) on every out-edge, finishes. They hold for every interleaving because they are
   statements about every reachable state / every event sequence of the transition system.
   PARTIAL with respect to the property text: blocking inside the OS, a command that never exits,
   file-system faults that make main panic, and panics inside the work step are runtime behaviour the
   protocol model does not exhibit; those are monitored on the implementation (scheduler shim). *)
From Coq Require Import List Arith.
From Ruler Require Import Bytes AList RuleSyntax TopoSort World Cmdlang Work Build Ops Inv BuildSpec Ideal InvFacts C01Hist C01Facts
     Sched SchedBasic SchedFacts Fine FineBasic FineFacts.
From Ruler Require Import Protocol ProtocolFacts ProtocolPlan.
Local Close Scope N_scope.
Local Open Scope nat_scope.

(* every plan the sorter accepts is a well-formed protocol graph (so everything below applies to every
   rule graph the tool accepts, goal-restricted sub-graphs included); clean uses workers without channels *)
Theorem C05_accepted_plans_are_wellformed : forall rs goal pack,
  Forall (fun r => r_targets r <> []) rs ->
  toposort rs goal = Ok pack -> wf_graph (graph_of_pack pack) /\ wf_graph (clean_graph_of_pack pack).
Proof. intros rs goal pack H1 H2. split; [exact (graph_of_pack_wf rs goal pack H1 H2) | apply clean_graph_wf]. Qed.

(* no internal send error: when a worker is about to send on an edge, the receiving end is alive *)
Theorem C05_no_send_failure : forall g s t, wf_graph g -> reachable g s -> ~ send_would_fail g s t.
Proof. exact c05_no_send_failure. Qed.

(* no internal receive error: a worker never waits on an edge whose sender is gone without having sent *)
Theorem C05_no_recv_failure : forall g s t, wf_graph g -> reachable g s -> ~ recv_would_fail g s t.
Proof. exact c05_no_recv_failure. Qed.

(* no deadlock: in every reachable state that is not final some event is enabled *)
Theorem C05_deadlock_free : forall g s, wf_graph g -> reachable g s ->
  finished g s = true \/ exists ev s', pstep g s ev = Some s'.
Proof. exact c05_deadlock_free. Qed.

(* termination: every event decreases a measure, so every event sequence is finite, bounded by the
   measure of the initial state, and a maximal one ends with main having joined every worker *)
Theorem C05_bounded : forall g s ev s', wf_graph g -> reachable g s -> pstep g s ev = Some s' ->
  measure g s' < measure g s.
Proof. exact c05_bounded. Qed.

Theorem C05_bounded_length : forall g evs s, wf_graph g ->
  run_events g (init_pstate g) evs = Some s -> length evs <= measure g (init_pstate g).
Proof. exact c05_bounded_length. Qed.

Theorem C05_maximal_run_finished : forall g evs s, wf_graph g ->
  run_events g (init_pstate g) evs = Some s -> (forall ev, pstep g s ev = None) -> finished g s = true.
Proof. exact c05_maximal_run_finished. Qed.

(* ------------------------------------------------------------------------------------------------------
   AT THE GRANULARITY OF THE CACHE OPERATIONS (Model/Fine.v, round 2): every step of every worker strictly decreases
   a measure (so every run is finite: no livelock between threads competing for cache entries); in every state a
   run reaches in which some worker is not done, some worker can move (no deadlock); every run can be completed. *)
Theorem C05_fine_step_decreases : forall pack blobs hists (st : fnstate sym) k st',
  fstep sym_eqb SContent SList pack blobs hists st k = Some st' ->
  fmeasure sym pack blobs st' < fmeasure sym pack blobs st.
Proof. exact build_fine_step_decreases_sym. Qed.

Theorem C05_fine_no_deadlock : forall (w1 w0 : world sym) rp goal pack blobs hists ch,
  get_nodes sym w1 rp goal = Ok pack ->
  let st := frun sym_eqb SContent SList pack blobs hists ch (fn_init sym w0 pack) in
  all_done st = false -> exists k, fstep sym_eqb SContent SList pack blobs hists st k <> None.
Proof. exact build_fine_no_deadlock_sym. Qed.

Theorem C05_fine_every_run_can_be_completed : forall (w1 w0 : world sym) rp goal pack blobs hists ch,
  get_nodes sym w1 rp goal = Ok pack ->
  exists ch', all_done (frun sym_eqb SContent SList pack blobs hists (ch ++ ch') (fn_init sym w0 pack)) = true.
Proof. exact build_fine_completable_sym. Qed.

Check C05_deadlock_free.
Check C05_fine_no_deadlock.

(* ---- clean under every interleaving of its rule threads (round 4; Model/CleanFine.v, Proofs/CleanFine*.v) ----
   A clean thread's work is split at every target (one step = look at one target and, if it is there, move it into the
   cache). Every step decreases a measure, an unfinished run can always move, every run can be completed; and no run of a
   clean ever ends with an error (the cache directory exists after init). *)
From Coq Require Import Relations.
From Ruler Require Import Bytes AList RuleSyntax TopoSort World Work Build Ops Inv InvFacts BuildSpec C01Facts C02Sym CoarseInv C18CoarseFacts Sched Fine FineCor CleanFine CleanFineBasic CleanFineInv CleanFineFacts.
Local Open Scope nat_scope.

Theorem C05_clean_step_decreases : forall blobs (st : cstate sym) k st',
  cstep_sym blobs st k = Some st' -> cmeasure sym blobs st' < cmeasure sym blobs st.
Proof. exact clean_fine_step_decreases_sym. Qed.
Print Assumptions C05_clean_step_decreases.

Theorem C05_clean_no_deadlock : forall blobs ch (w1 : world sym),
  let st := crun_sym blobs ch (cinit sym w1 (length blobs)) in
  call_done st = false -> exists k, cstep_sym blobs st k <> None.
Proof. exact clean_fine_no_deadlock_sym. Qed.
Print Assumptions C05_clean_no_deadlock.

Theorem C05_clean_every_run_can_be_completed : forall (w : world sym) rp goal ch,
  exists ch', clean_complete_sym (ch ++ ch') w rp goal.
Proof. exact clean_fine_completable_run_sym. Qed.
Print Assumptions C05_clean_every_run_can_be_completed.

Theorem C05_clean_never_fails : forall (w : world sym) rp goal w1 tbl pack ch,
  disk_inv sym_eqb SContent w -> init_dir sym w = Ok (w1, tbl) -> get_nodes sym w1 rp goal = Ok pack ->
  o_verdict (clean_fine_sym ch w rp goal) = VOk.
Proof. exact clean_fine_verdict_ok_sym. Qed.
Print Assumptions C05_clean_never_fails.
