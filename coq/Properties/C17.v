(* C17 — a rule that is not reproducible is reported, never silently accepted.
   Only the property theorems; proofs in Proofs/BuildFacts.v. Every time a command has run, its observed
   outputs go through history_insert with the key of the byte-identical declared sources; the theorems say
   what that comparison does, that a contradiction can only come out of it after the whole command ran, and
   that the earlier record survives. Other rules are unaffected by C04/C09 (frame) — monitored here. *)
From Coq Require Import Sorted.
From Ruler Require Import Bytes AList RuleSyntax TopoSort World Cmdlang Work Build Ops BuildSpec BuildFacts.

(* an existing record that differs from the new outputs is a Contradiction naming exactly the targets at
   the differing indices, in target order *)
Theorem C17_contradiction_names_differing_targets :
  forall (T : Type) (teqb : T -> T -> bool),
    (forall a b : T, teqb a b = true <-> a = b) ->
    forall (h : history T) key old tickets paths,
      alookup teqb h key = Some old -> length old = length tickets ->
      map fs_t old <> tickets ->
      exists idx,
        history_insert teqb h key tickets paths = Err (WContradiction (map (fun i => nth i paths []) idx)) /\
        idx <> [] /\
        (forall i, In i idx <-> ((i < length tickets)%nat /\ nth_error (map fs_t old) i <> nth_error tickets i)) /\
        StronglySorted lt idx.
Proof. exact history_insert_contradiction. Qed.

(* identical outputs are accepted and leave the record as it was; a new key is simply recorded *)
Theorem C17_same_outputs_accepted :
  forall (T : Type) (teqb : T -> T -> bool),
    (forall a b : T, teqb a b = true <-> a = b) ->
    forall (h : history T) key old tickets paths,
      alookup teqb h key = Some old -> map fs_t old = tickets ->
      history_insert teqb h key tickets paths = Ok h.
Proof. exact history_insert_same. Qed.

(* there is no way from running the command to a successful result that skips the comparison: a
   Contradiction result of a rule thread is exactly history_insert's verdict on the observed outputs, after
   the whole script ran, with the key of the received source tickets *)
Theorem C17_every_reexecution_checked :
  forall (T : Type) (teqb : T -> T -> bool) (hc : bytes -> T)
         (w : world T) b h st cmd ps w' s,
    handle_rule teqb hc w b h st cmd = (Err (WContradiction ps), w', s) ->
    exists ress w1 b' old,
      resolved_of T teqb hc w b h st = Ok (ress, w1) /\ needs_rebuild ress = true /\
      s = script_lines cmd /\ w' = snd (run_script w1 s) /\
      update_blob teqb hc w' (forget_replaced hc b ress) = Ok b' /\
      alookup teqb h st = Some old /\
      history_insert teqb h st (map (fun e => fs_t (snd e)) b') (map fst b) = Err (WContradiction ps).
Proof. exact handle_rule_contradiction. Qed.

(* the earlier record is kept: the history file of every rule whose thread did not succeed is, after the
   build, exactly what it was before *)
Theorem C17_record_kept :
  forall (T : Type) (teqb : T -> T -> bool) (hc : bytes -> T) (hl : list T -> T) (hr : rule -> T),
    (forall a b : T, teqb a b = true <-> a = b) ->
    forall (w : world T) rp goal w1 t pack k,
      init_dir T w = Ok (w1, t) -> get_nodes T w1 rp goal = Ok pack ->
      match run_nodes T teqb hc hl hr (st_leaves T teqb hc w1 t pack) (p_nodes pack) with
      | None => True
      | Some st2 => forall r wr, In (Some r, TOk wr) (rs_results T st2) -> hr r <> k
      end ->
      hist_at T teqb (o_world (build teqb hc hl hr w rp goal)) k = hist_at T teqb w k.
Proof. exact build_failed_rule_history_unchanged. Qed.

Check C17_contradiction_names_differing_targets.

(* ---- the earlier record is kept: at every instant, for every rule (round 4; Proofs/HistMono.v) ----
   `hists_le w w'`: every history file of w that decodes is still there in w', decodes, and contains every entry it had
   (same key, same remembered outputs). It holds between the start of a build and EVERY prefix of its actions (every
   crash point), from ANY world, under every work order and every interleaving at the cache operations; a clean leaves the
   history directory as it is. An existing entry is never replaced (history_insert returns the very same history), so a
   contradiction can always be detected later. The seeded changes C04-4 / C13-4 (histories filed under another rule's
   name) violate it: HistMono.hm_shifted_refuted. *)
From Ruler Require Import Bytes AList RuleSyntax TopoSort World Work Build Ops Inv InvFacts Acts Sched Fine C01Facts HistMono.

Theorem C17_what_hists_le_says : forall w w' : world sym,
  hists_le_sym w w' <->
  forall hs name h, rd_hist (w_rd w) = Some hs -> alookup sym_eqb hs name = Some (SF_ok h) ->
    exists hs' h', rd_hist (w_rd w') = Some hs' /\ alookup sym_eqb hs' name = Some (SF_ok h') /\
                   forall k v, alookup sym_eqb h k = Some v -> alookup sym_eqb h' k = Some v.
Proof. exact hists_le_sym_unfold. Qed.
Print Assumptions C17_what_hists_le_says.

Theorem C17_every_record_kept_at_every_crash_point_of_a_build : forall (w : world sym) rp goal pre suf,
  build_acts_sym w rp goal = pre ++ suf -> hists_le_sym w (run_acts_sym pre w).
Proof. exact build_histories_only_grow_sym. Qed.
Print Assumptions C17_every_record_kept_at_every_crash_point_of_a_build.

Theorem C17_history_directory_unchanged_at_every_crash_point_of_a_clean : forall (w : world sym) rp goal pre suf,
  clean_acts_sym w rp goal = pre ++ suf ->
  rd_hist (w_rd (run_acts_sym pre w)) = rd_hist (w_rd w) \/
  (rd_hist (w_rd w) = None /\ rd_hist (w_rd (run_acts_sym pre w)) = Some []).
Proof. exact clean_histories_unchanged_sym. Qed.
Print Assumptions C17_history_directory_unchanged_at_every_crash_point_of_a_clean.

Theorem C17_every_record_kept_by_a_build : forall (w : world sym) rp goal,
  hists_le_sym w (o_world (build_sym w rp goal)).
Proof. exact build_keeps_every_record_sym. Qed.
Print Assumptions C17_every_record_kept_by_a_build.

Theorem C17_every_record_kept_under_every_work_order : forall ord (w : world sym) rp goal,
  hists_le_sym w (o_world (build_ord sym_eqb SContent SList SRule ord w rp goal)).
Proof. exact build_ord_keeps_every_record_sym. Qed.
Print Assumptions C17_every_record_kept_under_every_work_order.

Theorem C17_every_record_kept_under_every_interleaving : forall ch (w : world sym) rp goal,
  hists_le_sym w (o_world (build_fine sym_eqb SContent SList SRule ch w rp goal)).
Proof. exact build_fine_keeps_every_record_sym. Qed.
Print Assumptions C17_every_record_kept_under_every_interleaving.
