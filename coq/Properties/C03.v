(* C03 — commands run only after everything they depend on is final, on every schedule.
   ROUND 2 (end of this file): the property about file CONTENTS, for every order of the workers' work steps.
   Only the property theorems; proofs in Proofs/ProtocolFacts.v. Protocol level: `EWork t` is worker t's
   whole work step (for a rule: resolve its targets and, if needed, run its command; for a leaf: hash the
   file). The theorems quantify over every event sequence the protocol admits, i.e. every interleaving.
   PARTIAL: the work step is atomic here; that nobody else writes a rule's sources or targets while it
   runs is C09's frame theorem for the modelled build, and the content of "final" (= the from-scratch
   value) is C01; preemption inside a command is outside the model. On the implementation a monitor
   compares every declared source with its independently computed final value at the moment
   execute_command is entered, under explored schedules. *)
From Coq Require Import List Arith.
From Ruler Require Import Bytes AList RuleSyntax TopoSort World Cmdlang Work Build Ops Inv BuildSpec Ideal InvFacts C01Hist C01Facts
     Sched SchedBasic SchedFacts C03Sched.
From Ruler Require Import Protocol ProtocolFacts ProtocolPlan.
Local Close Scope N_scope.
Local Open Scope nat_scope.

(* when a worker starts its work, every producer of one of its sources has completed its own work *)
Theorem C03_work_order : forall g evs s i t e, wf_graph g ->
  run_events g (init_pstate g) evs = Some s ->
  nth_error evs i = Some (EWork t) -> In e (in_edges g t) ->
  exists j, j < i /\ nth_error evs j = Some (EWork (fst (nth e (pg_edges g) (0, 0)))).
Proof. exact c03_work_order. Qed.

(* and no worker ever works a second time: what a producer left is final for the rest of the build *)
Theorem C03_work_once : forall g evs s t, wf_graph g ->
  run_events g (init_pstate g) evs = Some s -> count_occ event_eq_dec evs (EWork t) <= 1.
Proof. exact c03_work_once. Qed.

(* the ticket a consumer hashes is the one its producer sent after working: a receive on an edge only
   happens after the send on that edge, which only happens after the sender's work *)
Theorem C03_recv_after_send : forall g s e, wf_graph g -> reachable g s ->
  nth e (ps_recvd s) false = true -> nth e (ps_sent s) false = true.
Proof. exact P1_recvd_sent. Qed.

(* ------------------------------------------------------------------------------------------------------
   ABOUT CONTENTS, ON EVERY WORK ORDER (Model/Sched.v; proofs in Proofs/C03Sched.v on top of the invariant of
   Proofs/SchedInv.v). In the build under any valid order `ord = pre ++ k :: post` of the workers' work steps, at the
   moment worker k — a rule node that is not canceled, i.e. one that really handles its rule and may run its command
   — starts, every declared source of its rule (1) already has the content it has at the END of the build (final),
   (2) exists (not missing), (3) holds exactly the from-scratch content (correct); and (C03_sources_stay_final) it
   keeps that content in every later state of the run: nobody replaces it while or after the command reads it.
   The states are those of build_ord itself (st0 is its initial state: the world after init with the table saved
   without the plan's entries, nobody has worked). Interleaving INSIDE a work step: Model/Fine.v, where a command is
   one step of its thread and reads only sources whose producers are done. *)
Local Open Scope N_scope.
Local Notation hist_sound_sym := (hist_sound sym sym_eqb SContent SList SRule).

Theorem C03_sources_final_when_worker_starts : forall (w : world sym) rp goal w1 tbl pack hists blobs t' ord pre k post n,
  disk_inv sym_eqb SContent w -> hist_sound_sym w -> init_dir sym w = Ok (w1, tbl) -> get_nodes sym w1 rp goal = Ok pack ->
  Forall det_node (p_nodes pack) -> valid_order pack ord ->
  read_histories sym sym_eqb SRule w1 (p_nodes pack) = Some hists ->
  take_blobs sym SContent tbl (worker_paths pack) = (blobs, t') ->
  ord = pre ++ k :: post ->
  nth_error (p_nodes pack) (k - length (p_leaves pack)) = Some n -> (length (p_leaves pack) <= k)%nat ->
  let st0 := mk_ss (write_table sym w1 t') (repeat None (nworkers pack)) (repeat None (nworkers pack)) [] in
  let st_before := fold_left (work_step sym_eqb SContent SList pack blobs hists) pre st0 in
  let st_end := fold_left (work_step sym_eqb SContent SList pack blobs hists) ord st0 in
  (exists r tr, nth k (ss_res st_end) None = Some (r, tr) /\ tr <> TCanceled) ->
  forall s, In s (r_sources (n_rule n)) ->
    content_at (ss_world st_before) s = content_at (ss_world st_end) s
    /\ content_at (ss_world st_before) s <> None
    /\ content_at (ss_world st_before) s = content_at (scratch_world w pack) s.
Proof. exact sources_final_when_worker_starts_sym. Qed.

Theorem C03_sources_stay_final : forall (w : world sym) rp goal w1 tbl pack hists blobs t' ord pre k mid rest n,
  disk_inv sym_eqb SContent w -> hist_sound_sym w -> init_dir sym w = Ok (w1, tbl) -> get_nodes sym w1 rp goal = Ok pack ->
  Forall det_node (p_nodes pack) -> valid_order pack ord ->
  read_histories sym sym_eqb SRule w1 (p_nodes pack) = Some hists ->
  take_blobs sym SContent tbl (worker_paths pack) = (blobs, t') ->
  ord = pre ++ k :: mid ++ rest ->
  nth_error (p_nodes pack) (k - length (p_leaves pack)) = Some n -> (length (p_leaves pack) <= k)%nat ->
  let st0 := mk_ss (write_table sym w1 t') (repeat None (nworkers pack)) (repeat None (nworkers pack)) [] in
  let st_before := fold_left (work_step sym_eqb SContent SList pack blobs hists) pre st0 in
  let st_mid := fold_left (work_step sym_eqb SContent SList pack blobs hists) (pre ++ k :: mid) st0 in
  let st_end := fold_left (work_step sym_eqb SContent SList pack blobs hists) ord st0 in
  (exists r tr, nth k (ss_res st_end) None = Some (r, tr) /\ tr <> TCanceled) ->
  forall s, In s (r_sources (n_rule n)) ->
    content_at (ss_world st_mid) s = content_at (ss_world st_before) s.
Proof. exact sources_stay_final_sym. Qed.

Check C03_work_order.
Check C03_sources_final_when_worker_starts.

(* ---- at the granularity of the cache operations (round 5; Model/Fine.v, Proofs/C03Fine.v) ----
   A rule thread runs its command inside its last step (phase WFinish). In ANY state of ANY interleaving in which a thread is
   about to take that step: every worker it waits for has ended and sent its tickets; every declared source exists and holds
   the from-scratch content — now and in every continuation of the run, whoever moves next, whether or not the build succeeds
   elsewhere; the step appends exactly the rule's script to the executed commands. Non-vacuity: C03Fine.c03_fine_ex_*. *)
From Ruler Require Import Sched Fine FineBasic FineRule FineInv FineFacts C03Fine.
Local Open Scope nat_scope.

Theorem C03_producers_done_when_a_command_is_due : forall (w : world sym) rp goal w1 tbl pack hists blobs t' pre k ro,
  disk_inv sym_eqb SContent w -> hist_sound_sym w -> init_dir sym w = Ok (w1, tbl) -> get_nodes sym w1 rp goal = Ok pack ->
  Forall det_node (p_nodes pack) ->
  read_histories sym sym_eqb SRule w1 (p_nodes pack) = Some hists ->
  take_blobs sym SContent tbl (worker_paths pack) = (blobs, t') ->
  let st := frun sym_eqb SContent SList pack blobs hists pre (fn_init sym (write_table sym w1 t') pack) in
  phase_of sym st k = WFinish ro ->
  forall d, In d (deps pack k) ->
    phase_of sym st d = WDone /\ exists ts, nth d (fn_sent st) None = Some (Some ts).
Proof. exact c03_fine_producers_done_sym. Qed.
Print Assumptions C03_producers_done_when_a_command_is_due.

Theorem C03_sources_final_in_every_interleaving : forall (w : world sym) rp goal w1 tbl pack hists blobs t' pre k ro n,
  disk_inv sym_eqb SContent w -> hist_sound_sym w -> init_dir sym w = Ok (w1, tbl) -> get_nodes sym w1 rp goal = Ok pack ->
  Forall det_node (p_nodes pack) ->
  read_histories sym sym_eqb SRule w1 (p_nodes pack) = Some hists ->
  take_blobs sym SContent tbl (worker_paths pack) = (blobs, t') ->
  nth_error (p_nodes pack) (k - length (p_leaves pack)) = Some n -> length (p_leaves pack) <= k ->
  let st0 := fn_init sym (write_table sym w1 t') pack in
  phase_of sym (frun sym_eqb SContent SList pack blobs hists pre st0) k = WFinish ro ->
  forall mid s, In s (r_sources (n_rule n)) ->
    content_at (fn_world (frun sym_eqb SContent SList pack blobs hists (pre ++ mid) st0)) s <> None /\
    content_at (fn_world (frun sym_eqb SContent SList pack blobs hists (pre ++ mid) st0)) s = content_at (scratch_world w pack) s.
Proof. exact c03_fine_sources_final_strong_sym. Qed.
Print Assumptions C03_sources_final_in_every_interleaving.

Theorem C03_the_step_in_which_a_command_runs : forall (w : world sym) rp goal w1 tbl pack hists blobs t' pre k st',
  disk_inv sym_eqb SContent w -> hist_sound_sym w -> init_dir sym w = Ok (w1, tbl) -> get_nodes sym w1 rp goal = Ok pack ->
  Forall det_node (p_nodes pack) ->
  read_histories sym sym_eqb SRule w1 (p_nodes pack) = Some hists ->
  take_blobs sym SContent tbl (worker_paths pack) = (blobs, t') ->
  let st0 := fn_init sym (write_table sym w1 t') pack in
  let st_before := frun sym_eqb SContent SList pack blobs hists pre st0 in
  fstep sym_eqb SContent SList pack blobs hists st_before k = Some st' ->
  fn_commands st' = fn_commands st_before \/
  exists n ro,
    length (p_leaves pack) <= k /\ nth_error (p_nodes pack) (k - length (p_leaves pack)) = Some n /\
    phase_of sym st_before k = WFinish ro /\
    fn_commands st' = fn_commands st_before ++ script_lines (n_command n) /\
    (forall d, In d (deps pack k) ->
       phase_of sym st_before d = WDone /\ exists ts, nth d (fn_sent st_before) None = Some (Some ts)) /\
    (forall s, In s (r_sources (n_rule n)) ->
       content_at (fn_world st_before) s <> None /\
       content_at (fn_world st_before) s = content_at (scratch_world w pack) s /\
       content_at (fn_world st') s = content_at (fn_world st_before) s /\
       forall post', content_at (fn_world (frun sym_eqb SContent SList pack blobs hists (pre ++ k :: post') st0)) s =
                     content_at (fn_world st_before) s).
Proof. exact c03_fine_command_reads_only_final_sources_sym. Qed.
Print Assumptions C03_the_step_in_which_a_command_runs.
