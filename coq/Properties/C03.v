(* C03 — commands run only after everything they depend on is final, on every schedule.
   Only the property theorems; proofs in Proofs/ProtocolFacts.v. Protocol level: `EWork t` is worker t's
   whole work step (for a rule: resolve its targets and, if needed, run its command; for a leaf: hash the
   file). The theorems quantify over every event sequence the protocol admits, i.e. every interleaving.
   PARTIAL: the work step is atomic here; that nobody else writes a rule's sources or targets while it
   runs is C09's frame theorem for the modelled build, and the content of "final" (= the from-scratch
   value) is C01; preemption inside a command is outside the model. On the implementation a monitor
   compares every declared source with its independently computed final value at the moment
   execute_command is entered, under explored schedules. *)
From Coq Require Import List Arith.
From Ruler Require Import Bytes RuleSyntax TopoSort Protocol ProtocolFacts ProtocolPlan.
Local Close Scope N_scope.
Local Open Scope nat_scope.

(* when a worker starts its work, every producer of one of its sources has completed its own work *)
Theorem C03_work_order : forall g evs s i t e, wf_graph g ->
  run_events g (init_pstate g) evs = Some s ->
  nth_error evs i = Some (EWork t) -> In e (in_edges g t) ->
  exists j, j < i /\ nth_error evs j = Some (EWork (fst (nth e (pg_edges g) (0, 0)))).
Proof. exact c03_work_order. Qed.

(* and no worker ever works a second time: what a producer left is final for the rest of the build *)
Theorem C03_work_once : forall g evs s t, wf_graph g ->
  run_events g (init_pstate g) evs = Some s -> count_occ event_eq_dec evs (EWork t) <= 1.
Proof. exact c03_work_once. Qed.

(* the ticket a consumer hashes is the one its producer sent after working: a receive on an edge only
   happens after the send on that edge, which only happens after the sender's work *)
Theorem C03_recv_after_send : forall g s e, wf_graph g -> reachable g s ->
  nth e (ps_recvd s) false = true -> nth e (ps_sent s) false = true.
Proof. exact P1_recvd_sent. Qed.

Check C03_work_order.
