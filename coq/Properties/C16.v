(* C16 — saved state round-trips exactly and damaged state is rejected, not misread.
   Only the property theorems; proofs in Proofs/BincodeFacts.v. *)
From Ruler Require Import Tactics Bytes Bincode BytesFacts BincodeFacts.
Local Open Scope N_scope.

(* ---- rule histories ---- *)

(* whatever list of entries is written (in any order: the HashMap's iteration order is arbitrary),
   followed by any trailing bytes, is read back as exactly that list *)
Theorem C16_history_roundtrip :
  forall (l : list history_entry) (rest : bytes),
    wf_history l -> de_history_raw (ser_history l ++ rest) = Some (l, rest).
Proof. exact (codec_rt _ _ _ history_codec). Qed.

Corollary C16_history_read_back :
  forall l, wf_history l -> de_history (ser_history l) = Some l.
Proof.
  intros l H. unfold de_history. rewrite <- (app_nil_r (ser_history l)).
  rewrite (codec_rt _ _ _ history_codec l [] H). reflexivity.
Qed.

(* every strict prefix of a valid history file is rejected *)
Theorem C16_history_prefix_rejected :
  forall l p q, wf_history l -> ser_history l = p ++ q -> q <> [] -> de_history p = None.
Proof.
  intros l p q H E Hq. unfold de_history.
  rewrite (codec_prefix_rejected _ _ _ history_codec l p q H E Hq). reflexivity.
Qed.

(* whatever is accepted is exactly the serialisation of the well-formed value returned (plus the
   ignored tail): a damaged file decodes to an error or to well-formed *different* data, never to
   something that is not the image of a value, and never to the original unless the bytes consumed
   are the original bytes *)
Theorem C16_history_decode_is_left_inverse :
  forall b l rest, all_bytes b -> de_history_raw b = Some (l, rest) ->
    b = ser_history l ++ rest /\ wf_history l.
Proof. exact (codec_li _ _ _ history_codec). Qed.

Theorem C16_history_ser_injective :
  forall l1 l2, wf_history l1 -> wf_history l2 -> ser_history l1 = ser_history l2 -> l1 = l2.
Proof. exact (codec_ser_injective _ _ _ history_codec). Qed.

(* ---- file-state tables ---- *)

Theorem C16_table_roundtrip :
  forall (l : list table_entry) (rest : bytes),
    wf_table l -> de_table_raw (ser_table l ++ rest) = Some (l, rest).
Proof. exact (codec_rt _ _ _ table_codec). Qed.

Corollary C16_table_read_back :
  forall l, wf_table l -> de_table (ser_table l) = Some l.
Proof.
  intros l H. unfold de_table. rewrite <- (app_nil_r (ser_table l)).
  rewrite (codec_rt _ _ _ table_codec l [] H). reflexivity.
Qed.

Theorem C16_table_prefix_rejected :
  forall l p q, wf_table l -> ser_table l = p ++ q -> q <> [] -> de_table p = None.
Proof.
  intros l p q H E Hq. unfold de_table.
  rewrite (codec_prefix_rejected _ _ _ table_codec l p q H E Hq). reflexivity.
Qed.

Theorem C16_table_decode_is_left_inverse :
  forall b l rest, all_bytes b -> de_table_raw b = Some (l, rest) ->
    b = ser_table l ++ rest /\ wf_table l.
Proof. exact (codec_li _ _ _ table_codec). Qed.

(* non-vacuity: a two-entry history with a two-target entry is well-formed *)
Example C16_wf_history_example :
  wf_history [ (repeat 7 32, [mk_file_state (repeat 1 32) 0 false; mk_file_state (repeat 2 32) 5 true]);
               (repeat 9 32, []) ].
Proof.
  unfold wf_history, wf_seq, wf_history_entry, wf_fsvec, wf_seq, wf_file_state, wf_ticket, all_bytes, is_byte, two64.
  cbn [fst snd fs_ticket fs_time length repeat].
  repeat (split || constructor || lia).
Qed.

Check C16_history_roundtrip : forall l rest, wf_history l -> de_history_raw (ser_history l ++ rest) = Some (l, rest).
Check C16_history_prefix_rejected : forall l p q, wf_history l -> ser_history l = p ++ q -> q <> [] -> de_history p = None.
