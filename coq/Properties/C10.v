(* C10 — clean removes targets into the cache and the next build brings them back.
   Only the property theorems; proofs in Proofs/BuildFacts.v (+ C20 for what "Recovered" means, C07 for what
   is in the cache, C02 for "no command unless a cache miss").
   PARTIAL. Proved: after a successful clean no target of the plan exists; each cleaned target's file is in
   the cache under its hash (or, when two cleaned targets have the same hash, a file with that same hash
   is); a build restores a target whose remembered content is in the cache by renaming the cache file into
   place (so content and permission bits come back together) and runs the command only on a cache miss.
   The end-to-end statement is C10_clean_then_build_restores below (added in round 2; proofs in
   Proofs/C10{Facts,Summary,Clean,Restore,Main,Examples}.v): it is also checked on every generated scenario on the
   in-memory file system AND with the real binary and shell commands on the real file system. *)
From Ruler Require Import Bytes AList RuleSyntax TopoSort World Cmdlang Work Build Ops Inv BuildSpec Ideal BuildFacts C02Extra InvFacts
     C01Facts C10Main C10Examples.

Theorem C10_clean_removes_every_target :
  forall (T : Type) (teqb : T -> T -> bool) (hc : bytes -> T) (w : world T) rp goal w1 t pack,
    init_dir T w = Ok (w1, t) -> get_nodes T w1 rp goal = Ok pack ->
    o_verdict (clean teqb hc w rp goal) = VOk ->
    forall p, In p (plan_targets pack) -> fget (o_world (clean teqb hc w rp goal)) p = None.
Proof. exact clean_removes_all_targets. Qed.

Theorem C10_cleaned_content_is_in_cache :
  forall (T : Type) (teqb : T -> T -> bool) (hc : bytes -> T),
    (forall a b : T, teqb a b = true <-> a = b) ->
    forall (b : blob T) (w w' : world T),
      clean_targets teqb hc w b = Ok w' -> NoDup (map fst b) ->
      forall p st f, In (p, st) b -> fget w p = Some f ->
      exists c t f',
        cache_of w' = Some c /\ get_file_ticket teqb hc w p st = Some t /\ alookup teqb c t = Some f' /\
        (f' = f \/ exists q stq, In (q, stq) b /\ q <> p /\ fget w q = Some f' /\
                                 get_file_ticket teqb hc w q stq = Some t).
Proof. exact clean_targets_caches. Qed.

(* what restoring does: the cache file itself (content, modification time, executable bit) is moved to
   the path *)
Theorem C10_restore_moves_the_file :
  forall (T : Type) (teqb : T -> T -> bool) (w : world T) t p w',
    (forall a b : T, teqb a b = true <-> a = b) ->
    restore teqb w t p = RDone w' ->
    exists c f, cache_of w = Some c /\ alookup teqb c t = Some f /\ fget w' p = Some f.
Proof. exact restore_moves_file. Qed.

(* ------------------------------------------------------------------------------------------------------
   THE PROPERTY END TO END. From any state satisfying the disk invariant (every state reached by a history,
   C07/C01): if a build (whole or goal-restricted) of a plan with deterministic, confined commands succeeds —
   so its targets are up to date — and the contents of the plan's targets are pairwise different, then a clean
   of the same scope succeeds, leaves none of the targets in the workspace and each one's very file in the
   cache under the hash of its bytes; the following build succeeds, RUNS NO COMMAND, puts back at every target
   the very file that was there (bytes, modification time and executable bit), changes no other file, and reports
   every target as Recovered. (`~ In rp ...`: the rules file is not itself a target. Sound histories are not assumed.) *)
Local Notation build_sym := (build sym_eqb SContent SList SRule).
Local Notation clean_sym := (clean sym_eqb SContent).

Theorem C10_clean_then_build_restores : forall (w : world sym) rp goal w1 tbl pack,
  disk_inv sym_eqb SContent w -> init_dir sym w = Ok (w1, tbl) -> get_nodes sym w1 rp goal = Ok pack ->
  Forall det_node (p_nodes pack) -> ~ In rp (plan_targets pack) ->
  o_verdict (build_sym w rp goal) = VOk ->
  let wa := tick (o_world (build_sym w rp goal)) in
  NoDup (map (fun t => content_at wa t) (plan_targets pack)) ->
  let oc := clean_sym wa rp goal in
  let wb := tick (o_world oc) in
  let o3 := build_sym wb rp goal in
  o_verdict oc = VOk /\
  (forall t, In t (plan_targets pack) -> fget (o_world oc) t = None) /\
  (forall t f, In t (plan_targets pack) -> fget wa t = Some f ->
       exists c, cache_of (o_world oc) = Some c /\ alookup sym_eqb c (SContent (f_content f)) = Some f) /\
  o_verdict o3 = VOk /\ o_commands o3 = [] /\
  (forall t, In t (plan_targets pack) -> fget (o_world o3) t = fget wa t) /\
  (forall p, ~ In p (plan_targets pack) -> fget (o_world o3) p = fget wa p) /\
  Forall (fun s => fst s = BRecovered) (o_status o3).
Proof. exact clean_then_build_restores_sym. Qed.

(* "as long as their contents are pairwise different" is needed: two rules copying one source to two targets
   share one cache entry, and the second of them re-runs its command (witness by vm_compute) *)
Theorem C10_without_distinct_contents_refuted :
  ~ (forall (w : world sym) rp goal w1 tbl pack,
       disk_inv sym_eqb SContent w -> init_dir sym w = Ok (w1, tbl) -> get_nodes sym w1 rp goal = Ok pack ->
       Forall det_node (p_nodes pack) -> ~ In rp (plan_targets pack) ->
       o_verdict (build_sym w rp goal) = VOk ->
       o_commands (build_sym (tick (o_world (clean_sym (tick (o_world (build_sym w rp goal))) rp goal))) rp goal) = []).
Proof. exact clean_then_build_restores_without_distinct_refuted. Qed.

Check C10_clean_removes_every_target.
Check C10_clean_then_build_restores.

(* ---- clean under every interleaving of its rule threads (round 4; Model/CleanFine.v, Proofs/CleanFine*.v) ----
   The first sentence of C10 for EVERY complete interleaving of the clean's threads: the clean succeeds, no target of the
   plan exists afterwards, and the content of each one that existed is in the cache under its hash — under the fine clock
   and under any clock. *)
From Coq Require Import Relations.
From Ruler Require Import Bytes AList RuleSyntax TopoSort World Work Build Ops Inv InvFacts BuildSpec C01Facts C02Sym CoarseInv C18CoarseFacts Sched Fine FineCor CleanFine CleanFineBasic CleanFineInv CleanFineFacts.
Local Open Scope nat_scope.

Theorem C10_clean_under_every_interleaving : forall (w : world sym) rp goal w1 tbl pack ch,
  disk_inv sym_eqb SContent w -> init_dir sym w = Ok (w1, tbl) -> get_nodes sym w1 rp goal = Ok pack ->
  clean_complete_sym ch w rp goal ->
  let o := clean_fine_sym ch w rp goal in
  o_verdict o = VOk /\
  (forall p, In p (plan_targets pack) -> fget (o_world o) p = None) /\
  (forall p f, In p (plan_targets pack) -> fget w p = Some f ->
     exists c g, cache_of (o_world o) = Some c /\ alookup sym_eqb c (SContent (f_content f)) = Some g /\
                 f_content g = f_content f).
Proof. exact clean_fine_complete_run_cleans_sym. Qed.
Print Assumptions C10_clean_under_every_interleaving.

Theorem C10_clean_under_every_interleaving_any_clock : forall (w : world sym) rp goal w1 tbl pack ch,
  coarse_inv sym_eqb SContent w -> init_dir sym w = Ok (w1, tbl) -> get_nodes sym w1 rp goal = Ok pack ->
  clean_complete_sym ch w rp goal ->
  let o := clean_fine_sym ch w rp goal in
  o_verdict o = VOk /\
  (forall p, In p (plan_targets pack) -> fget (o_world o) p = None) /\
  (forall p f, In p (plan_targets pack) -> fget w p = Some f ->
     exists c g, cache_of (o_world o) = Some c /\ alookup sym_eqb c (SContent (f_content f)) = Some g /\
                 f_content g = f_content f).
Proof. exact clean_fine_complete_run_cleans_coarse_sym. Qed.
Print Assumptions C10_clean_under_every_interleaving_any_clock.

(* ---- the WHOLE property under every interleaving (round 5; Proofs/C10Fine{Build,Clean,}.v) ----
   Under the hypotheses of C10_clean_then_build_restores: after a clean under ANY complete interleaving of its threads, the
   build under ANY complete interleaving of the rule threads at their cache operations succeeds, runs NO command, puts the
   very file (content, time, executable bit) back at every target, changes nothing else and reports Recovered everywhere.
   With pairwise different contents no cache entry is wanted by two targets, so there is nothing to race for. *)
From Ruler Require Import Ideal FineFacts C10FineBuild C10FineClean C10Fine.

Theorem C10_clean_then_build_under_every_interleaving : forall (w : world sym) rp goal w1 tbl pack chc ch,
  disk_inv sym_eqb SContent w -> init_dir sym w = Ok (w1, tbl) -> get_nodes sym w1 rp goal = Ok pack ->
  Forall det_node (p_nodes pack) -> ~ In rp (plan_targets pack) ->
  o_verdict (build_sym w rp goal) = VOk ->
  let wa := tick (o_world (build_sym w rp goal)) in
  NoDup (map (fun t => content_at wa t) (plan_targets pack)) ->
  clean_complete_sym chc wa rp goal ->
  let wb' := tick (o_world (clean_fine_sym chc wa rp goal)) in
  complete_run_sym ch wb' rp goal ->
  let o3 := build_fine_sym ch wb' rp goal in
  o_verdict o3 = VOk /\ o_commands o3 = [] /\
  (forall t, In t (plan_targets pack) -> fget (o_world o3) t = fget wa t) /\
  (forall p, ~ In p (plan_targets pack) -> fget (o_world o3) p = fget wa p) /\
  Forall (fun s => fst s = BRecovered) (o_status o3).
Proof. exact c10_fine_clean_then_fine_build_strong_sym. Qed.
Print Assumptions C10_clean_then_build_under_every_interleaving.

Theorem C10_build_after_clean_under_every_interleaving : forall (w : world sym) rp goal w1 tbl pack ch,
  disk_inv sym_eqb SContent w -> init_dir sym w = Ok (w1, tbl) -> get_nodes sym w1 rp goal = Ok pack ->
  Forall det_node (p_nodes pack) -> ~ In rp (plan_targets pack) ->
  o_verdict (build_sym w rp goal) = VOk ->
  let wa := tick (o_world (build_sym w rp goal)) in
  NoDup (map (fun t => content_at wa t) (plan_targets pack)) ->
  let wb := tick (o_world (clean_sym wa rp goal)) in
  complete_run_sym ch wb rp goal ->
  let o3 := build_fine_sym ch wb rp goal in
  o_verdict o3 = VOk /\ o_commands o3 = [] /\
  (forall t, In t (plan_targets pack) -> fget (o_world o3) t = fget wa t) /\
  (forall p, ~ In p (plan_targets pack) -> fget (o_world o3) p = fget wa p) /\
  Forall (fun s => fst s = BRecovered) (o_status o3).
Proof. exact c10_fine_build_runs_nothing_strong_sym. Qed.
Print Assumptions C10_build_after_clean_under_every_interleaving.
