(* C10 — clean removes targets into the cache and the next build brings them back.
   Only the property theorems; proofs in Proofs/BuildFacts.v (+ C20 for what "Recovered" means, C07 for what
   is in the cache, C02 for "no command unless a cache miss").
   PARTIAL. Proved: after a successful clean no target of the plan exists; each cleaned target's file is in
   the cache under its hash (or, when two cleaned targets have the same hash, a file with that same hash
   is); a build restores a target whose remembered content is in the cache by renaming the cache file into
   place (so content and permission bits come back together) and runs the command only on a cache miss.
   NOT proved as one statement: "if the targets were up to date before the clean then the following build
   succeeds without running any command"; it is checked on every generated scenario on the in-memory file
   system AND with the real binary and shell commands on the real file system. *)
From Ruler Require Import Bytes AList RuleSyntax TopoSort World Cmdlang Work Build Ops BuildSpec BuildFacts C02Extra.

Theorem C10_clean_removes_every_target :
  forall (T : Type) (teqb : T -> T -> bool) (hc : bytes -> T) (w : world T) rp goal w1 t pack,
    init_dir T w = Ok (w1, t) -> get_nodes T w1 rp goal = Ok pack ->
    o_verdict (clean teqb hc w rp goal) = VOk ->
    forall p, In p (plan_targets pack) -> fget (o_world (clean teqb hc w rp goal)) p = None.
Proof. exact clean_removes_all_targets. Qed.

Theorem C10_cleaned_content_is_in_cache :
  forall (T : Type) (teqb : T -> T -> bool) (hc : bytes -> T),
    (forall a b : T, teqb a b = true <-> a = b) ->
    forall (b : blob T) (w w' : world T),
      clean_targets teqb hc w b = Ok w' -> NoDup (map fst b) ->
      forall p st f, In (p, st) b -> fget w p = Some f ->
      exists c t f',
        cache_of w' = Some c /\ get_file_ticket teqb hc w p st = Some t /\ alookup teqb c t = Some f' /\
        (f' = f \/ exists q stq, In (q, stq) b /\ q <> p /\ fget w q = Some f' /\
                                 get_file_ticket teqb hc w q stq = Some t).
Proof. exact clean_targets_caches. Qed.

(* what restoring does: the cache file itself (content, modification time, executable bit) is moved to
   the path *)
Theorem C10_restore_moves_the_file :
  forall (T : Type) (teqb : T -> T -> bool) (w : world T) t p w',
    (forall a b : T, teqb a b = true <-> a = b) ->
    restore teqb w t p = RDone w' ->
    exists c f, cache_of w = Some c /\ alookup teqb c t = Some f /\ fget w' p = Some f.
Proof. exact restore_moves_file. Qed.

Check C10_clean_removes_every_target.
