(* C20 — status lines tell the truth about what happened to each target.
   Only the property theorems; proofs in Proofs/BuildFacts.v. Reading (DESIGN.md 7.5): exactly one line per
   target; it is "Built" iff the rule's command ran in this build; otherwise "Recovered" iff the file was
   moved in from the cache and "Up-to-date" iff it was left untouched. The theorems are about the modelled
   build (the lines main prints after joining, in join order, which does not depend on the schedule); they
   are tied to build.rs by the status column of every history and schedule case, and a monitor checks each
   banner on the implementation against the rename / command log of the same build. *)
From Ruler Require Import Bytes AList RuleSyntax TopoSort World Cmdlang Work Build Ops BuildSpec BuildFacts.

(* one rule that finished: one line per target, in target order; all "Built" iff the command ran (the
   executed script is non-empty); otherwise no target needed a rebuild and the k-th line is "Recovered" iff
   the k-th target was restored from the cache (its path was empty or its occupant was first moved into the
   cache) and "Up-to-date" iff it was left exactly as it was, its current hash being the remembered one *)
Theorem C20_status_truthful :
  forall (T : Type) (teqb : T -> T -> bool) (hc : bytes -> T),
    (forall a b : T, teqb a b = true <-> a = b) ->
    forall (w : world T) b h st cmd wr w' s,
      handle_rule teqb hc w b h st cmd = (Ok wr, w', s) ->
      map snd (status_lines T wr) = map fst b /\
      ((wr_option wr = CommandExecuted /\ s = script_lines cmd /\ s <> [] /\
        status_lines T wr = map (fun e => (BBuilt, fst e)) b)
       \/
       (s = [] /\
        exists ress,
          wr_option wr = Resolutions ress /\ length ress = length b /\ ~ In NeedsRebuild ress /\
          forall k p a, nth_error b k = Some (p, a) ->
            exists res rem r wk wk',
              nth_error ress k = Some res /\
              nth_error (status_lines T wr) k = Some (banner_of res, p) /\
              alookup teqb h st = Some rem /\ nth_error rem k = Some r /\
              resolve_remembered teqb hc w (firstn k b) rem = Ok (firstn k ress, wk) /\
              resolve_single teqb hc wk (fs_t r) p a = Ok (res, wk') /\
              (res = AlreadyCorrect -> wk' = wk /\ get_file_ticket teqb hc wk p a = Some (fs_t r)) /\
              (res = Recovered ->
                 exists w0, ((w0 = wk /\ fget wk p = None) \/
                             (exists cur, get_file_ticket teqb hc wk p a = Some cur /\ cur <> fs_t r /\
                                          back_up teqb wk cur p = Some w0)) /\
                            restore teqb w0 (fs_t r) p = RDone wk'))).
Proof. exact c20_status_truthful. Qed.

Theorem C20_banner_meaning : forall r,
  (banner_of r = BRecovered <-> r = Recovered) /\ (banner_of r = BUpToDate <-> r = AlreadyCorrect).
Proof. intro r. split; [apply banner_of_recovered | apply banner_of_uptodate]. Qed.

(* a whole build: the printed lines are, node by node in plan order, exactly one line per target of every
   rule whose thread succeeded, and nothing for failed or cancelled rules and for leaves *)
Theorem C20_build_status_lines :
  forall (T : Type) (teqb : T -> T -> bool) (hc : bytes -> T) (hl : list T -> T) (hr : rule -> T),
    (forall a b : T, teqb a b = true <-> a = b) ->
    forall (w : world T) rp goal w1 t pack st2,
      init_dir T w = Ok (w1, t) -> get_nodes T w1 rp goal = Ok pack ->
      run_nodes T teqb hc hl hr (st_leaves T teqb hc w1 t pack) (p_nodes pack) = Some st2 ->
      exists trs,
        Forall2 (node_result_ok T teqb hc hl) (p_nodes pack) trs /\
        o_status (build teqb hc hl hr w rp goal)
        = flat_map (fun nt : node * thread_result T => tr_status T (snd nt)) (combine (p_nodes pack) trs) /\
        map snd (o_status (build teqb hc hl hr w rp goal))
        = flat_map (fun nt : node * thread_result T =>
                      match snd nt with TOk _ => n_targets (fst nt) | _ => [] end)
                   (combine (p_nodes pack) trs).
Proof. exact build_status_truthful. Qed.

Check C20_status_truthful.
