(* C20 — status lines tell the truth about what happened to each target.
   Only the property theorems; proofs in Proofs/BuildFacts.v. Reading (DESIGN.md 7.5): exactly one line per
   target; it is "Built" iff the rule's command ran in this build; otherwise "Recovered" iff the file was
   moved in from the cache and "Up-to-date" iff it was left untouched. The theorems are about the modelled
   build (the lines main prints after joining, in join order, which does not depend on the schedule); they
   are tied to build.rs by the status column of every history and schedule case, and a monitor checks each
   banner on the implementation against the rename / command log of the same build. *)
From Ruler Require Import Bytes AList RuleSyntax TopoSort World Cmdlang Work Build Ops BuildSpec BuildFacts.

(* one rule that finished: one line per target, in target order; all "Built" iff the command ran (the
   executed script is non-empty); otherwise no target needed a rebuild and the k-th line is "Recovered" iff
   the k-th target was restored from the cache (its path was empty or its occupant was first moved into the
   cache) and "Up-to-date" iff it was left exactly as it was, its current hash being the remembered one *)
Theorem C20_status_truthful :
  forall (T : Type) (teqb : T -> T -> bool) (hc : bytes -> T),
    (forall a b : T, teqb a b = true <-> a = b) ->
    forall (w : world T) b h st cmd wr w' s,
      handle_rule teqb hc w b h st cmd = (Ok wr, w', s) ->
      map snd (status_lines T wr) = map fst b /\
      ((wr_option wr = CommandExecuted /\ s = script_lines cmd /\ s <> [] /\
        status_lines T wr = map (fun e => (BBuilt, fst e)) b)
       \/
       (s = [] /\
        exists ress,
          wr_option wr = Resolutions ress /\ length ress = length b /\ ~ In NeedsRebuild ress /\
          forall k p a, nth_error b k = Some (p, a) ->
            exists res rem r wk wk',
              nth_error ress k = Some res /\
              nth_error (status_lines T wr) k = Some (banner_of res, p) /\
              alookup teqb h st = Some rem /\ nth_error rem k = Some r /\
              resolve_remembered teqb hc w (firstn k b) rem = Ok (firstn k ress, wk) /\
              resolve_single teqb hc wk (fs_t r) p a = Ok (res, wk') /\
              (res = AlreadyCorrect -> wk' = wk /\ get_file_ticket teqb hc wk p a = Some (fs_t r)) /\
              (res = Recovered ->
                 exists w0, ((w0 = wk /\ fget wk p = None) \/
                             (exists cur, get_file_ticket teqb hc wk p a = Some cur /\ cur <> fs_t r /\
                                          back_up teqb wk cur p = Some w0)) /\
                            restore teqb w0 (fs_t r) p = RDone wk'))).
Proof. exact c20_status_truthful. Qed.

Theorem C20_banner_meaning : forall r,
  (banner_of r = BRecovered <-> r = Recovered) /\ (banner_of r = BUpToDate <-> r = AlreadyCorrect).
Proof. intro r. split; [apply banner_of_recovered | apply banner_of_uptodate]. Qed.

(* a whole build: the printed lines are, node by node in plan order, exactly one line per target of every
   rule whose thread succeeded, and nothing for failed or cancelled rules and for leaves *)
Theorem C20_build_status_lines :
  forall (T : Type) (teqb : T -> T -> bool) (hc : bytes -> T) (hl : list T -> T) (hr : rule -> T),
    (forall a b : T, teqb a b = true <-> a = b) ->
    forall (w : world T) rp goal w1 t pack st2,
      init_dir T w = Ok (w1, t) -> get_nodes T w1 rp goal = Ok pack ->
      run_nodes T teqb hc hl hr (st_leaves T teqb hc w1 t pack) (p_nodes pack) = Some st2 ->
      exists trs,
        Forall2 (node_result_ok T teqb hc hl) (p_nodes pack) trs /\
        o_status (build teqb hc hl hr w rp goal)
        = flat_map (fun nt : node * thread_result T => tr_status T (snd nt)) (combine (p_nodes pack) trs) /\
        map snd (o_status (build teqb hc hl hr w rp goal))
        = flat_map (fun nt : node * thread_result T =>
                      match snd nt with TOk _ => n_targets (fst nt) | _ => [] end)
                   (combine (p_nodes pack) trs).
Proof. exact build_status_truthful. Qed.

Check C20_status_truthful.


(* ---- the status lines of a CONCURRENT build (Model/Fine.v): what a line says is tied to the steps the
   rule's thread actually made in the run `ch`: "built" iff its command's script was appended to the executed
   commands by its last step, "recovered" for target i iff a cache -> target rename step succeeded for i,
   "up to date" iff the look at target i found the remembered hash. *)
From Ruler Require Import Inv Ideal BuildSpec InvFacts C01Hist C01Facts C11Facts C02Sym Sched Fine FineFacts FineCorStep FineCor FineStatus FineCorFinal FineCorExamples.
Local Open Scope nat_scope.

Theorem C20_status_truthful_in_every_interleaving : forall (w1 : world sym) (tbl : table sym) pack hists blobs t' ch k r wr,
  take_blobs sym SContent tbl (worker_paths pack) = (blobs, t') ->
  let st0 := fn_start_sym w1 t' pack in
  length (p_leaves pack) <= k ->
  nth k (fn_res (frun_sym pack blobs hists ch st0)) None = Some (r, TOk wr) ->
  exists n, nth_error (p_nodes pack) (k - length (p_leaves pack)) = Some n /\ r = Some (n_rule n) /\
    map snd (status_lines sym wr) = n_targets n /\
    ((wr_option wr = CommandExecuted /\
      status_lines sym wr = map (fun t => (BBuilt, t)) (n_targets n) /\
      script_lines (n_command n) <> [] /\
      exists pre post s' ro,
        ch = pre ++ k :: post /\ fstep_sym pack blobs hists (frun_sym pack blobs hists pre st0) k = Some s' /\
        phase_of sym (frun_sym pack blobs hists pre st0) k = WFinish ro /\
        fn_commands s' = fn_commands (frun_sym pack blobs hists pre st0) ++ script_lines (n_command n))
     \/
     (exists ress,
        wr_option wr = Resolutions ress /\ length ress = length (n_targets n) /\ ~ In NeedsRebuild ress /\
        status_lines sym wr = map (fun pr => (banner_of (snd pr), fst pr)) (combine (n_targets n) ress) /\
        (forall pre post s', ch = pre ++ k :: post ->
           fstep_sym pack blobs hists (frun_sym pack blobs hists pre st0) k = Some s' ->
           fn_commands s' = fn_commands (frun_sym pack blobs hists pre st0)) /\
        forall i,
          (nth_error ress i = Some Recovered <->
           exists pre post s' done,
             ch = pre ++ k :: post /\ fstep_sym pack blobs hists (frun_sym pack blobs hists pre st0) k = Some s' /\
             phase_of sym (frun_sym pack blobs hists pre st0) k = WRename done i /\
             phase_of sym s' k = WResolve (done ++ [Recovered]) (S i)) /\
          (nth_error ress i = Some AlreadyCorrect <->
           exists pre post s' done,
             ch = pre ++ k :: post /\ fstep_sym pack blobs hists (frun_sym pack blobs hists pre st0) k = Some s' /\
             phase_of sym (frun_sym pack blobs hists pre st0) k = WResolve done i /\
             phase_of sym s' k = WResolve (done ++ [AlreadyCorrect]) (S i)))).
Proof. exact fine_status_truthful_sym. Qed.
Print Assumptions C20_status_truthful_in_every_interleaving.

Theorem C20_status_shape_in_every_interleaving : forall (w1 : world sym) (tbl : table sym) pack hists blobs t' ch k r wr,
  take_blobs sym SContent tbl (worker_paths pack) = (blobs, t') ->
  let st0 := fn_start_sym w1 t' pack in
  length (p_leaves pack) <= k ->
  nth k (fn_res (frun_sym pack blobs hists ch st0)) None = Some (r, TOk wr) ->
  exists n, nth_error (p_nodes pack) (k - length (p_leaves pack)) = Some n /\
    map snd (status_lines sym wr) = n_targets n /\
    ((exists pre post s',
        ch = pre ++ k :: post /\ fstep_sym pack blobs hists (frun_sym pack blobs hists pre st0) k = Some s' /\
        script_lines (n_command n) <> [] /\
        fn_commands s' = fn_commands (frun_sym pack blobs hists pre st0) ++ script_lines (n_command n))
     <-> wr_option wr = CommandExecuted) /\
    (wr_option wr = CommandExecuted -> Forall (fun l => fst l = BBuilt) (status_lines sym wr)) /\
    (wr_option wr <> CommandExecuted -> Forall (fun l => fst l <> BBuilt) (status_lines sym wr)).
Proof. exact fine_status_shape_sym. Qed.
Print Assumptions C20_status_shape_in_every_interleaving.

Theorem C20_status_lines_of_a_concurrent_build : forall ch (w : world sym) rp goal w1 tbl pack hists blobs t',
  init_dir sym w = Ok (w1, tbl) -> get_nodes sym w1 rp goal = Ok pack ->
  read_histories sym sym_eqb SRule w1 (p_nodes pack) = Some hists ->
  take_blobs sym SContent tbl (worker_paths pack) = (blobs, t') ->
  o_status (build_fine_sym ch w rp goal) =
  flat_map (res_lines sym) (fn_res (frun_sym pack blobs hists ch (fn_start_sym w1 t' pack))).
Proof. exact fine_build_status_lines_sym. Qed.
Print Assumptions C20_status_lines_of_a_concurrent_build.
