(* C19 — the cache server returns exactly the requested content or a clean 404.
   Only the property theorems; proofs in Proofs/ServerFacts.v (+ C15, C07).
   The theorems are about the two handlers applied to the path segments warp hands them (Model/Server.v).
   PARTIAL: warp / hyper / tokio (routing, that the raw segment is passed on, connection handling, "keeps
   running") are not modelled; they are covered by the correspondence on the real binary over loopback
   (every cached hash, every recorded (rule, sources) pair, absent hashes, hostile paths). In the model
   "keeps running" is: respond is a total function that does not change the ruler directory. *)
From Ruler Require Import Bytes Base62 Sha256 AList World Work Inv Concrete Server Base62Facts ServerFacts.

(* a request for a file by hash is answered 200 exactly when the name decodes to a hash the cache holds,
   and then with that entry's content; in every other case 404 *)
Theorem C19_files_200_iff : forall rd s c,
  respond rd [FILES; s] = R200 c <->
  exists t cache f, decode62 s = Ok t /\ rd_cache rd = Some cache /\
                    alookup c_teqb cache t = Some f /\ c = f_content f.
Proof.
  intros rd s c. split; [apply files_200_inv|].
  intros (t & cache & f & Ed & Ec & Ef & ->). exact (files_200_intro rd s t cache f Ed Ec Ef).
Qed.

Theorem C19_files_404_iff : forall rd s,
  respond rd [FILES; s] = R404 <->
  ~ exists t cache f, decode62 s = Ok t /\ rd_cache rd = Some cache /\ alookup c_teqb cache t = Some f.
Proof. exact files_404_iff. Qed.

(* with a content-addressed cache (C07) the bytes served are exactly the bytes whose SHA-256 was requested *)
Theorem C19_files_serves_requested_hash : forall (w : cworld) s c,
  cache_addressed c_teqb c_hc w -> respond (w_rd w) [FILES; s] = R200 c ->
  exists t, decode62 s = Ok t /\ t = sha256 c /\ encode62 (sha256 c) = s.
Proof.
  intros w s c Hca H. destruct (files_200_inv _ _ _ H) as (t & cache & f & Ed & Ec & Ef & ->).
  exists t. split; [exact Ed|]. pose proof (Hca cache t f Ec Ef) as Ht. unfold c_hc in Ht.
  split; [exact Ht|]. rewrite <- Ht. exact (proj1 (decoded_name_shape s t Ed)).
Qed.

(* a request for a rule's remembered outputs: 200 with the recorded target hashes, in target order,
   newline-separated, exactly when both names decode and the entry exists *)
Theorem C19_rules_200 : forall rd r s body,
  respond rd [RULES; r; s] = R200 body ->
  exists rt st hs h outs, decode62 r = Ok rt /\ decode62 s = Ok st /\ rd_hist rd = Some hs /\
    alookup c_teqb hs rt = Some (SF_ok h) /\ alookup c_teqb h st = Some outs /\
    body = join_with [NL] (map (fun o => encode62 (fs_t o)) outs).
Proof. exact rules_200_inv. Qed.

(* confinement: a 200 answer only ever comes from /files/<name> or /rules/<name>/<name> ... *)
Theorem C19_only_two_shapes : forall rd segs body,
  respond rd segs = R200 body ->
  (exists s, segs = [FILES; s]) \/ (exists r s, segs = [RULES; r; s]).
Proof. exact respond_200_shape. Qed.

(* ... where every name that is used to open a file is the 43-character alphanumeric text form of the hash
   it decodes to (so it contains no '/', '.', '%' and names exactly cache/<name> or history/<name>);
   wrong length, foreign characters and too-large values do not decode (C15) and get 404 *)
Theorem C19_served_names_are_text_forms : forall s t,
  decode62 s = Ok t -> encode62 t = s /\ length s = 43%nat /\ Forall is_alnum s.
Proof. exact decoded_name_shape. Qed.

Theorem C19_undecodable_name_is_404 : forall rd s e,
  decode62 s = Err e -> respond rd [FILES; s] = R404.
Proof. intros rd s e H. unfold respond. rewrite BytesFacts.bytes_eqb_refl, H. reflexivity. Qed.

Check C19_files_200_iff.
