(* Model of ticket.rs encode62 / decode62: 43 base-62 digits, little-endian, alphabet 0-9 a-z A-Z. *)
From Ruler Require Export Bytes.

Definition char_of_digit (d : N) : N :=
  if d <? 10 then 48 + d            (* '0'..'9' *)
  else if d <? 36 then 87 + d       (* 'a'..'z' : 97 - 10 *)
  else 29 + d.                      (* 'A'..'Z' : 65 - 36 *)

Definition digit_of_char (c : N) : option N :=
  if (48 <=? c) && (c <=? 57) then Some (c - 48)
  else if (97 <=? c) && (c <=? 122) then Some (c - 87)
  else if (65 <=? c) && (c <=? 90) then Some (c - 29)
  else None.

Fixpoint digits62 (n : nat) (v : N) : list N :=
  match n with
  | O => []
  | S k => (v mod 62) :: digits62 k (v / 62)
  end.

Fixpoint from_digits62 (ds : list N) : N :=
  match ds with
  | [] => 0
  | d :: r => d + 62 * from_digits62 r
  end.

(* encode62: the loop writes digits while n > 0 into a buffer pre-filled with '0';
   for n < 62^43 that is exactly the 43 low digits (and 2^256 < 62^43, see Proofs/Base62Facts). *)
Definition encode62 (b : bytes) : bytes :=
  map char_of_digit (digits62 43 (le_to_N b)).

Inductive dec_err :=
| InvalidLength
| Overflow
| InvalidCharacter (c : N).   (* the first byte of the first non-alphanumeric character *)

(* inl c: first bad character; inr ds: the digit values *)
Fixpoint chars_to_digits (s : bytes) : N + list N :=
  match s with
  | [] => inr []
  | c :: r =>
      match digit_of_char c with
      | None => inl c
      | Some d =>
          match chars_to_digits r with
          | inl bad => inl bad
          | inr ds => inr (d :: ds)
          end
      end
  end.

Definition two256 : N := 2 ^ 256.

Definition decode62 (s : bytes) : result bytes dec_err :=
  if negb (N.of_nat (length s) =? 43) then Err InvalidLength
  else match chars_to_digits s with
       | inl c => Err (InvalidCharacter c)
       | inr ds =>
           let v := from_digits62 ds in
           if v <? two256 then Ok (N_to_le 32 v) else Err Overflow
       end.
