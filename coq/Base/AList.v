(* Finite maps as association lists; the first binding of a key is the live one, ainsert replaces
   in place (or appends), aremove deletes every binding. Proofs talk about `alookup` only. *)
From Coq Require Export List Bool.
Export ListNotations.

Section AList.
  Context {K V : Type}.
  Variable eqb : K -> K -> bool.

  Definition amap := list (K * V).

  Fixpoint alookup (m : amap) (k : K) : option V :=
    match m with
    | [] => None
    | (k', v) :: r => if eqb k k' then Some v else alookup r k
    end.

  Fixpoint ainsert (m : amap) (k : K) (v : V) : amap :=
    match m with
    | [] => [(k, v)]
    | (k', v') :: r => if eqb k k' then (k, v) :: r else (k', v') :: ainsert r k v
    end.

  Fixpoint aremove (m : amap) (k : K) : amap :=
    match m with
    | [] => []
    | (k', v') :: r => if eqb k k' then aremove r k else (k', v') :: aremove r k
    end.

  Definition amem (m : amap) (k : K) : bool :=
    match alookup m k with Some _ => true | None => false end.

  Definition akeys (m : amap) : list K := map fst m.
End AList.

Arguments amap : clear implicits.
