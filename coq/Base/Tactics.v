(* Arithmetic set-up shared by proof files: lia understands boolean comparisons, N, /, mod. *)
From Coq Require Export NArith ZArith Lia ZifyBool ZifyN ZifyNat ZifyComparison.
Ltac Zify.zify_post_hook ::= Z.div_mod_to_equations.
Global Arguments N.add : simpl never.
Global Arguments N.sub : simpl never.
Global Arguments N.mul : simpl never.
Global Arguments N.div : simpl never.
Global Arguments N.modulo : simpl never.
Global Arguments N.pow : simpl never.
Global Arguments N.eqb : simpl never.
Global Arguments N.ltb : simpl never.
Global Arguments N.leb : simpl never.
