(* Executable SHA-256 (FIPS 180-4) over byte lists. Used only for *running* the model against the
   implementation (cache names, history contents, rule identities); no build-level theorem depends
   on any property of this function. Checked against the FIPS test vectors in Proofs/Sha256Tests.v
   and against rust-crypto on every length 0..1100 by the C15 correspondence. *)
From Ruler Require Export Bytes.

Definition mask32 : N := 4294967295.
Definition add32 (a b : N) : N := N.land (a + b) mask32.
Definition rotr (n x : N) : N := N.lor (N.shiftr x n) (N.land (N.shiftl x (32 - n)) mask32).
Definition shr (n x : N) : N := N.shiftr x n.
Definition not32 (x : N) : N := N.lxor x mask32.
Definition ch (x y z : N) : N := N.lxor (N.land x y) (N.land (not32 x) z).
Definition maj (x y z : N) : N := N.lxor (N.land x y) (N.lxor (N.land x z) (N.land y z)).
Definition bsig0 x := N.lxor (rotr 2 x) (N.lxor (rotr 13 x) (rotr 22 x)).
Definition bsig1 x := N.lxor (rotr 6 x) (N.lxor (rotr 11 x) (rotr 25 x)).
Definition ssig0 x := N.lxor (rotr 7 x) (N.lxor (rotr 18 x) (shr 3 x)).
Definition ssig1 x := N.lxor (rotr 17 x) (N.lxor (rotr 19 x) (shr 10 x)).

Definition K256 : list N := [
  0x428a2f98; 0x71374491; 0xb5c0fbcf; 0xe9b5dba5; 0x3956c25b; 0x59f111f1; 0x923f82a4; 0xab1c5ed5;
  0xd807aa98; 0x12835b01; 0x243185be; 0x550c7dc3; 0x72be5d74; 0x80deb1fe; 0x9bdc06a7; 0xc19bf174;
  0xe49b69c1; 0xefbe4786; 0x0fc19dc6; 0x240ca1cc; 0x2de92c6f; 0x4a7484aa; 0x5cb0a9dc; 0x76f988da;
  0x983e5152; 0xa831c66d; 0xb00327c8; 0xbf597fc7; 0xc6e00bf3; 0xd5a79147; 0x06ca6351; 0x14292967;
  0x27b70a85; 0x2e1b2138; 0x4d2c6dfc; 0x53380d13; 0x650a7354; 0x766a0abb; 0x81c2c92e; 0x92722c85;
  0xa2bfe8a1; 0xa81a664b; 0xc24b8b70; 0xc76c51a3; 0xd192e819; 0xd6990624; 0xf40e3585; 0x106aa070;
  0x19a4c116; 0x1e376c08; 0x2748774c; 0x34b0bcb5; 0x391c0cb3; 0x4ed8aa4a; 0x5b9cca4f; 0x682e6ff3;
  0x748f82ee; 0x78a5636f; 0x84c87814; 0x8cc70208; 0x90befffa; 0xa4506ceb; 0xbef9a3f7; 0xc67178f2 ].

Definition H0 : list N := [
  0x6a09e667; 0xbb67ae85; 0x3c6ef372; 0xa54ff53a; 0x510e527f; 0x9b05688c; 0x1f83d9ab; 0x5be0cd19 ].

Record regs := { ra : N; rb : N; rc : N; rd : N; re : N; rf : N; rg : N; rh : N }.

Definition regs_of (h : list N) : regs :=
  {| ra := nth 0 h 0; rb := nth 1 h 0; rc := nth 2 h 0; rd := nth 3 h 0;
     re := nth 4 h 0; rf := nth 5 h 0; rg := nth 6 h 0; rh := nth 7 h 0 |}.

Definition list_of_regs (r : regs) : list N :=
  [ra r; rb r; rc r; rd r; re r; rf r; rg r; rh r].

(* one round; w is the sliding window of the 16 most recent schedule words, oldest first *)
Definition round (st : regs * list N) (k : N) : regs * list N :=
  let (r, w) := st in
  let wt := nth 0 w 0 in
  let t1 := add32 (rh r) (add32 (bsig1 (re r)) (add32 (ch (re r) (rf r) (rg r)) (add32 k wt))) in
  let t2 := add32 (bsig0 (ra r)) (maj (ra r) (rb r) (rc r)) in
  let wnew := add32 (ssig1 (nth 14 w 0)) (add32 (nth 9 w 0) (add32 (ssig0 (nth 1 w 0)) (nth 0 w 0))) in
  ({| ra := add32 t1 t2; rb := ra r; rc := rb r; rd := rc r;
      re := add32 (rd r) t1; rf := re r; rg := rf r; rh := rg r |},
   tl w ++ [wnew]).

Fixpoint be_words (b : bytes) : list N :=
  match b with
  | b0 :: b1 :: b2 :: b3 :: rest =>
      (b0 * 16777216 + b1 * 65536 + b2 * 256 + b3) :: be_words rest
  | _ => []
  end.

Definition compress (h : list N) (block : bytes) : list N :=
  let r0 := regs_of h in
  let (r, _) := fold_left round K256 (r0, be_words block) in
  map (fun p => add32 (fst p) (snd p)) (combine h (list_of_regs r)).

Fixpoint blocks_fuel (fuel : nat) (b : bytes) : list bytes :=
  match fuel with
  | O => []
  | S f =>
      match b with
      | [] => []
      | _ => firstn 64 b :: blocks_fuel f (skipn 64 b)
      end
  end.

Definition be_bytes (n : nat) (v : N) : bytes := rev (N_to_le n v).

Definition pad (msg : bytes) : bytes :=
  let len := N.of_nat (length msg) in
  let zeros := N.to_nat ((119 - (len mod 64)) mod 64) in
  msg ++ [128] ++ repeat 0 zeros ++ be_bytes 8 (8 * len).

Definition sha256 (msg : bytes) : bytes :=
  let p := pad msg in
  let bs := blocks_fuel (S (length p)) p in
  flat_map (be_bytes 4) (fold_left compress bs H0).
