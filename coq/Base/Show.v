(* Canonical ASCII rendering of model results; the Rust harness renders the implementation's
   results in the same form and the check compares the two line by line. *)
From Coq Require Import String Ascii.
From Ruler Require Export Bytes.

Definition lit (x : string) : bytes := map N_of_ascii (list_ascii_of_string x).

Definition sp : bytes := [32].
Definition show_bytes (b : bytes) : bytes := 120 :: hex_of b.          (* x<hex> *)
Definition show_N (n : N) : bytes := 35 :: dec_of n.                   (* #<dec> *)
Definition show_nat (n : nat) : bytes := show_N (N.of_nat n).
Definition show_bool (b : bool) : bytes := if b then lit "T" else lit "F".

Definition paren (items : list bytes) : bytes := [40] ++ join_with sp items ++ [41].
Definition show_list {A} (f : A -> bytes) (l : list A) : bytes := paren (lit "l" :: map f l).
Definition show_option {A} (f : A -> bytes) (o : option A) : bytes :=
  match o with None => lit "none" | Some a => paren [lit "some"; f a] end.
Definition show_pair {A B} (f : A -> bytes) (g : B -> bytes) (p : A * B) : bytes :=
  paren [f (fst p); g (snd p)].
