(* Model of the two state-file encodings (bincode 1.3, default options: fixed-width little-endian
   integers, u64 length prefixes, raw fixed-size arrays, bool as one byte 0/1, strings as
   length-prefixed UTF-8; trailing bytes after the value are allowed by bincode::deserialize).

     RuleHistory            { source_to_targets : HashMap<Ticket, FileStateVec> }
     FileStateVec           { infos : Vec<FileState> }
     FileState              { ticket : Ticket, timestamp : u64, executable : bool }
     Ticket                 { sha : [u8; 32] }
     CurrentFileStatesInside{ file_states : HashMap<String, FileState> }

   Maps are modelled as the list of entries in file order (a HashMap is written in arbitrary order and
   read by successive inserts, so a later duplicate key wins: see canon_* in Model/StateFiles.v). *)
From Ruler Require Export Bytes.

Definition two64 : N := 18446744073709551616.

Definition take (n : nat) (b : bytes) : option (bytes * bytes) :=
  if Nat.ltb (length b) n then None else Some (firstn n b, skipn n b).

Definition ser_u64 (v : N) : bytes := N_to_le 8 v.
Definition de_u64 (b : bytes) : option (N * bytes) :=
  match take 8 b with
  | Some (x, r) => Some (le_to_N x, r)
  | None => None
  end.

Definition ser_bool (x : bool) : bytes := [if x then 1 else 0].
Definition de_bool (b : bytes) : option (bool * bytes) :=
  match b with
  | x :: r => if x =? 0 then Some (false, r) else if x =? 1 then Some (true, r) else None
  | [] => None
  end.

(* count elements, each read by de_one; fuel bounds the recursion (every element consumes at least
   one byte, so `length input` is always enough; running out of fuel is an error like end-of-input) *)
Fixpoint de_seq {A} (de_one : bytes -> option (A * bytes)) (fuel : nat) (count : N) (b : bytes)
  : option (list A * bytes) :=
  if count =? 0 then Some ([], b)
  else match fuel with
       | O => None
       | S f =>
           match de_one b with
           | None => None
           | Some (x, r) =>
               match de_seq de_one f (count - 1) r with
               | None => None
               | Some (xs, r') => Some (x :: xs, r')
               end
           end
       end.

Definition ser_seq {A} (ser_one : A -> bytes) (l : list A) : bytes :=
  ser_u64 (N.of_nat (length l)) ++ flat_map ser_one l.

Definition de_vec {A} (de_one : bytes -> option (A * bytes)) (b : bytes) : option (list A * bytes) :=
  match de_u64 b with
  | None => None
  | Some (count, r) => de_seq de_one (length r) count r
  end.

(* ---------- FileState, FileStateVec, Ticket ---------- *)

Record file_state := mk_file_state { fs_ticket : bytes; fs_time : N; fs_exec : bool }.

Definition ser_ticket (t : bytes) : bytes := t.       (* 32 raw bytes *)
Definition de_ticket (b : bytes) : option (bytes * bytes) := take 32 b.

Definition ser_file_state (s : file_state) : bytes :=
  ser_ticket (fs_ticket s) ++ ser_u64 (fs_time s) ++ ser_bool (fs_exec s).

Definition de_file_state (b : bytes) : option (file_state * bytes) :=
  match de_ticket b with
  | None => None
  | Some (t, r1) =>
      match de_u64 r1 with
      | None => None
      | Some (ts, r2) =>
          match de_bool r2 with
          | None => None
          | Some (e, r3) => Some (mk_file_state t ts e, r3)
          end
      end
  end.

Definition ser_fsvec (v : list file_state) : bytes := ser_seq ser_file_state v.
Definition de_fsvec (b : bytes) : option (list file_state * bytes) := de_vec de_file_state b.

(* ---------- RuleHistory ---------- *)

Definition history_entry := (bytes * list file_state)%type.

Definition ser_history_entry (e : history_entry) : bytes := ser_ticket (fst e) ++ ser_fsvec (snd e).
Definition de_history_entry (b : bytes) : option (history_entry * bytes) :=
  match de_ticket b with
  | None => None
  | Some (k, r) =>
      match de_fsvec r with
      | None => None
      | Some (v, r') => Some ((k, v), r')
      end
  end.

Definition ser_history (l : list history_entry) : bytes := ser_seq ser_history_entry l.
Definition de_history_raw (b : bytes) : option (list history_entry * bytes) := de_vec de_history_entry b.
(* what read_rule_history accepts: a value followed by anything *)
Definition de_history (b : bytes) : option (list history_entry) :=
  match de_history_raw b with Some (l, _) => Some l | None => None end.

(* ---------- strings: length-prefixed, must be well-formed UTF-8 (Unicode table 3-7) ---------- *)

Definition in_range (lo hi x : N) : bool := (lo <=? x) && (x <=? hi).

Fixpoint utf8_valid_fuel (fuel : nat) (b : bytes) : bool :=
  match fuel with
  | O => match b with [] => true | _ => false end
  | S f =>
      match b with
      | [] => true
      | b0 :: r =>
          if b0 <=? 127 then utf8_valid_fuel f r
          else if in_range 194 223 b0 then
            match r with
            | b1 :: r' => in_range 128 191 b1 && utf8_valid_fuel f r'
            | _ => false
            end
          else if in_range 224 239 b0 then
            match r with
            | b1 :: b2 :: r' =>
                (if b0 =? 224 then in_range 160 191 b1
                 else if b0 =? 237 then in_range 128 159 b1
                 else in_range 128 191 b1)
                && in_range 128 191 b2 && utf8_valid_fuel f r'
            | _ => false
            end
          else if in_range 240 244 b0 then
            match r with
            | b1 :: b2 :: b3 :: r' =>
                (if b0 =? 240 then in_range 144 191 b1
                 else if b0 =? 244 then in_range 128 143 b1
                 else in_range 128 191 b1)
                && in_range 128 191 b2 && in_range 128 191 b3 && utf8_valid_fuel f r'
            | _ => false
            end
          else false
      end
  end.
Definition utf8_valid (b : bytes) : bool := utf8_valid_fuel (length b) b.

Definition ser_string (s : bytes) : bytes := ser_u64 (N.of_nat (length s)) ++ s.
Definition de_string (b : bytes) : option (bytes * bytes) :=
  match de_u64 b with
  | None => None
  | Some (len, r) =>
      if N.of_nat (length r) <? len then None
      else let n := N.to_nat len in
           let s := firstn n r in
           if utf8_valid s then Some (s, skipn n r) else None
  end.

(* ---------- CurrentFileStatesInside ---------- *)

Definition table_entry := (bytes * file_state)%type.

Definition ser_table_entry (e : table_entry) : bytes := ser_string (fst e) ++ ser_file_state (snd e).
Definition de_table_entry (b : bytes) : option (table_entry * bytes) :=
  match de_string b with
  | None => None
  | Some (k, r) =>
      match de_file_state r with
      | None => None
      | Some (v, r') => Some ((k, v), r')
      end
  end.

Definition ser_table (l : list table_entry) : bytes := ser_seq ser_table_entry l.
Definition de_table_raw (b : bytes) : option (list table_entry * bytes) := de_vec de_table_entry b.
Definition de_table (b : bytes) : option (list table_entry) :=
  match de_table_raw b with Some (l, _) => Some l | None => None end.
