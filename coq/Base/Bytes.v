(* Byte strings as lists of N (each element < 256 when it stands for a real byte).
   Rust's String operations that ruler uses are byte-compatible: split('\n'), comparison with ""
   and ":", stripping leading '\t', and String: Ord = bytewise lexicographic order. *)
From Coq Require Export List NArith Bool Lia.
Export ListNotations.
Open Scope N_scope.

(* notations, not definitions, so that rewriting never trips over an unfolded alias *)
Notation byte := N (only parsing).
Notation bytes := (list N) (only parsing).

Definition NL : N := 10.     (* '\n' *)
Definition TAB : N := 9.     (* '\t' *)
Definition COLON : N := 58.  (* ':'  *)
Definition SLASH : N := 47.  (* '/'  *)

Inductive result (A E : Type) : Type :=
| Ok (a : A)
| Err (e : E).
Arguments Ok {A E} a.
Arguments Err {A E} e.

Definition is_byte (b : N) : Prop := b < 256.
Definition is_byteb (b : N) : bool := b <? 256.
Definition all_bytes (l : bytes) : Prop := Forall is_byte l.
Definition all_bytesb (l : bytes) : bool := forallb is_byteb l.

Fixpoint bytes_eqb (a b : bytes) : bool :=
  match a, b with
  | [], [] => true
  | x :: a', y :: b' => (x =? y) && bytes_eqb a' b'
  | _, _ => false
  end.

(* Lexicographic comparison; a strict prefix is smaller (Rust's Ord for str / Vec<u8>). *)
Fixpoint bytes_compare (a b : bytes) : comparison :=
  match a, b with
  | [], [] => Eq
  | [], _ :: _ => Lt
  | _ :: _, [] => Gt
  | x :: a', y :: b' =>
      match x ?= y with
      | Eq => bytes_compare a' b'
      | c => c
      end
  end.

Definition bytes_leb (a b : bytes) : bool :=
  match bytes_compare a b with Gt => false | _ => true end.
Definition bytes_ltb (a b : bytes) : bool :=
  match bytes_compare a b with Lt => true | _ => false end.

(* Rust's str::split(sep): always at least one piece; n separators give n+1 pieces. *)
Fixpoint split_on (sep : N) (s : bytes) : list bytes :=
  match s with
  | [] => [[]]
  | c :: s' =>
      if c =? sep then [] :: split_on sep s'
      else match split_on sep s' with
           | [] => [[c]]            (* unreachable: split_on never returns [] *)
           | p :: ps => (c :: p) :: ps
           end
  end.

(* Rust's [..].join(sep) *)
Fixpoint join_with (sep : bytes) (l : list bytes) : bytes :=
  match l with
  | [] => []
  | [x] => x
  | x :: rest => x ++ sep ++ join_with sep rest
  end.

Fixpoint list_eqb {A} (eqb : A -> A -> bool) (a b : list A) : bool :=
  match a, b with
  | [], [] => true
  | x :: a', y :: b' => eqb x y && list_eqb eqb a' b'
  | _, _ => false
  end.

Fixpoint list_compare {A} (cmp : A -> A -> comparison) (a b : list A) : comparison :=
  match a, b with
  | [], [] => Eq
  | [], _ :: _ => Lt
  | _ :: _, [] => Gt
  | x :: a', y :: b' =>
      match cmp x y with
      | Eq => list_compare cmp a' b'
      | c => c
      end
  end.

(* ---------- little-endian number <-> bytes ---------- *)

Fixpoint le_to_N (bs : bytes) : N :=
  match bs with
  | [] => 0
  | b :: r => b + 256 * le_to_N r
  end.

Fixpoint N_to_le (n : nat) (v : N) : bytes :=
  match n with
  | O => []
  | S k => (v mod 256) :: N_to_le k (v / 256)
  end.

(* ---------- ASCII rendering helpers used by the canonical printers ---------- *)

Definition hex_digit (d : N) : N := if d <? 10 then 48 + d else 87 + d.
Definition hex_byte (b : N) : bytes := [hex_digit (b / 16); hex_digit (b mod 16)].
Definition hex_of (s : bytes) : bytes := flat_map hex_byte s.

Fixpoint dec_digits_fuel (fuel : nat) (n : N) (acc : bytes) : bytes :=
  match fuel with
  | O => acc
  | S f =>
      let acc' := (48 + n mod 10) :: acc in
      if n / 10 =? 0 then acc' else dec_digits_fuel f (n / 10) acc'
  end.
Definition dec_of (n : N) : bytes := dec_digits_fuel (S (N.to_nat (N.log2 n))) n [].
