(* Insertion sort for a boolean total preorder. Vec::sort and BTreeMap iteration are modelled by it:
   for orders whose equivalent elements are equal (strings, rules) every sorting algorithm returns the
   same list, so the choice of algorithm is not observable. *)
From Coq Require Export List.
Export ListNotations.

Section Sort.
  Context {A : Type}.
  Variable leb : A -> A -> bool.

  Fixpoint insert (x : A) (l : list A) : list A :=
    match l with
    | [] => [x]
    | y :: r => if leb x y then x :: l else y :: insert x r
    end.

  Fixpoint sort (l : list A) : list A :=
    match l with
    | [] => []
    | x :: r => insert x (sort r)
    end.

  Fixpoint sortedb (l : list A) : bool :=
    match l with
    | [] => true
    | x :: r => match r with [] => true | y :: _ => leb x y && sortedb r end
    end.
End Sort.
