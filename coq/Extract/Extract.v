(* Extraction of the executable model. Only ExtrOcamlBasic's directives are used
   (bool, option, unit, list, prod, sumbool, sumor to the OCaml types; fst/snd etc. inlined);
   N, positive, nat stay extracted datatypes. No Extract Constant of our own. *)
Require Extraction.
Require ExtrOcamlBasic.
From Ruler Require Import Bytes Show Base62 Sha256 Entry.
Extraction Language OCaml.
Extraction "../ocaml/model.ml" Entry.run_case.
