(* Every crash point of the modelled build / clean (C11): the disk after ANY prefix of the action list of
   Model/Acts.v satisfies the disk invariant, history soundness and "no damaged state file", so the next
   build is not wedged and C01 applies to it.
   The action lists are analysed once, generically (`acts_good`): every action the model emits is emitted
   in a world where it is legitimate (a back-up of a soundly hashed file, a restore into an absent path,
   a table of sound states, a history accepted by the predicate HP). *)
From Coq Require Import Relations.Relation_Operators Relations.Operators_Properties.
From Ruler Require Import Tactics Bytes AList RuleSyntax Parser TopoSort World Cmdlang Work Build Ops Inv Acts
  BuildSpec Ideal BytesFacts InvFacts TableFrame BuildFacts C01Script C01Hist C01Build C01Plan C01Facts C11Facts ActsSound.
Local Open Scope N_scope.

Section ActsGood.
  Variable T : Type.
  Variable teqb : T -> T -> bool.
  Variable hc : bytes -> T.
  Variable hl : list T -> T.
  Variable hr : rule -> T.
  Hypothesis teqb_spec : forall a b, teqb a b = true <-> a = b.

  Notation world := (world T).
  Notation fstate := (fstate T).
  Notation state_ok := (state_ok teqb hc).
  Notation disk_inv := (disk_inv teqb hc).
  Notation step := (step teqb hc).
  Notation steps := (clos_refl_trans world step).
  Notation blob_ok := (InvProofs.blob_ok T teqb hc).
  Notation tbl_ok := (InvProofs.tbl_ok T teqb hc).
  Notation rs_inv := (InvProofs.rs_inv T teqb hc).
  Notation do_act := (do_act teqb hr).
  Notation run_acts := (run_acts teqb hr).

  Let inv_steps := InvProofs.steps_preserve_inv T teqb hc teqb_spec.

  (* ================================================================== *)
  (* an action that is legitimate in the world where it is performed      *)
  (* ================================================================== *)

  (* HP: which histories main may write; RP: the paths a restore may go to *)
  Definition act_good (HP : rule -> history T -> Prop) (RP : bytes -> Prop) (w : world) (a : act T) : Prop :=
    match a with
    | ABackup p t => exists assumed, state_ok w assumed /\ get_file_ticket teqb hc w p assumed = Some t
    | ARestore t p => fget w p = None /\ RP p
    | AWriteHist r h => HP r h
    | AWriteTable tbl => tbl_ok w tbl
    | _ => True
    end.

  Fixpoint acts_good HP RP (w : world) (acts : list (act T)) : Prop :=
    match acts with
    | [] => True
    | a :: rest => act_good HP RP w a /\ acts_good HP RP (do_act w a) rest
    end.

  Lemma acts_good_app HP RP l1 : forall (w : world) l2,
    acts_good HP RP w (l1 ++ l2) <-> acts_good HP RP w l1 /\ acts_good HP RP (run_acts l1 w) l2.
  Proof.
    induction l1 as [|a l1 IH]; intros w l2; cbn [app acts_good].
    - rewrite run_acts_nil. tauto.
    - rewrite run_acts_cons, IH. tauto.
  Qed.

  Lemma act_good_impl (HP HP' : rule -> history T -> Prop) (RP RP' : bytes -> Prop) :
    (forall r h, HP r h -> HP' r h) -> (forall p, RP p -> RP' p) ->
    forall (w : world) a, act_good HP RP w a -> act_good HP' RP' w a.
  Proof.
    intros H1 H2 w a. destruct a as [| | | |p t|t p|l|r h|tbl]; cbn [act_good]; auto.
    intros [Ha Hb]. auto.
  Qed.

  Lemma acts_good_impl (HP HP' : rule -> history T -> Prop) (RP RP' : bytes -> Prop) :
    (forall r h, HP r h -> HP' r h) -> (forall p, RP p -> RP' p) ->
    forall acts (w : world), acts_good HP RP w acts -> acts_good HP' RP' w acts.
  Proof.
    intros H1 H2. induction acts as [|a rest IH]; intros w; cbn [acts_good]; [auto|].
    intros [Ha Hr]. split; [eapply act_good_impl; eauto | auto].
  Qed.

  (* ---------- a good action is a sequence of steps of Inv.step ---------- *)

  Lemma mkdir_shrinks (rd : rdir T) e :
    rdir_shrinks T teqb rd
      (mk_rdir e (rd_cache rd) (rd_hist rd) (rd_table rd)).
  Proof. split; [|split]; cbn; eauto. Qed.

  Lemma act_good_steps HP RP (w : world) a : act_good HP RP w a -> steps w (do_act w a).
  Proof.
    destruct a as [| | | |p t|t p|l|r h|tbl]; cbn [act_good Acts.do_act]; intro Hg.
    - apply rt_step. apply SUserRd. apply mkdir_shrinks.
    - apply rt_step. apply SUserRd. split; [|split]; cbn; eauto.
      intros c' t f Hc Hl. destruct (rd_cache (w_rd w)) as [c|]; injection Hc as <-; [eauto|].
      cbn in Hl. discriminate.
    - apply rt_step. apply SUserRd. split; [|split]; cbn; eauto.
      intros hs' t h Hh Hl. destruct (rd_hist (w_rd w)) as [hs|]; injection Hh as <-; [eauto|].
      cbn in Hl. discriminate.
    - destruct (rd_table (w_rd w)) as [x|] eqn:E.
      + apply rt_step. apply SUserRd. split; [|split]; cbn; eauto.
        intros tbl' Ht. rewrite E. exact Ht.
      + apply rt_step. apply (SWriteTable T teqb hc w []). intros p st Hl. cbn in Hl. discriminate.
    - destruct (back_up teqb w t p) as [w1|] eqn:Eb; [|apply rt_refl].
      destruct Hg as (a & Hok & Hgt). apply rt_step. eapply SBackup; eauto.
    - destruct (restore teqb w t p) as [w1| |] eqn:Er; try apply rt_refl.
      apply rt_step. eapply SRestore; eauto.
    - destruct (run_line w l) as [code w1] eqn:El. cbn [snd].
      eapply InvProofs.run_line_steps; eauto.
    - apply rt_step. apply SWriteHist.
    - apply rt_step. apply SWriteTable. exact Hg.
  Qed.

  Lemma acts_good_steps HP RP acts : forall w : world, acts_good HP RP w acts -> steps w (run_acts acts w).
  Proof.
    induction acts as [|a rest IH]; intros w; cbn [acts_good]; [intros _; apply rt_refl|].
    intros [Ha Hr]. rewrite run_acts_cons. eapply rt_trans; [eapply act_good_steps; eauto | apply IH; exact Hr].
  Qed.

  Lemma acts_good_inv HP RP acts (w : world) : disk_inv w -> acts_good HP RP w acts -> disk_inv (run_acts acts w).
  Proof. intros Hinv Hg. eapply inv_steps; [exact Hinv|]. eapply acts_good_steps; eauto. Qed.

  (* what holds just before the action at any position of a good list *)
  Lemma acts_good_at HP RP (w : world) pre a suf :
    disk_inv w -> acts_good HP RP w (pre ++ a :: suf) ->
    disk_inv (run_acts pre w) /\ act_good HP RP (run_acts pre w) a.
  Proof.
    intros Hinv Hg. apply acts_good_app in Hg as [Hpre [Ha _]].
    split; [eapply acts_good_inv; eauto | exact Ha].
  Qed.

  (* ================================================================== *)
  (* the action lists of Model/Acts.v are good                            *)
  (* ================================================================== *)

  Section Lists.
    Variable HP : rule -> history T -> Prop.
    Variable RP : bytes -> Prop.
    Notation okact := (act_good HP RP).
    Notation okacts := (acts_good HP RP).

    Lemma init_acts_good (w : world) : okacts w (init_acts w).
    Proof.
      unfold init_acts. destruct (rd_exists (w_rd w)), (rd_cache (w_rd w)), (rd_hist (w_rd w)), (rd_table (w_rd w));
        cbn [app acts_good act_good]; repeat split.
    Qed.

    Lemma gft_none_fget (w : world) p a : get_file_ticket teqb hc w p a = None -> fget w p = None.
    Proof.
      unfold get_file_ticket. destruct (fget w p) as [f|]; [|reflexivity].
      destruct (shortcut teqb hc f a); discriminate.
    Qed.

    Lemma restore_acts_good (w : world) t p : fget w p = None -> RP p -> okacts w (restore_acts T teqb w t p).
    Proof.
      intros Hn Hp. unfold restore_acts. destruct (restore teqb w t p); cbn [acts_good act_good]; auto.
    Qed.

    Lemma resolve_single_acts_good (w : world) rem p a :
      state_ok w a -> RP p -> okacts w (resolve_single_acts T teqb hc w rem p a).
    Proof.
      intros Hok Hp. unfold resolve_single_acts.
      destruct (get_file_ticket teqb hc w p a) as [cur|] eqn:Eg.
      - destruct (teqb rem cur); [exact I|].
        destruct (back_up teqb w cur p) as [w1|] eqn:Eb; [|exact I].
        cbn [acts_good]. split; [exists a; auto|].
        rewrite (backup_act_world T teqb hr _ _ _ _ Eb). apply restore_acts_good; [|exact Hp].
        eapply back_up_fget_eq; eauto.
      - apply restore_acts_good; [|exact Hp]. eapply gft_none_fget; eauto.
    Qed.

    Lemma resolve_remembered_acts_good b : forall (w : world) rem,
      disk_inv w -> blob_ok w b -> (forall p, In p (map fst b) -> RP p) ->
      okacts w (resolve_remembered_acts T teqb hc w b rem).
    Proof.
      induction b as [|[p a] rest IH]; intros w rem Hinv Hb Hrp; cbn [resolve_remembered_acts]; [exact I|].
      destruct rem as [|r rrest]; [exact I|].
      apply InvProofs.blob_ok_cons in Hb as [Hok Hrest].
      apply acts_good_app. split.
      - apply resolve_single_acts_good; [exact Hok|]. apply Hrp. left. reflexivity.
      - destruct (resolve_single teqb hc w (fs_t r) p a) as [[res w1]|e] eqn:E1; [|exact I].
        rewrite (resolve_single_acts_world T teqb hc hr _ _ _ _ _ _ E1).
        pose proof (InvProofs.resolve_single_steps T teqb hc _ _ _ _ _ _ Hok E1) as Hs1.
        apply IH.
        + eapply inv_steps; eauto.
        + eapply (InvProofs.blob_ok_steps T teqb hc teqb_spec); eauto.
        + intros q Hq. apply Hrp. right. exact Hq.
    Qed.

    Lemma resolve_fresh_acts_good b : forall (w : world),
      disk_inv w -> blob_ok w b -> okacts w (resolve_fresh_acts T teqb hc w b).
    Proof.
      induction b as [|[p a] rest IH]; intros w Hinv Hb; cbn [resolve_fresh_acts]; [exact I|].
      apply InvProofs.blob_ok_cons in Hb as [Hok Hrest].
      destruct (get_file_ticket teqb hc w p a) as [cur|] eqn:Eg; [|apply IH; auto].
      destruct (back_up teqb w cur p) as [w1|] eqn:Eb; [|exact I].
      cbn [acts_good]. split; [exists a; auto|].
      rewrite (backup_act_world T teqb hr _ _ _ _ Eb).
      pose proof (InvProofs.back_up_steps T teqb hc _ _ _ _ _ Hok Eg Eb) as Hs1.
      apply IH.
      - eapply inv_steps; eauto.
      - eapply (InvProofs.blob_ok_steps T teqb hc teqb_spec); eauto.
    Qed.

    Lemma lines_acts_good lines : forall w : world, okacts w (map ALine lines).
    Proof. induction lines as [|l r IH]; intros w; cbn [map acts_good act_good]; auto. Qed.

    Lemma handle_rule_acts_good (w : world) b h st cmd :
      disk_inv w -> blob_ok w b -> (forall p, In p (map fst b) -> RP p) ->
      okacts w (handle_rule_acts teqb hc w b h st cmd).
    Proof.
      intros Hinv Hb Hrp. rewrite (handle_rule_acts_eq T teqb hc).
      destruct (resolved_of T teqb hc w b h st) as [[ress w1]|e]; [|exact I].
      apply acts_good_app. split.
      - unfold resolved_acts. destruct (alookup teqb h st) as [rem|].
        + apply resolve_remembered_acts_good; auto.
        + apply resolve_fresh_acts_good; auto.
      - destruct (needs_rebuild ress); [apply lines_acts_good | exact I].
    Qed.

    Lemma run_node_acts_good st n :
      disk_inv (rs_world T st) -> tbl_ok (rs_world T st) (rs_table T st) ->
      (forall p, In p (n_targets n) -> RP p) ->
      okacts (rs_world T st) (run_node_acts T teqb hc hl hr st n).
    Proof.
      intros Hinv Ht Hrp. unfold run_node_acts.
      destruct (take_blob T hc (rs_table T st) (n_targets n)) as [b t'] eqn:Etb.
      assert (clock_ok teqb (rs_world T st)) as Hk by apply Hinv.
      destruct (InvProofs.take_blob_ok T teqb hc teqb_spec _ _ _ _ _ Ht Etb) as [Hb _].
      destruct (read_history T teqb hr (rs_world T st) (n_rule n)) as [h|]; [|exact I].
      destruct (all_some _) as [tickets|]; [|exact I].
      apply handle_rule_acts_good; auto. rewrite (C01Build.take_blob_fst _ _ _ _ _ _ Etb). exact Hrp.
    Qed.

    Lemma run_nodes_acts_good w0 ns : forall st (w : world),
      disk_inv w0 -> rs_inv w0 st -> w = rs_world T st ->
      (forall n p, In n ns -> In p (n_targets n) -> RP p) ->
      okacts w (run_nodes_acts T teqb hc hl hr st ns).
    Proof.
      induction ns as [|n rest IH]; intros st w Hinv0 Hrs -> Hrp; cbn [run_nodes_acts]; [exact I|].
      destruct (run_node T teqb hc hl hr st n) as [st1|] eqn:E1; [|exact I].
      pose proof Hrs as (Hs & Ht & _).
      apply acts_good_app. split.
      - apply run_node_acts_good; [eapply inv_steps; eauto | exact Ht |].
        intros p Hp. apply (Hrp n p); [left; reflexivity | exact Hp].
      - rewrite (run_node_acts_world T teqb hc hl hr _ _ _ E1).
        apply (IH st1); [exact Hinv0 | | reflexivity |].
        + eapply (InvProofs.run_node_inv T teqb hc teqb_spec); eauto.
        + intros n' p Hn' Hp. apply (Hrp n' p); [right; exact Hn' | exact Hp].
    Qed.

    Lemma join_acts_good results :
      (forall r wr h, In (Some r, TOk wr) results -> wr_history wr = Some h -> HP r h) ->
      forall w : world, okacts w (join_acts T results).
    Proof.
      induction results as [|res rest IH]; intros Hhp w; [exact I|].
      rewrite join_acts_cons. apply acts_good_app. split.
      - destruct res as [[r|] [wr|e|]]; try exact I. cbn [join_one_acts].
        destruct (wr_history wr) as [h|] eqn:Eh; [|exact I].
        cbn [acts_good act_good]. split; [|exact I]. eapply Hhp; [left; reflexivity | exact Eh].
      - apply IH. intros r wr h Hin. apply Hhp. right. exact Hin.
    Qed.

    (* the leaves run from the world in which main has saved what the workers leave of the table *)
    Lemma st_leaves_rs_inv (w w1 : world) t pack :
      disk_inv w -> init_dir T w = Ok (w1, t) ->
      rs_inv w (st_leaves T teqb hc (write_table T w1 (table_rest T hc t pack)) t pack).
    Proof.
      intros Hinv Hi. destruct (InvProofs.init_dir_rs_inv T teqb hc teqb_spec _ _ _ Hinv Hi) as [Hs1 Ht1].
      pose proof (inv_steps _ _ Hinv Hs1) as Hinv1.
      assert (steps w1 (write_table T w1 (table_rest T hc t pack))) as Hsw.
      { apply rt_step. apply SWriteTable. apply (InvProofs.table_rest_ok T teqb hc w1 t pack Ht1). }
      apply (InvProofs.run_leaves_inv T teqb hc teqb_spec); [exact Hinv|].
      split; [eapply rt_trans; eauto|]. split; [|intros r wr []].
      cbn [rs_world rs_table]. eapply (InvProofs.tbl_ok_steps T teqb hc teqb_spec); eauto.
    Qed.

    (* the run from the world with the saved table and the run from the world init_dir left: same results *)
    Lemma run_nodes_early_results (w1 : world) t pack st2 :
      run_nodes T teqb hc hl hr (st_leaves T teqb hc (write_table T w1 (table_rest T hc t pack)) t pack)
                (p_nodes pack) = Some st2 ->
      exists st2', run_nodes T teqb hc hl hr (st_leaves T teqb hc w1 t pack) (p_nodes pack) = Some st2' /\
                   rs_results T st2 = rs_results T st2'.
    Proof.
      rewrite write_table_set_tbl, (st_leaves_st T teqb hc), (run_nodes_st T teqb hc hl hr).
      destruct (run_nodes T teqb hc hl hr (st_leaves T teqb hc w1 t pack) (p_nodes pack)) as [st2'|];
        cbn [option_map]; [|discriminate].
      intro H. injection H as <-. exists st2'. split; reflexivity.
    Qed.

    Theorem build_acts_good (w : world) rp goal :
      disk_inv w ->
      (forall w1 t pack st2 r wr h,
         init_dir T w = Ok (w1, t) -> get_nodes T w1 rp goal = Ok pack ->
         run_nodes T teqb hc hl hr (st_leaves T teqb hc w1 t pack) (p_nodes pack) = Some st2 ->
         In (Some r, TOk wr) (rs_results T st2) -> wr_history wr = Some h -> HP r h) ->
      (forall w1 t pack p,
         init_dir T w = Ok (w1, t) -> get_nodes T w1 rp goal = Ok pack -> In p (plan_targets pack) -> RP p) ->
      okacts w (build_acts teqb hc hl hr w rp goal).
    Proof.
      intros Hinv Hhp Hrp. rewrite (build_acts_eq T teqb hc hl hr). apply acts_good_app.
      split; [apply init_acts_good|].
      destruct (init_dir T w) as [[w1 t]|f] eqn:Ei; [|exact I].
      rewrite (init_acts_ok T teqb hr _ _ _ Ei).
      destruct (get_nodes T w1 rp goal) as [pack|f] eqn:Eg; [|exact I].
      pose proof (st_leaves_rs_inv _ _ _ pack Hinv Ei) as Hrs1.
      destruct (InvProofs.init_dir_rs_inv T teqb hc teqb_spec _ _ _ Hinv Ei) as [_ Ht1].
      cbv zeta. cbn [acts_good act_good Acts.do_act].
      split; [apply (InvProofs.table_rest_ok T teqb hc w1 t pack Ht1)|].
      set (w1t := write_table T w1 (table_rest T hc t pack)) in *.
      apply acts_good_app. split.
      - apply (run_nodes_acts_good w (p_nodes pack) (st_leaves T teqb hc w1t t pack)); auto.
        + symmetry. apply st_leaves_world.
        + intros n p Hn Hp. apply (Hrp w1 t pack p eq_refl Eg). unfold plan_targets. apply in_flat_map. eauto.
      - rewrite (run_nodes_acts_world T teqb hc hl hr (p_nodes pack) (st_leaves T teqb hc w1t t pack) w1t)
          by (symmetry; apply st_leaves_world).
        destruct (run_nodes T teqb hc hl hr (st_leaves T teqb hc w1t t pack) (p_nodes pack)) as [st2|] eqn:En; [|exact I].
        rewrite (upto_some T teqb hc hl hr _ _ _ En).
        destruct (run_nodes_early_results _ _ _ _ En) as (st2' & En' & Hres).
        apply acts_good_app. split.
        + apply join_acts_good. intros r wr h Hin Hh. rewrite Hres in Hin. eapply Hhp; eauto.
        + cbn [acts_good act_good]. split; [|exact I].
          change (rs_world T st2) with (js_world T (mk_js T (rs_world T st2) (rs_table T st2) [] [])).
          rewrite (join_acts_world T teqb hr).
          pose proof (InvProofs.run_nodes_inv T teqb hc teqb_spec hl hr w _ _ _ Hinv Hrs1 En) as (Hs2 & Ht2 & Hr2).
          assert (InvProofs.js_inv T teqb hc w (mk_js T (rs_world T st2) (rs_table T st2) [] []) (rs_results T st2)) as Hj0.
          { split; [exact Hs2|]. split; [exact Ht2 | exact Hr2]. }
          destruct (InvProofs.join_all_inv T teqb hc teqb_spec hr w _ _ Hinv Hj0) as (_ & Ht3 & _). exact Ht3.
    Qed.

    (* ---------- clean ---------- *)

    Lemma clean_targets_acts_good b : forall (w : world),
      disk_inv w -> blob_ok w b -> okacts w (clean_targets_acts T teqb hc w b).
    Proof.
      induction b as [|[p a] rest IH]; intros w Hinv Hb; cbn [clean_targets_acts]; [exact I|].
      apply InvProofs.blob_ok_cons in Hb as [Hok Hrest].
      destruct (get_file_ticket teqb hc w p a) as [cur|] eqn:Eg; [|apply IH; auto].
      destruct (back_up teqb w cur p) as [w1|] eqn:Eb; [|exact I].
      cbn [acts_good]. split; [exists a; auto|].
      rewrite (backup_act_world T teqb hr _ _ _ _ Eb).
      pose proof (InvProofs.back_up_steps T teqb hc _ _ _ _ _ Hok Eg Eb) as Hs1.
      apply IH.
      - eapply inv_steps; eauto.
      - eapply (InvProofs.blob_ok_steps T teqb hc teqb_spec); eauto.
    Qed.

    Lemma clean_nodes_acts_good ns : forall (w : world) t,
      disk_inv w -> tbl_ok w t -> okacts w (clean_nodes_acts T teqb hc w t ns).
    Proof.
      induction ns as [|n rest IH]; intros w t Hinv Ht; cbn [clean_nodes_acts]; [exact I|].
      destruct (take_blob T hc t (n_targets n)) as [b t'] eqn:Etb.
      assert (clock_ok teqb w) as Hk by apply Hinv.
      destruct (InvProofs.take_blob_ok T teqb hc teqb_spec _ _ _ _ _ Ht Etb) as [Hb Ht'].
      destruct (clean_targets teqb hc w b) as [w1|e] eqn:Ec; [|apply IH; auto].
      apply acts_good_app. split; [apply clean_targets_acts_good; auto|].
      rewrite (clean_targets_acts_world T teqb hc hr _ _ _ Ec).
      pose proof (InvProofs.clean_targets_steps T teqb hc teqb_spec _ _ _ Hinv Hb Ec) as Hs1.
      apply IH.
      - eapply inv_steps; eauto.
      - eapply (InvProofs.tbl_ok_steps T teqb hc teqb_spec); eauto.
    Qed.

    Theorem clean_acts_good (w : world) rp goal : disk_inv w -> okacts w (clean_acts teqb hc w rp goal).
    Proof.
      intros Hinv. unfold clean_acts. apply acts_good_app. split; [apply init_acts_good|].
      destruct (init_dir T w) as [[w1 t]|f] eqn:Ei; [|exact I].
      rewrite (init_acts_ok T teqb hr _ _ _ Ei).
      destruct (get_nodes T w1 rp goal) as [pack|f]; [|exact I].
      destruct (InvProofs.init_dir_rs_inv T teqb hc teqb_spec _ _ _ Hinv Ei) as [Hs1 Ht1].
      apply clean_nodes_acts_good; [eapply inv_steps; eauto | exact Ht1].
    Qed.
  End Lists.
End ActsGood.
