(* C08 per action of the modelled build / clean: no action of ruler itself (everything but a script line of
   a user's command) destroys a protected content: it stays protected, or it has just been restored to a
   path that was absent.  When the protected paths contain every target of the plan, it stays protected. *)
From Coq Require Import Relations.Relation_Operators Relations.Operators_Properties.
From Ruler Require Import Tactics Bytes AList RuleSyntax Parser TopoSort World Cmdlang Work Build Ops Inv Acts
  BuildSpec Ideal BytesFacts InvFacts BuildFacts ActsSound ActsGood.
Local Open Scope N_scope.

Section ActsContent.
  Variable T : Type.
  Variable teqb : T -> T -> bool.
  Variable hc : bytes -> T.
  Variable hl : list T -> T.
  Variable hr : rule -> T.
  Hypothesis teqb_spec : forall a b, teqb a b = true <-> a = b.
  Hypothesis hc_inj : forall a b, hc a = hc b -> a = b.

  Notation world := (world T).
  Notation disk_inv := (disk_inv teqb hc).
  Notation protected_content := (protected_content teqb).
  Notation do_act := (do_act teqb hr).
  Notation run_acts := (run_acts teqb hr).
  Notation build_acts := (build_acts teqb hc hl hr).
  Notation clean_acts := (clean_acts teqb hc).

  Definition HPtrue (r : rule) (h : history T) : Prop := True.

  Lemma rd_only_keeps_content paths (w w' : world) c :
    w_files w' = w_files w -> (forall ch, cache_of w = Some ch -> cache_of w' = Some ch) ->
    protected_content paths w c -> protected_content paths w' c.
  Proof. apply (InvProofs.rd_change_keeps_content T teqb hc hc_inj). Qed.

  (* one good action that is not a script line *)
  Lemma act_good_keeps_content HP RP paths (w : world) a c :
    disk_inv w -> act_good T teqb hc HP RP w a -> (forall l, a <> ALine l) ->
    protected_content paths w c ->
    protected_content paths (do_act w a) c \/
    exists p f, ~ In p paths /\ RP p /\ fget w p = None /\ fget (do_act w a) p = Some f /\ f_content f = c.
  Proof.
    intros Hinv Hg Hnl Hp.
    destruct a as [| | | |p t|t p|l|r h|tbl]; cbn [act_good Acts.do_act] in *.
    - left. eapply rd_only_keeps_content; [| |exact Hp]; [reflexivity | auto].
    - left. eapply rd_only_keeps_content; [| |exact Hp]; [reflexivity|].
      intros ch Hch. unfold cache_of in *. cbn. rewrite Hch. reflexivity.
    - left. eapply rd_only_keeps_content; [| |exact Hp]; [reflexivity | auto].
    - left. eapply rd_only_keeps_content; [| |exact Hp]; [reflexivity | auto].
    - left. destruct (back_up teqb w t p) as [w1|] eqn:Eb; [|exact Hp].
      destruct Hg as (a & Hok & Hgt). destruct Hinv as (_ & _ & _ & Ha & _).
      eapply (InvProofs.back_up_keeps_content T teqb hc teqb_spec hc_inj); eauto.
    - destruct Hg as [Hnone Hrp].
      destruct (restore teqb w t p) as [w1| |] eqn:Er; try (left; exact Hp).
      destruct (in_dec (list_eq_dec N.eq_dec) p paths) as [Hin | Hnin].
      + left. eapply (InvProofs.restore_keeps_content T teqb hc teqb_spec); eauto.
      + assert (protected_content (p :: paths) w c) as Hp'.
        { destruct Hp as [(q & g & Hq & Hg) | H]; [left; exists q, g; cbn; tauto | right; exact H]. }
        assert (protected_content (p :: paths) w1 c) as Hp''.
        { eapply (InvProofs.restore_keeps_content T teqb hc teqb_spec); eauto. cbn; auto. }
        destruct Hp'' as [(q & g & [<- | Hq] & Hg & Hc) | H].
        * right. exists p, g. auto.
        * left. left. exists q, g. auto.
        * left. right. exact H.
    - exfalso. apply (Hnl l). reflexivity.
    - left. destruct (InvProofs.write_history_inv T teqb hr w r h) as (Hf & _ & _ & Hc & _).
      eapply rd_only_keeps_content; [exact Hf| |exact Hp]. intros ch Hch. rewrite Hc. exact Hch.
    - left. eapply rd_only_keeps_content; [| |exact Hp]; [reflexivity | auto].
  Qed.

  (* the action at any position of a good list *)
  Lemma acts_good_keep_content HP RP paths (w : world) pre a suf c :
    disk_inv w -> acts_good T teqb hc hr HP RP w (pre ++ a :: suf) -> (forall l, a <> ALine l) ->
    protected_content paths (run_acts pre w) c ->
    protected_content paths (run_acts (pre ++ [a]) w) c \/
    exists p f, ~ In p paths /\ RP p /\ fget (run_acts pre w) p = None /\
                fget (run_acts (pre ++ [a]) w) p = Some f /\ f_content f = c.
  Proof.
    intros Hinv Hg Hnl Hp.
    destruct (acts_good_at T teqb hc hr teqb_spec HP RP w pre a suf Hinv Hg) as [Hinv' Ha].
    rewrite (run_acts_app T teqb hr), (run_acts_one T teqb hr).
    apply (act_good_keeps_content HP RP); assumption.
  Qed.

  (* ================================================================== *)
  (* D6: build                                                            *)
  (* ================================================================== *)

  Theorem acts_build_keep_content : forall (w : world) rp goal pre a suf paths c,
    disk_inv w ->
    build_acts w rp goal = pre ++ a :: suf ->
    (forall l, a <> ALine l) ->
    protected_content paths (run_acts pre w) c ->
    protected_content paths (run_acts (pre ++ [a]) w) c
    \/ exists p f, ~ In p paths /\ fget (run_acts pre w) p = None /\
                   fget (run_acts (pre ++ [a]) w) p = Some f /\ f_content f = c.
  Proof.
    intros w rp goal pre a suf paths c Hinv E Hnl Hp.
    assert (acts_good T teqb hc hr HPtrue (fun _ => True) w (pre ++ a :: suf)) as Hg.
    { rewrite <- E. apply (build_acts_good T teqb hc hl hr teqb_spec); [exact Hinv | intros; exact I | intros; exact I]. }
    destruct (acts_good_keep_content _ _ paths w pre a suf c Hinv Hg Hnl Hp) as [H | (p & f & H1 & _ & H2 & H3 & H4)].
    - left. exact H.
    - right. exists p, f. auto.
  Qed.

  (* the protected paths contain every target of the plan: nothing is ever lost from the protected set *)
  Theorem acts_build_keep_content_targets : forall (w : world) rp goal pre a suf paths c,
    disk_inv w ->
    (forall w1 t pack, init_dir T w = Ok (w1, t) -> get_nodes T w1 rp goal = Ok pack ->
                       incl (plan_targets pack) paths) ->
    build_acts w rp goal = pre ++ a :: suf ->
    (forall l, a <> ALine l) ->
    protected_content paths (run_acts pre w) c ->
    protected_content paths (run_acts (pre ++ [a]) w) c.
  Proof.
    intros w rp goal pre a suf paths c Hinv Hincl E Hnl Hp.
    assert (acts_good T teqb hc hr HPtrue (fun p => In p paths) w (pre ++ a :: suf)) as Hg.
    { rewrite <- E. apply (build_acts_good T teqb hc hl hr teqb_spec); [exact Hinv | intros; exact I |].
      intros w1 t pack p Hi Hgn Hin. eapply Hincl; eauto. }
    destruct (acts_good_keep_content _ _ paths w pre a suf c Hinv Hg Hnl Hp) as [H | (p & f & H1 & H0 & _)].
    - exact H.
    - contradiction.
  Qed.

  (* ================================================================== *)
  (* D6: clean (only mkdirs and back-ups)                                 *)
  (* ================================================================== *)

  Definition backup_or_mkdir (a : act T) : Prop :=
    match a with
    | AMkRuler | AMkCache | AMkHist | ANewTable | ABackup _ _ => True
    | _ => False
    end.

  Lemma init_acts_shape (w : world) a : In a (init_acts w) -> backup_or_mkdir a.
  Proof.
    unfold init_acts. intro H.
    repeat (apply in_app_or in H as [H | H]).
    - destruct (rd_exists (w_rd w)); [destruct H|]. destruct H as [<- | []]. exact I.
    - destruct (rd_cache (w_rd w)); [destruct H|]. destruct H as [<- | []]. exact I.
    - destruct (rd_hist (w_rd w)); [destruct H|]. destruct H as [<- | []]. exact I.
    - destruct (rd_table (w_rd w)); [destruct H|]. destruct H as [<- | []]. exact I.
  Qed.

  Lemma clean_targets_acts_shape b : forall (w : world) a,
    In a (clean_targets_acts T teqb hc w b) -> backup_or_mkdir a.
  Proof.
    induction b as [|[p s] rest IH]; intros w a; cbn [clean_targets_acts]; [intros []|].
    destruct (get_file_ticket teqb hc w p s) as [t|]; [|apply IH].
    destruct (back_up teqb w t p) as [w1|]; [|intros []].
    intros [<- | H]; [exact I | eapply IH; eauto].
  Qed.

  Lemma clean_nodes_acts_shape ns : forall (w : world) t a,
    In a (clean_nodes_acts T teqb hc w t ns) -> backup_or_mkdir a.
  Proof.
    induction ns as [|n rest IH]; intros w t a; cbn [clean_nodes_acts]; [intros []|].
    destruct (take_blob T hc t (n_targets n)) as [b t'].
    destruct (clean_targets teqb hc w b) as [w1|e]; [|apply IH].
    intro H. apply in_app_or in H as [H | H]; [eapply clean_targets_acts_shape; eauto | eapply IH; eauto].
  Qed.

  Lemma clean_acts_shape (w : world) rp goal a : In a (clean_acts w rp goal) -> backup_or_mkdir a.
  Proof.
    unfold Acts.clean_acts. intro H. apply in_app_or in H as [H | H]; [eapply init_acts_shape; eauto|].
    destruct (init_dir T w) as [[w1 t]|f]; [|destruct H].
    destruct (get_nodes T w1 rp goal) as [pack|f]; [|destruct H].
    eapply clean_nodes_acts_shape; eauto.
  Qed.

  Theorem acts_clean_keep_content : forall (w : world) rp goal pre a suf paths c,
    disk_inv w ->
    clean_acts w rp goal = pre ++ a :: suf ->
    protected_content paths (run_acts pre w) c ->
    protected_content paths (run_acts (pre ++ [a]) w) c.
  Proof.
    intros w rp goal pre a suf paths c Hinv E Hp.
    assert (backup_or_mkdir a) as Hshape.
    { apply (clean_acts_shape w rp goal). rewrite E. apply in_or_app. right. left. reflexivity. }
    assert (forall l, a <> ALine l) as Hnl by (intros l ->; exact Hshape).
    assert (acts_good T teqb hc hr HPtrue (fun _ => False) w (pre ++ a :: suf)) as Hg.
    { rewrite <- E. apply (clean_acts_good T teqb hc hr teqb_spec). exact Hinv. }
    destruct (acts_good_keep_content _ _ paths w pre a suf c Hinv Hg Hnl Hp) as [H | (p & f & _ & [] & _)].
    exact H.
  Qed.

  (* the literal "same statement" form for clean *)
  Corollary acts_clean_keep_content_general : forall (w : world) rp goal pre a suf paths c,
    disk_inv w ->
    clean_acts w rp goal = pre ++ a :: suf ->
    (forall l, a <> ALine l) ->
    protected_content paths (run_acts pre w) c ->
    protected_content paths (run_acts (pre ++ [a]) w) c
    \/ exists p f, ~ In p paths /\ fget (run_acts pre w) p = None /\
                   fget (run_acts (pre ++ [a]) w) p = Some f /\ f_content f = c.
  Proof. intros w rp goal pre a suf paths c Hinv E _ Hp. left. eapply acts_clean_keep_content; eauto. Qed.
End ActsContent.
