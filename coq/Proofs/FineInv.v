(* FINE, part 3: the invariant of Proofs/SchedInv.v generalised to the states of Model/Fine.v, in which a rule thread
   can be anywhere between two operations on the cache. A worker that is done agrees with the order-independent
   specification (SchedInv.node_spec / leaf_spec, literally SchedInv.node_inv on the projection of the state); a
   worker in a middle phase has received its tickets, holds the entry of its history for them (or knows there is
   none), and every target it has already decided on is as decided: AlreadyCorrect / Recovered => the target has the
   remembered hash (the cache is content-addressed whoever put the entry there), no entry => the target is absent.
   Nobody else touches its targets. Every step of every worker preserves this (finv_step), so it holds along every
   run; in a state in which everybody is done it is SchedInv.winv. *)
From Coq Require Import Relations.Relation_Operators Relations.Operators_Properties.
From Ruler Require Import Tactics Bytes AList RuleSyntax TopoSort World Cmdlang Work Build Ops Inv
     BuildSpec Ideal Sched Fine BytesFacts InvFacts BuildFacts C01Script C01Hist C01Build C01Plan C04Facts
     SchedBasic SchedSerial SchedRule SchedInv FineBasic FineRule.
Local Open Scope nat_scope.

(* a Fine state seen as a Sched state: who has worked, what was sent *)
Definition fproj {T} (st : fnstate T) : sstate T := mk_ss (fn_world st) (fn_sent st) (fn_res st) (fn_commands st).

Lemma firstn_in {A} (l : list A) n x : In x (firstn n l) -> In x l.
Proof. intro H. rewrite <- (firstn_skipn n l). apply in_or_app. left. exact H. Qed.

Lemma firstn_snoc_nth {A} (l : list A) i x : nth_error l i = Some x -> firstn (S i) l = firstn i l ++ [x].
Proof. apply firstn_succ_nth. Qed.

Lemma NoDup_nth_not_in_firstn {A} (l : list A) i x : NoDup l -> nth_error l i = Some x -> ~ In x (firstn i l).
Proof.
  revert i. induction l as [|a l IH]; intros [|i] Hnd Hx; cbn in *; try discriminate; auto.
  inversion Hnd as [|? ? Hnotin Hnd']; subst. intros [-> | Hin].
  - apply Hnotin. eapply nth_error_In; eauto.
  - eapply IH; eauto.
Qed.

Section FineInv.
  Variable T : Type.
  Variable teqb : T -> T -> bool.
  Variable hc : bytes -> T.
  Variable hl : list T -> T.
  Hypothesis teqb_spec : forall a b, teqb a b = true <-> a = b.
  Hypothesis hc_inj : forall a b, hc a = hc b -> a = b.
  Hypothesis hl_inj : forall a b, hl a = hl b -> a = b.

  Notation world := (world T).
  Notation fstate := (fstate T).
  Notation sstate := (sstate T).
  Notation fnstate := (fnstate T).
  Notation wstate := (wstate T).
  Notation state_ok := (state_ok teqb hc).
  Notation disk_inv := (disk_inv teqb hc).
  Notation steps := (clos_refl_trans world (step teqb hc)).
  Notation blob_ok := (InvProofs.blob_ok T teqb hc).
  Notation has_hash := (has_hash T hc).
  Notation src_contents := (src_contents T).
  Notation hist_ok := (hist_ok T teqb hc hl).
  Notation has_worked := (has_worked T).
  Notation hashes := (hashes T hc).
  Notation first_missing := (first_missing T).
  Notation lens := (lens T).
  Notation fstep := (fstep teqb hc hl).
  Notation frun := (frun teqb hc hl).
  Notation rule_tail := (rule_tail T teqb hc).
  Notation phase_of := (phase_of T).
  Notation sent_by := (sent_by T).
  Notation upd_worker := (upd_worker T).
  Notation finish_worker := (finish_worker T).
  Notation set_world := (set_world T).
  Notation wsk := (wsk T).
  Notation resolved_ok := (resolved_ok T hc).
  Notation wdone := (mk_wst T WDone None []).

  Variable w : world.           (* the world the build was started in: only its files matter *)
  Variable w1 : world.          (* the world the workers start in *)
  Variable pack : node_pack.
  Variable blobs : list (blob T).
  Variable hists : list (history T).
  Hypothesis Hinv1 : disk_inv w1.
  Hypothesis Hfiles : forall p, content_at w1 p = content_at w p.
  Hypothesis Hcache1 : cache_of w1 <> None.
  Hypothesis Hwf : plan_wf pack.
  Hypothesis Hdet : Forall det_node (p_nodes pack).
  Hypothesis Hshape : blobs_shaped T pack blobs.
  Hypothesis Hblobs : forall k, blob_ok w1 (nth k blobs []).
  Hypothesis Hhok : forall j nd, nth_error (p_nodes pack) j = Some nd -> hist_ok (n_rule nd) (nth j hists []).

  Let nl := length (p_leaves pack).

  Notation Sat := (Sat T w pack).
  Notation Sfin := (Sfin T w pack).
  Notation node_spec := (node_spec T teqb hc hl pack).
  Notation leaf_spec := (leaf_spec T hc w).
  Notation tgt_world := (tgt_world T w pack).
  Notation leaf_inv := (leaf_inv T hc w).
  Notation node_inv := (node_inv T teqb hc hl w pack hists).
  Notation winv := (winv T teqb hc hl w w1 pack hists).

  (* ---------- the facts of SchedInv about the from-scratch worlds, in this context ---------- *)

  Lemma fSat_target_absent j nd t :
    nth_error (p_nodes pack) j = Some nd -> In t (n_targets nd) -> content_at (Sat j) t = None.
  Proof. eapply Sat_target_absent; eauto. Qed.

  Lemma fSfin_target j nd t :
    nth_error (p_nodes pack) j = Some nd -> In t (n_targets nd) -> content_at Sfin t = content_at (Sat (S j)) t.
  Proof. eapply Sfin_target; eauto. Qed.

  Lemma fSat_earlier i j ndi t :
    i < j -> nth_error (p_nodes pack) i = Some ndi -> In t (n_targets ndi) -> content_at (Sat j) t = content_at Sfin t.
  Proof. eapply Sat_earlier; eauto. Qed.

  (* ================================================================== *)
  (* the invariant                                                        *)
  (* ================================================================== *)

  Definition ftickets (st : fnstate) (nd : node) : option (list T) :=
    all_some (map (sreceived nl (fn_sent st)) (n_source_indices nd)).

  (* a rule thread in a middle phase: it has not reported yet, all its producers have, it has its tickets *)
  Definition mid_common (st : fnstate) (j : nat) (nd : node) : Prop :=
    has_worked (fproj st) (nl + j) = false /\
    (forall d, In d (deps pack (nl + j)) -> has_worked (fproj st) d = true) /\
    exists tickets, ftickets st nd = Some tickets /\ wst_key T (wsk st (nl + j)) = Some (hl tickets).

  (* the history has an entry for the tickets; targets < i are decided as `done` says *)
  Definition hit_inv (key : option T) (rem : list fstate) (wld : world) (j : nat) (nd : node)
             (done : list resolution) (i : nat) : Prop :=
    (exists k, key = Some k /\ alookup teqb (nth j hists []) k = Some rem) /\
    length rem = length (n_targets nd) /\ length done = i /\ i <= length (n_targets nd) /\
    resolved_ok wld (firstn i (n_targets nd)) rem done.

  (* the history has no entry for the tickets; targets < i are out of the way *)
  Definition miss_inv (key : option T) (wld : world) (j : nat) (nd : node) (i : nat) : Prop :=
    (exists k, key = Some k /\ alookup teqb (nth j hists []) k = None) /\ i <= length (n_targets nd) /\
    forall t, In t (firstn i (n_targets nd)) -> content_at wld t = None.

  Definition phase_inv (st : fnstate) (j : nat) (nd : node) : Prop :=
    let ws := wsk st (nl + j) in
    match wst_phase T ws with
    | WWait => has_worked (fproj st) (nl + j) = false /\
               forall t, In t (n_targets nd) -> content_at (fn_world st) t = content_at w t
    | WResolve done i => mid_common st j nd /\ hit_inv (wst_key T ws) (wst_rem T ws) (fn_world st) j nd done i
    | WCheck done i =>
        mid_common st j nd /\ hit_inv (wst_key T ws) (wst_rem T ws) (fn_world st) j nd done i /\ i < length (n_targets nd)
    | WRename done i =>
        mid_common st j nd /\ hit_inv (wst_key T ws) (wst_rem T ws) (fn_world st) j nd done i /\ i < length (n_targets nd)
    | WFresh i => mid_common st j nd /\ miss_inv (wst_key T ws) (fn_world st) j nd i
    | WFinish (Some ress) =>
        mid_common st j nd /\ hit_inv (wst_key T ws) (wst_rem T ws) (fn_world st) j nd ress (length (n_targets nd))
    | WFinish None => mid_common st j nd /\ miss_inv (wst_key T ws) (fn_world st) j nd (length (n_targets nd))
    | WDone => has_worked (fproj st) (nl + j) = true /\ node_inv (fproj st) j nd
    end.

  Definition leaf_phase (st : fnstate) (i : nat) : Prop :=
    (phase_of st i = WDone /\ has_worked (fproj st) i = true) \/
    (phase_of st i = WWait /\ has_worked (fproj st) i = false).

  Record finv (st : fnstate) : Prop := mk_finv {
    fi_len_w : length (fn_workers st) = nworkers pack;
    fi_lens : lens pack (fproj st);
    fi_steps : steps w1 (fn_world st);
    fi_cache : cache_of (fn_world st) <> None;
    fi_frame : forall p, ~ In p (plan_targets pack) -> content_at (fn_world st) p = content_at w p;
    fi_sent : forall k, sent_by st k = has_worked (fproj st) k;
    fi_leaf : forall i l, nth_error (p_leaves pack) i = Some l -> leaf_inv (fproj st) i l /\ leaf_phase st i;
    fi_node : forall j nd, nth_error (p_nodes pack) j = Some nd -> phase_inv st j nd
  }.

  (* ---------- the initial state ---------- *)

  Lemma init_unworked k : has_worked (fproj (fn_init T w1 pack)) k = false.
  Proof. exact (st_init_unworked T w1 pack k). Qed.

  Lemma init_wsk k : k < nworkers pack -> wsk (fn_init T w1 pack) k = mk_wst T WWait None [].
  Proof. intro H. unfold FineBasic.wsk, fn_init. cbn [fn_workers]. apply nth_repeat_lt. exact H. Qed.

  Lemma node_index_lt j nd : nth_error (p_nodes pack) j = Some nd -> nl + j < nworkers pack.
  Proof.
    intro H. assert (j < length (p_nodes pack)) by (apply nth_error_Some; rewrite H; discriminate).
    unfold nworkers. fold nl. lia.
  Qed.

  Lemma leaf_index_lt i l : nth_error (p_leaves pack) i = Some l -> i < nl /\ i < nworkers pack.
  Proof.
    intro H. assert (i < nl) by (apply nth_error_Some; fold nl; rewrite H; discriminate).
    unfold nworkers. fold nl. lia.
  Qed.

  Lemma finv_init : finv (fn_init T w1 pack).
  Proof.
    constructor.
    - cbn. apply repeat_length.
    - exact (st_init_lens T w1 pack).
    - apply rt_refl.
    - exact Hcache1.
    - intros p _. apply Hfiles.
    - intro k. rewrite init_unworked. unfold Fine.sent_by, fn_init. cbn [fn_sent].
      destruct (Nat.lt_ge_cases k (nworkers pack)) as [H | H].
      + rewrite nth_repeat. reflexivity.
      + rewrite nth_overflow; [reflexivity|]. rewrite repeat_length. exact H.
    - intros i l Hl. split.
      + intro H. rewrite init_unworked in H. discriminate.
      + right. split; [|apply init_unworked]. rewrite phase_of_wsk, init_wsk; [reflexivity|].
        apply (leaf_index_lt _ _ Hl).
    - intros j nd Hn. unfold phase_inv. rewrite init_wsk by (eapply node_index_lt; eauto). cbn [wst_phase].
      split; [apply init_unworked|]. intros t _. apply Hfiles.
  Qed.

  (* ---------- reading the invariant ---------- *)

  Lemma phase_inv_worked st j nd :
    phase_inv st j nd -> has_worked (fproj st) (nl + j) = true -> node_inv (fproj st) j nd.
  Proof.
    unfold phase_inv. intros H Hw.
    destruct (wst_phase T (wsk st (nl + j))) as [|done i|done i|done i|i|[ress|]|];
      try (destruct H as [[H _] _]; congruence).
    - destruct H as [H _]. congruence.
    - exact (proj2 H).
  Qed.

  Lemma phase_inv_unworked st j nd :
    phase_inv st j nd -> wst_phase T (wsk st (nl + j)) <> WDone -> has_worked (fproj st) (nl + j) = false.
  Proof.
    unfold phase_inv. intros H Hnd.
    destruct (wst_phase T (wsk st (nl + j))) as [|done i|done i|done i|i|[ress|]|];
      try (destruct H as [[H _] _]; exact H).
    - exact (proj1 H).
    - contradiction.
  Qed.

  Lemma phase_inv_done st j nd :
    phase_inv st j nd -> wst_phase T (wsk st (nl + j)) = WDone -> has_worked (fproj st) (nl + j) = true.
  Proof. unfold phase_inv. intros H E. rewrite E in H. exact (proj1 H). Qed.

  (* every worker: done exactly when it has reported *)
  Lemma finv_done_iff st k :
    finv st -> k < nworkers pack -> (phase_of st k = WDone <-> has_worked (fproj st) k = true).
  Proof.
    intros Hf Hk. destruct (Nat.lt_ge_cases k nl) as [Hlt | Hge].
    - destruct (nth_error (p_leaves pack) k) as [l|] eqn:El; [|apply nth_error_None in El; fold nl in El; lia].
      destruct (fi_leaf _ Hf k l El) as [_ [[E1 E2] | [E1 E2]]]; rewrite E1, E2; split; congruence.
    - set (j := k - nl). assert (k = nl + j) as Ek by lia.
      destruct (nth_error (p_nodes pack) j) as [nd|] eqn:En;
        [|apply nth_error_None in En; unfold nworkers in Hk; fold nl in Hk; lia].
      pose proof (fi_node _ Hf j nd En) as Hp. rewrite Ek, phase_of_wsk. split.
      + apply (phase_inv_done st j nd Hp).
      + intro Hw. destruct (wst_phase T (wsk st (nl + j))) eqn:E; try reflexivity;
          (rewrite (phase_inv_unworked st j nd Hp) in Hw; [discriminate | rewrite E; discriminate]).
  Qed.

  (* ---------- what a node receives (as SchedInv.source_received) ---------- *)

  Lemma f_source_received st j s si tk :
    finv st -> bind_ok pack j s si -> has_worked (fproj st) (si_dep nl si) = true ->
    sreceived nl (fn_sent st) si = Some tk ->
    has_hash (fn_world st) s tk /\ content_at (fn_world st) s = content_at (Sat j) s.
  Proof.
    intros Hf Hb Hd Hr. destruct si as [i | i sub]; cbn [bind_ok si_dep sreceived] in *.
    - destruct (fi_leaf _ Hf i s Hb) as [Hli _]. destruct (Hli Hd) as [Hs _]. cbn [fproj ss_sent] in Hs.
      rewrite Hs in Hr. unfold SchedInv.leaf_spec in Hr.
      assert (In s (p_leaves pack)) as Hin by (eapply nth_error_In; eauto).
      pose proof (leaf_not_target pack Hwf _ Hin) as Hnt.
      destruct (content_at w s) as [c|] eqn:Ec; cbn [fst] in Hr; [|discriminate]. injection Hr as <-.
      rewrite (fi_frame _ Hf s Hnt), (Sat_nontarget T w pack Hdet j s Hnt). split; [|reflexivity].
      exists c. split; [rewrite (fi_frame _ Hf s Hnt); exact Ec | reflexivity].
    - destruct Hb as (Hlt & n' & Hn' & Hsub). fold nl in Hd, Hr.
      pose proof (phase_inv_worked st i n' (fi_node _ Hf i n' Hn') Hd) as [_ Hwk].
      destruct (Hwk Hd) as (_ & Hs & _ & Hc & Hfh). cbn [fproj ss_sent ss_world] in Hs, Hc, Hfh.
      fold nl in Hs. rewrite Hs in Hr.
      destruct (fst (node_spec (Sat i) (fn_sent st) n' (nth i hists []))) as [ts|] eqn:Efst; [|discriminate].
      pose proof (node_spec_sent_ok _ _ _ _ _ _ _ _ _ _ Efst) as Eok. rewrite Eok in Hc. cbn [SchedInv.tgt_world] in Hc.
      assert (In s (n_targets n')) as Hin by (eapply nth_error_In; eauto).
      split.
      + exact (Forall2_nth_error _ _ _ (Hfh ts eq_refl) _ _ _ Hsub Hr).
      + rewrite (Hc s Hin). symmetry. eapply fSat_earlier; eauto.
  Qed.

  Lemma f_sources_received st j : forall srcs idxs,
    finv st -> Forall2 (bind_ok pack j) srcs idxs ->
    (forall si, In si idxs -> has_worked (fproj st) (si_dep nl si) = true) ->
    forall tickets, all_some (map (sreceived nl (fn_sent st)) idxs) = Some tickets ->
      Forall2 (has_hash (fn_world st)) srcs tickets /\
      forall s, In s srcs -> content_at (fn_world st) s = content_at (Sat j) s.
  Proof.
    intros srcs idxs Hf Hb. induction Hb as [|s si srcs idxs Hb1 _ IH]; intros Hd tickets; cbn [map all_some].
    - intro H. injection H as <-. split; [constructor | intros s []].
    - destruct (sreceived nl (fn_sent st) si) as [tk|] eqn:Er; [|discriminate].
      destruct (all_some (map (sreceived nl (fn_sent st)) idxs)) as [tks|] eqn:Ea; [|discriminate].
      intro H. injection H as <-.
      destruct (IH (fun si' H' => Hd si' (or_intror H')) _ eq_refl) as [I1 I2].
      destruct (f_source_received st j s si tk Hf Hb1 (Hd si (or_introl eq_refl)) Er) as [H1 H2].
      split; [constructor; assumption|]. intros s' [<- | Hs']; auto.
  Qed.

  (* the sources of a rule thread whose producers have reported: present, with the contents of the from-scratch
     world, and the key is their hash *)
  Lemma node_sources st j nd tickets :
    finv st -> nth_error (p_nodes pack) j = Some nd ->
    (forall d, In d (deps pack (nl + j)) -> has_worked (fproj st) d = true) ->
    ftickets st nd = Some tickets ->
    exists cs, tickets = map hc cs /\ src_contents (fn_world st) (r_sources (n_rule nd)) cs /\
               src_contents (Sat j) (r_sources (n_rule nd)) cs.
  Proof.
    intros Hf Hn Hdeps Htk. destruct (plan_node_facts pack j nd Hwf Hn) as (_ & _ & Hbind).
    assert (forall si, In si (n_source_indices nd) -> has_worked (fproj st) (si_dep nl si) = true) as Hdeps'.
    { intros si Hsi. apply Hdeps. unfold nl. rewrite (deps_node pack j nd Hn). apply in_map. exact Hsi. }
    destruct (f_sources_received st j _ _ Hf Hbind Hdeps' _ Htk) as [Hhash HsrcS].
    destruct (src_contents_of_hashes T hc _ _ _ Hhash) as (cs & Hcs & ->).
    exists cs. split; [reflexivity|]. split; [exact Hcs|].
    eapply src_contents_transport; [|exact Hcs]. intros s Hs. symmetry. apply HsrcS. exact Hs.
  Qed.

  (* ================================================================== *)
  (* a step of worker k0, seen by the others                              *)
  (* ================================================================== *)

  Record fframe (k0 : nat) (st st' : fnstate) : Prop := mk_fframe {
    ff_ws : forall k, k <> k0 -> wsk st' k = wsk st k;
    ff_sent : forall k, k <> k0 -> nth k (fn_sent st') None = nth k (fn_sent st) None;
    ff_res : forall k, k <> k0 -> nth k (fn_res st') None = nth k (fn_res st) None;
    ff_unw : has_worked (fproj st) k0 = false;
    ff_tgt : forall j nd, nth_error (p_nodes pack) j = Some nd -> nl + j <> k0 ->
               forall t, In t (n_targets nd) -> content_at (fn_world st') t = content_at (fn_world st) t
  }.

  Lemma ff_worked k0 st st' k : fframe k0 st st' -> k <> k0 -> has_worked (fproj st') k = has_worked (fproj st) k.
  Proof. intros F Hne. unfold Sched.has_worked. cbn [fproj ss_res]. rewrite (ff_res _ _ _ F k Hne). reflexivity. Qed.

  Lemma ff_worked_mono k0 st st' k :
    fframe k0 st st' -> has_worked (fproj st) k = true -> has_worked (fproj st') k = true.
  Proof.
    intros F H. rewrite (ff_worked k0 st st' k F); [exact H|]. intros ->. rewrite (ff_unw _ _ _ F) in H. discriminate.
  Qed.

  Lemma ff_deps_sent k0 st st' j nd :
    fframe k0 st st' -> nth_error (p_nodes pack) j = Some nd ->
    (forall d, In d (deps pack (nl + j)) -> has_worked (fproj st) d = true) ->
    forall si, In si (n_source_indices nd) ->
      nth (si_dep nl si) (fn_sent st') None = nth (si_dep nl si) (fn_sent st) None.
  Proof.
    intros F Hn Hdeps si Hsi. apply (ff_sent _ _ _ F). intros E.
    assert (has_worked (fproj st) k0 = true) as X; [|rewrite (ff_unw _ _ _ F) in X; discriminate].
    rewrite <- E. apply Hdeps. unfold nl. rewrite (deps_node pack j nd Hn). apply in_map. exact Hsi.
  Qed.

  Lemma others_mid_common k0 st st' j nd :
    fframe k0 st st' -> nth_error (p_nodes pack) j = Some nd -> nl + j <> k0 ->
    mid_common st j nd -> mid_common st' j nd.
  Proof.
    intros F Hn Hne (Hu & Hd & tk & Htk & Hkey). split; [|split].
    - rewrite (ff_worked _ _ _ _ F Hne). exact Hu.
    - intros d Hin. eapply ff_worked_mono; eauto.
    - exists tk. split.
      + unfold ftickets in *. rewrite <- Htk. apply tickets_ext. exact (ff_deps_sent _ _ _ _ _ F Hn Hd).
      + rewrite (ff_ws _ _ _ F _ Hne). exact Hkey.
  Qed.

  Lemma hit_inv_world key rem (wld wld' : world) j nd done i :
    (forall t, In t (firstn i (n_targets nd)) -> content_at wld' t = content_at wld t) ->
    hit_inv key rem wld j nd done i -> hit_inv key rem wld' j nd done i.
  Proof.
    intros E (H1 & H2 & H3 & H4 & H5). repeat split; try assumption.
    eapply resolved_ok_content; [exact E | exact H5].
  Qed.

  Lemma miss_inv_world key (wld wld' : world) j nd i :
    (forall t, In t (firstn i (n_targets nd)) -> content_at wld' t = content_at wld t) ->
    miss_inv key wld j nd i -> miss_inv key wld' j nd i.
  Proof. intros E (H1 & H2 & H3). repeat split; try assumption. intros t Ht. rewrite (E t Ht). apply H3. exact Ht. Qed.

  Lemma others_node_inv k0 st st' j nd :
    fframe k0 st st' -> nth_error (p_nodes pack) j = Some nd -> nl + j <> k0 ->
    has_worked (fproj st) (nl + j) = true -> node_inv (fproj st) j nd -> node_inv (fproj st') j nd.
  Proof.
    intros F Hn Hne Hj [_ Hd]. fold nl in Hd. destruct (Hd Hj) as (D1 & D2 & D3 & D4 & D5).
    cbn [fproj ss_sent ss_res ss_world] in D2, D3, D4, D5.
    assert (node_spec (Sat j) (fn_sent st') nd (nth j hists []) = node_spec (Sat j) (fn_sent st) nd (nth j hists [])) as Esp.
    { apply node_spec_ext. exact (ff_deps_sent _ _ _ _ _ F Hn D1). }
    unfold SchedInv.node_inv. fold nl. rewrite (ff_worked _ _ _ _ F Hne). split; [intro X; congruence|]. intros _.
    cbn [fproj ss_sent ss_res ss_world]. rewrite Esp, (ff_sent _ _ _ F _ Hne), (ff_res _ _ _ F _ Hne).
    split; [|split; [|split; [|split]]].
    - intros d Hin. eapply ff_worked_mono; eauto.
    - exact D2.
    - exact D3.
    - intros t Ht. rewrite (ff_tgt _ _ _ F j nd Hn Hne t Ht). apply D4. exact Ht.
    - intros ts E. eapply Forall2_impl_in; [|exact (D5 ts E)]. intros t tk Ht Hh. cbn in *.
      eapply has_hash_content; [|exact Hh]. apply (ff_tgt _ _ _ F j nd Hn Hne t Ht).
  Qed.

  Lemma others_phase k0 st st' j nd :
    fframe k0 st st' -> nth_error (p_nodes pack) j = Some nd -> nl + j <> k0 ->
    phase_inv st j nd -> phase_inv st' j nd.
  Proof.
    intros F Hn Hne. unfold phase_inv. rewrite (ff_ws _ _ _ F _ Hne).
    assert (forall i t, In t (firstn i (n_targets nd)) -> content_at (fn_world st') t = content_at (fn_world st) t) as Hfr.
    { intros i t Ht. apply (ff_tgt _ _ _ F j nd Hn Hne). eapply firstn_in; eauto. }
    pose proof (others_mid_common k0 st st' j nd F Hn Hne) as Hmc.
    destruct (wst_phase T (wsk st (nl + j))) as [|done i|done i|done i|i|[ress|]|].
    - intros [H1 H2]. split; [rewrite (ff_worked _ _ _ _ F Hne); exact H1|].
      intros t Ht. rewrite (ff_tgt _ _ _ F j nd Hn Hne t Ht). apply H2. exact Ht.
    - intros [H1 H2]. split; [auto|]. eapply hit_inv_world; [apply Hfr | exact H2].
    - intros (H1 & H2 & H3). split; [auto|]. split; [|exact H3]. eapply hit_inv_world; [apply Hfr | exact H2].
    - intros (H1 & H2 & H3). split; [auto|]. split; [|exact H3]. eapply hit_inv_world; [apply Hfr | exact H2].
    - intros [H1 H2]. split; [auto|]. eapply miss_inv_world; [apply Hfr | exact H2].
    - intros [H1 H2]. split; [auto|]. eapply hit_inv_world; [apply Hfr | exact H2].
    - intros [H1 H2]. split; [auto|]. eapply miss_inv_world; [apply Hfr | exact H2].
    - intros [H1 H2]. split; [rewrite (ff_worked _ _ _ _ F Hne); exact H1|].
      eapply others_node_inv; eauto.
  Qed.

  Lemma others_leaf k0 st st' i l :
    fframe k0 st st' -> i <> k0 -> leaf_inv (fproj st) i l /\ leaf_phase st i ->
    leaf_inv (fproj st') i l /\ leaf_phase st' i.
  Proof.
    intros F Hne [H1 H2]. split.
    - unfold SchedInv.leaf_inv. rewrite (ff_worked _ _ _ _ F Hne). cbn [fproj ss_sent ss_res].
      rewrite (ff_sent _ _ _ F _ Hne), (ff_res _ _ _ F _ Hne). exact H1.
    - unfold leaf_phase. rewrite !phase_of_wsk, (ff_ws _ _ _ F _ Hne), (ff_worked _ _ _ _ F Hne).
      rewrite <- phase_of_wsk. exact H2.
  Qed.

  Lemma sent_by_nth (st st' : fnstate) k : nth k (fn_sent st') None = nth k (fn_sent st) None -> sent_by st' k = sent_by st k.
  Proof. unfold Fine.sent_by. intros ->. reflexivity. Qed.

  (* putting a state together again after a step of worker k0 *)
  Lemma finv_assemble k0 st st' :
    finv st -> fframe k0 st st' ->
    length (fn_workers st') = nworkers pack -> lens pack (fproj st') ->
    steps (fn_world st) (fn_world st') -> cache_of (fn_world st') <> None ->
    (forall p, ~ In p (plan_targets pack) -> content_at (fn_world st') p = content_at (fn_world st) p) ->
    sent_by st' k0 = has_worked (fproj st') k0 ->
    (forall l, nth_error (p_leaves pack) k0 = Some l -> leaf_inv (fproj st') k0 l /\ leaf_phase st' k0) ->
    (forall j nd, nth_error (p_nodes pack) j = Some nd -> nl + j = k0 -> phase_inv st' j nd) ->
    finv st'.
  Proof.
    intros Hf F Hlw Hl Hs Hc Hfr Hsent Hleaf Hnode. constructor; try assumption.
    - eapply rt_trans; [exact (fi_steps _ Hf) | exact Hs].
    - intros p Hp. rewrite (Hfr p Hp). apply (fi_frame _ Hf). exact Hp.
    - intro k. destruct (Nat.eq_dec k k0) as [-> | Hne]; [exact Hsent|].
      rewrite (sent_by_nth st st' k (ff_sent _ _ _ F k Hne)), (ff_worked _ _ _ _ F Hne). apply (fi_sent _ Hf).
    - intros i l Hi. destruct (Nat.eq_dec i k0) as [-> | Hne]; [apply Hleaf; exact Hi|].
      eapply others_leaf; eauto. apply (fi_leaf _ Hf). exact Hi.
    - intros j nd Hn. destruct (Nat.eq_dec (nl + j) k0) as [E | Hne]; [apply Hnode; assumption|].
      eapply others_phase; eauto. apply (fi_node _ Hf). exact Hn.
  Qed.

  (* only the targets of node j0 differ: the other nodes' targets and everything outside the plan are as before *)
  Lemma frame_from_node j0 nd0 (wld wld' : world) :
    nth_error (p_nodes pack) j0 = Some nd0 ->
    (forall q, ~ In q (n_targets nd0) -> content_at wld' q = content_at wld q) ->
    (forall p, ~ In p (plan_targets pack) -> content_at wld' p = content_at wld p) /\
    (forall j nd, nth_error (p_nodes pack) j = Some nd -> nl + j <> nl + j0 ->
                  forall t, In t (n_targets nd) -> content_at wld' t = content_at wld t).
  Proof.
    intros Hn H. split.
    - intros p Hp. apply H. intro X. apply Hp. eapply node_target_in_plan; eauto.
    - intros j nd Hn' Hne t Ht. apply H. apply (plan_targets_disjoint pack j j0 nd nd0 t Hwf Hn' Hn); [lia | exact Ht].
  Qed.

  (* a rule thread moves between two phases without reporting *)
  Lemma finv_goto st st' j0 nd0 ws' :
    finv st -> nth_error (p_nodes pack) j0 = Some nd0 ->
    fn_workers st' = set_nth (nl + j0) ws' (fn_workers st) -> fn_sent st' = fn_sent st -> fn_res st' = fn_res st ->
    has_worked (fproj st) (nl + j0) = false ->
    steps (fn_world st) (fn_world st') -> cache_of (fn_world st') <> None ->
    (forall q, ~ In q (n_targets nd0) -> content_at (fn_world st') q = content_at (fn_world st) q) ->
    phase_inv st' j0 nd0 -> finv st'.
  Proof.
    intros Hf Hn Ew Es Er Hu Hs Hc Hfr Hown.
    destruct (frame_from_node j0 nd0 _ _ Hn Hfr) as [Hfr1 Hfr2].
    apply (finv_assemble (nl + j0) st st'); try assumption.
    - constructor; try assumption.
      + intros k Hne. unfold FineBasic.wsk. rewrite Ew. apply nth_set_nth_neq. exact Hne.
      + intros k _. rewrite Es. reflexivity.
      + intros k _. rewrite Er. reflexivity.
    - rewrite Ew, set_nth_length. apply (fi_len_w _ Hf).
    - unfold SchedBasic.lens. cbn [fproj ss_sent ss_res]. rewrite Es, Er. apply (fi_lens _ Hf).
    - unfold Fine.sent_by, Sched.has_worked. cbn [fproj ss_res]. rewrite Es, Er. apply (fi_sent _ Hf).
    - intros l Hl. exfalso. destruct (leaf_index_lt _ _ Hl). lia.
    - intros j nd Hn' E. assert (j = j0) by lia. subst j. rewrite Hn in Hn'. injection Hn' as <-. exact Hown.
  Qed.

  Lemma finish_fframe st k0 w' o res script :
    has_worked (fproj st) k0 = false ->
    (forall j nd, nth_error (p_nodes pack) j = Some nd -> nl + j <> k0 ->
                  forall t, In t (n_targets nd) -> content_at w' t = content_at (fn_world st) t) ->
    fframe k0 st (finish_worker st k0 w' o res script).
  Proof.
    intros Hu Ht. constructor; try assumption.
    - intros k Hne. apply finish_worker_other. exact Hne.
    - intros k Hne. cbn. apply nth_set_nth_neq. exact Hne.
    - intros k Hne. cbn. apply nth_set_nth_neq. exact Hne.
  Qed.

  Lemma finish_worked st k0 w' o res script :
    finv st -> k0 < nworkers pack -> has_worked (fproj (finish_worker st k0 w' o res script)) k0 = true.
  Proof.
    intros Hf Hk. destruct (fi_lens _ Hf) as [_ Hl]. cbn [fproj ss_res] in Hl.
    unfold Sched.has_worked. cbn [fproj Fine.finish_worker ss_res fn_res]. rewrite nth_set_nth_eq by lia. reflexivity.
  Qed.

  Lemma finish_sent st k0 w' o res script :
    finv st -> k0 < nworkers pack -> sent_by (finish_worker st k0 w' o res script) k0 = true.
  Proof.
    intros Hf Hk. destruct (fi_lens _ Hf) as [Hl _]. cbn [fproj ss_sent] in Hl.
    unfold Fine.sent_by. cbn [Fine.finish_worker fn_sent]. rewrite nth_set_nth_eq by lia. reflexivity.
  Qed.

  (* a rule thread ends *)
  Lemma finv_finish_node st j0 nd0 w' o res script :
    finv st -> nth_error (p_nodes pack) j0 = Some nd0 -> has_worked (fproj st) (nl + j0) = false ->
    steps (fn_world st) w' -> cache_of w' <> None ->
    (forall q, ~ In q (n_targets nd0) -> content_at w' q = content_at (fn_world st) q) ->
    phase_inv (finish_worker st (nl + j0) w' o res script) j0 nd0 ->
    finv (finish_worker st (nl + j0) w' o res script).
  Proof.
    intros Hf Hn Hu Hs Hc Hfr Hown. pose proof (node_index_lt _ _ Hn) as Hk.
    destruct (frame_from_node j0 nd0 _ _ Hn Hfr) as [Hfr1 Hfr2].
    apply (finv_assemble (nl + j0) st); try assumption.
    - apply finish_fframe; assumption.
    - cbn. rewrite set_nth_length. apply (fi_len_w _ Hf).
    - unfold SchedBasic.lens. cbn. rewrite !set_nth_length. apply (fi_lens _ Hf).
    - rewrite finish_sent, finish_worked by assumption. reflexivity.
    - intros l Hl. exfalso. destruct (leaf_index_lt _ _ Hl). lia.
    - intros j nd Hn' E. assert (j = j0) by lia. subst j. rewrite Hn in Hn'. injection Hn' as <-. exact Hown.
  Qed.

  (* a leaf thread ends *)
  Lemma finv_finish_leaf st i l o res :
    finv st -> nth_error (p_leaves pack) i = Some l -> has_worked (fproj st) i = false ->
    leaf_inv (fproj (finish_worker st i (fn_world st) o res [])) i l ->
    finv (finish_worker st i (fn_world st) o res []).
  Proof.
    intros Hf Hl Hu Hown. destruct (leaf_index_lt _ _ Hl) as [Hlt Hk].
    apply (finv_assemble i st); try assumption.
    - apply finish_fframe; [assumption|]. intros; reflexivity.
    - cbn. rewrite set_nth_length. apply (fi_len_w _ Hf).
    - unfold SchedBasic.lens. cbn. rewrite !set_nth_length. apply (fi_lens _ Hf).
    - apply rt_refl.
    - exact (fi_cache _ Hf).
    - intros; reflexivity.
    - rewrite finish_sent, finish_worked by assumption. reflexivity.
    - intros l' Hl'. rewrite Hl in Hl'. injection Hl' as <-. split; [exact Hown|]. left.
      split; [|apply finish_worked; assumption].
      rewrite phase_of_wsk, finish_worker_self; [reflexivity|]. rewrite (fi_len_w _ Hf). exact Hk.
    - intros j nd Hn E. exfalso. lia.
  Qed.

  (* ================================================================== *)
  (* the worker that moves: preliminaries                                 *)
  (* ================================================================== *)

  Lemma cur_inv st : finv st -> disk_inv (fn_world st).
  Proof. intro Hf. exact (inv_steps T teqb hc teqb_spec _ _ Hinv1 (fi_steps _ Hf)). Qed.

  Lemma cur_blob st k : finv st -> blob_ok (fn_world st) (nth k blobs []).
  Proof. intro Hf. exact (blob_steps T teqb hc teqb_spec _ _ _ Hinv1 (fi_steps _ Hf) (Hblobs k)). Qed.

  Lemma node_blob_fst j nd : nth_error (p_nodes pack) j = Some nd -> map fst (nth (nl + j) blobs []) = n_targets nd.
  Proof. intro Hn. exact (blobs_shaped_node T pack blobs j nd Hshape Hn). Qed.

  Lemma node_blob_nth j nd i p a :
    nth_error (p_nodes pack) j = Some nd -> nth_error (nth (nl + j) blobs []) i = Some (p, a) ->
    nth_error (n_targets nd) i = Some p.
  Proof. intros Hn E. rewrite <- (node_blob_fst j nd Hn), nth_error_map, E. reflexivity. Qed.

  Lemma node_blob_none j nd i :
    nth_error (p_nodes pack) j = Some nd -> nth_error (nth (nl + j) blobs []) i = None -> length (n_targets nd) <= i.
  Proof. intros Hn E. apply nth_error_None in E. rewrite <- (node_blob_fst j nd Hn), map_length. exact E. Qed.

  Lemma node_blob_length j nd : nth_error (p_nodes pack) j = Some nd -> length (nth (nl + j) blobs []) = length (n_targets nd).
  Proof. intro Hn. rewrite <- (node_blob_fst j nd Hn), map_length. reflexivity. Qed.

  Lemma ltb_node j : Nat.ltb (nl + j) (length (p_leaves pack)) = false.
  Proof. apply Nat.ltb_ge. unfold nl. lia. Qed.

  Lemma sub_node j : nl + j - length (p_leaves pack) = j.
  Proof. unfold nl. lia. Qed.

  Lemma hit_inv_snoc key rem (wld : world) j nd done i p r res :
    hit_inv key rem wld j nd done i -> nth_error (n_targets nd) i = Some p -> nth_error rem i = Some r ->
    (res <> NeedsRebuild -> has_hash wld p (fs_t r)) ->
    hit_inv key rem wld j nd (done ++ [res]) (S i).
  Proof.
    intros (H1 & H2 & H3 & H4 & H5) Hp Hr Hh.
    assert (i < length (n_targets nd)) as Hi by (apply nth_error_Some; rewrite Hp; discriminate).
    split; [exact H1|]. split; [exact H2|]. split; [rewrite app_length, H3; cbn; lia|]. split; [lia|].
    rewrite (firstn_snoc_nth _ _ _ Hp). eapply resolved_ok_snoc; [exact H5 | | exact Hh].
    rewrite firstn_length_le by lia. exact Hr.
  Qed.

  Lemma miss_inv_snoc key (wld : world) j nd i p :
    miss_inv key wld j nd i -> nth_error (n_targets nd) i = Some p -> content_at wld p = None ->
    miss_inv key wld j nd (S i).
  Proof.
    intros (H1 & H2 & H3) Hp Hn.
    assert (i < length (n_targets nd)) as Hi by (apply nth_error_Some; rewrite Hp; discriminate).
    split; [exact H1|]. split; [lia|]. intros t Ht. rewrite (firstn_snoc_nth _ _ _ Hp) in Ht.
    apply in_app_or in Ht as [Ht | [<- | []]]; [apply H3; exact Ht | exact Hn].
  Qed.

  (* a move inside the middle phases leaves what the thread knows about its tickets *)
  Lemma mid_common_upd st w' j nd ph :
    mid_common st j nd -> nl + j < length (fn_workers st) ->
    mid_common (upd_worker (set_world st w') (nl + j)
                  (mk_wst T ph (wst_key T (wsk st (nl + j))) (wst_rem T (wsk st (nl + j))))) j nd.
  Proof.
    intros (Hu & Hd & tk & Htk & Hkey) Hk. split; [exact Hu|]. split; [exact Hd|]. exists tk. split; [exact Htk|].
    rewrite upd_worker_self by exact Hk. exact Hkey.
  Qed.

  Lemma own_phase_upd st w' k ws' :
    k < length (fn_workers st) -> wsk (upd_worker (set_world st w') k ws') k = ws'.
  Proof. intro Hk. apply upd_worker_self. exact Hk. Qed.

  (* the result of a rule thread that ends, as the specification says: the state afterwards *)
  Lemma own_done st j nd w' o tr script :
    finv st -> nth_error (p_nodes pack) j = Some nd -> has_worked (fproj st) (nl + j) = false ->
    (forall d, In d (deps pack (nl + j)) -> has_worked (fproj st) d = true) ->
    o = fst (node_spec (Sat j) (fn_sent st) nd (nth j hists [])) ->
    kind_of tr = snd (node_spec (Sat j) (fn_sent st) nd (nth j hists [])) ->
    (forall t, In t (n_targets nd) ->
       content_at w' t = content_at (tgt_world (snd (node_spec (Sat j) (fn_sent st) nd (nth j hists [])))) t) ->
    (forall ts, fst (node_spec (Sat j) (fn_sent st) nd (nth j hists [])) = Some ts ->
                Forall2 (has_hash w') (n_targets nd) ts) ->
    phase_inv (finish_worker st (nl + j) w' o (Some (n_rule nd), tr) script) j nd.
  Proof.
    intros Hf Hn Hu Hdeps Ho Htr Hc Hfh. pose proof (node_index_lt _ _ Hn) as Hk.
    destruct (fi_lens _ Hf) as [Hl1 Hl2]. cbn [fproj ss_sent ss_res] in Hl1, Hl2.
    pose proof (finish_worked st (nl + j) w' o (Some (n_rule nd), tr) script Hf Hk) as Hwk.
    unfold phase_inv. rewrite finish_worker_self by (rewrite (fi_len_w _ Hf); exact Hk). cbn [wst_phase].
    split; [exact Hwk|]. unfold SchedInv.node_inv. fold nl. rewrite Hwk. split; [discriminate|]. intros _.
    assert (node_spec (Sat j) (set_nth (nl + j) (Some o) (fn_sent st)) nd (nth j hists []) =
            node_spec (Sat j) (fn_sent st) nd (nth j hists [])) as Esp.
    { apply node_spec_ext. intros si Hsi. apply nth_set_nth_neq. intro E. fold nl in E.
      assert (has_worked (fproj st) (nl + j) = true) as X; [|congruence].
      rewrite <- E. apply Hdeps. unfold nl. rewrite (deps_node pack j nd Hn). apply in_map. exact Hsi. }
    cbn [fproj Fine.finish_worker ss_sent ss_res ss_world fn_sent fn_res fn_world]. rewrite Esp.
    rewrite !nth_set_nth_eq by lia.
    split; [|split; [|split; [|split]]].
    - intros d Hd. destruct (Nat.eq_dec d (nl + j)) as [-> | Hne]; [exact Hwk|].
      unfold Sched.has_worked. cbn [fproj Fine.finish_worker ss_res fn_res]. rewrite nth_set_nth_neq by exact Hne.
      apply Hdeps. exact Hd.
    - rewrite Ho. reflexivity.
    - eexists. split; [reflexivity | exact Htr].
    - exact Hc.
    - exact Hfh.
  Qed.

  (* ================================================================== *)
  (* the last step of a rule thread gives what the specification says     *)
  (* ================================================================== *)

  Lemma tail_spec st j nd ro key res w' script :
    finv st -> nth_error (p_nodes pack) j = Some nd ->
    wst_phase T (wsk st (nl + j)) = WFinish ro -> wst_key T (wsk st (nl + j)) = Some key ->
    rule_tail (fn_world st) (nth (nl + j) blobs []) (nth j hists []) key (n_command nd)
              (match ro with Some r => r | None => map (fun _ => NeedsRebuild) (nth (nl + j) blobs []) end)
    = (res, w', script) ->
    steps (fn_world st) w' /\ cache_of w' <> None /\
    (forall q, ~ In q (n_targets nd) -> content_at w' q = content_at (fn_world st) q) /\
    res_sent T res = fst (node_spec (Sat j) (fn_sent st) nd (nth j hists [])) /\
    kind_of (res_tr T res) = snd (node_spec (Sat j) (fn_sent st) nd (nth j hists [])) /\
    (forall t, In t (n_targets nd) ->
       content_at w' t = content_at (tgt_world (snd (node_spec (Sat j) (fn_sent st) nd (nth j hists [])))) t) /\
    (forall ts, fst (node_spec (Sat j) (fn_sent st) nd (nth j hists [])) = Some ts ->
                Forall2 (has_hash w') (n_targets nd) ts).
  Proof.
    intros Hf Hn Eph Ekey Htail. pose proof (fi_node _ Hf j nd Hn) as Hp. unfold phase_inv in Hp. rewrite Eph in Hp.
    set (wc := fn_world st) in *. set (b := nth (nl + j) blobs []) in *. set (h := nth j hists []) in *.
    pose proof (det_node_nth pack Hdet _ _ Hn) as (Hdr & Etg & Ecmd). set (r := n_rule nd) in *.
    destruct (plan_node_facts pack j nd Hwf Hn) as (Hnd & Hself & Hbind). fold r in Hself, Hbind.
    pose proof (cur_inv st Hf) as Hinv. pose proof (cur_blob st (nl + j) Hf) as Hb. fold wc in Hinv, Hb. fold b in Hb.
    pose proof (node_blob_fst j nd Hn) as Hfst. fold b in Hfst.
    pose proof (Hhok j nd Hn) as Hh. fold r h in Hh.
    pose proof (fi_cache _ Hf) as Hcache. fold wc in Hcache.
    assert (exists tk, mid_common st j nd /\ ftickets st nd = Some tk /\ key = hl tk) as (tk & Hmc & Htk & ->).
    { destruct ro as [ress|]; destruct Hp as [Hmc _]; pose proof Hmc as (_ & _ & tk & Htk & Hkey);
        exists tk; (split; [exact Hmc|]); (split; [exact Htk|]); congruence. }
    destruct Hmc as (Hu & Hdeps & _).
    destruct (node_sources st j nd tk Hf Hn Hdeps Htk) as (cs & -> & Hcs & HcsS). fold wc r in Hcs. fold r in HcsS.
    rewrite Etg in Hfst, Hnd, Hself. rewrite Ecmd in Htail.
    pose proof Hdr as [Hconf Hreads].
    unfold SchedInv.node_spec. fold nl. unfold ftickets in Htk. fold nl in Htk. rewrite Htk. cbv zeta. rewrite Etg, Ecmd. fold h.
    pose proof (Sat_succ T w pack j nd Hn) as ES. rewrite Ecmd in ES.
    assert (forall t, In t (r_targets r) -> content_at Sfin t = content_at (Sat (S j)) t) as HSfin.
    { intros t Ht. eapply fSfin_target; [exact Hn | rewrite Etg; exact Ht]. }
    destruct ro as [ress|].
    - (* an entry for the key *)
      destruct Hp as (_ & ((k & Ek & El) & Hlr & Hld & _ & R)). rewrite Ekey in Ek. injection Ek as <-. fold h in El.
      rewrite firstn_all, Etg in R. rewrite El.
      destruct (rule_tail_hit T teqb hc hl teqb_spec hc_inj wc b h cs r Hinv Hb Hfst Hdr Hcs Hh Hcache _ _ _ _ _ El R Htail)
        as (N1 & N2 & N3 & wr & -> & R3 & R4).
      cbn [fst snd res_sent res_tr kind_of SchedInv.tgt_world]. rewrite <- ES.
      assert (forall t, In t (r_targets r) -> content_at w' t = content_at (Sat (S j)) t) as Hcont.
      { intros t Ht. rewrite ES. apply R4; assumption. }
      split; [exact N1|]. split; [exact N2|]. split; [exact N3|].
      split; [f_equal; apply (hashes_of_has_hash T hc w'); assumption|]. split; [reflexivity|].
      split; [intros t Ht; rewrite (HSfin t Ht); apply Hcont; exact Ht|].
      intros ts E. injection E as <-.
      rewrite <- (hashes_of_has_hash T hc w' (Sat (S j)) _ _ R3 Hcont). exact R3.
    - (* no entry: the thread has displaced every target; the rest is handle_rule from absent targets *)
      destruct Hp as (_ & ((k & Ek & El) & _ & Habs)). rewrite Ekey in Ek. injection Ek as <-. fold h in El.
      rewrite firstn_all, Etg in Habs. fold wc in Habs. rewrite El.
      rewrite (rule_tail_fresh T teqb hc wc b h _ _ El) in Htail by (rewrite Hfst; exact Habs).
      pose proof (InvProofs.handle_rule_steps T teqb hc teqb_spec _ _ _ _ _ _ _ _ Hinv Hb Htail) as Hsteps.
      pose proof (handle_rule_cache T teqb hc hl teqb_spec hc_inj _ _ _ _ _ Hfst Hcs Hh Hcache _ _ _ Htail) as Hcache'.
      destruct (C01Hist.handle_rule_frame T teqb hc teqb_spec _ _ _ _ _ _ _ _ Hinv Hb Hfst Hnd Hconf Htail) as [F _].
      split; [exact Hsteps|]. split; [exact Hcache'|]. split; [exact F|].
      destruct (list_eq_dec bytes_dec (r_targets r) []) as [Hempty | Hne].
      + destruct (handle_rule_miss_empty T teqb hc hl _ _ _ _ _ Hb Hfst _ _ _ El Hempty Htail) as (-> & wr & -> & Etk).
        rewrite Hempty. cbn [fst snd res_sent res_tr kind_of SchedInv.tgt_world]. rewrite Etk.
        split; [reflexivity|]. split; [reflexivity|]. split; [intros t []|].
        intros ts E. injection E as <-. constructor.
      + rewrite (match_nonempty _ _ _ Hne).
        assert (forall t, In t (r_targets r) -> content_at (Sat j) t = None) as HabsS.
        { intros t Ht. eapply fSat_target_absent; [exact Hn | rewrite Etg; exact Ht]. }
        destruct (handle_rule_miss T teqb hc hl teqb_spec _ _ _ _ _ Hinv Hb Hfst Hdr Hself Hcs Hcache
                    _ _ _ (Sat j) El Hne HcsS HabsS Htail) as [Hcont Hres].
        rewrite <- ES in *.
        assert (forall kd, kd <> KCanceled ->
                  forall t, In t (r_targets r) -> content_at w' t = content_at (tgt_world kd) t) as Hc2.
        { intros kd Hkd t Ht. destruct kd; try contradiction; cbn [SchedInv.tgt_world]; rewrite (HSfin t Ht); apply Hcont; exact Ht. }
        destruct (command_verdict (fst (run_script (Sat j) (script_lines (r_command r))))) as [e|].
        * subst res. cbn [fst snd res_sent res_tr kind_of].
          split; [reflexivity|]. split; [reflexivity|]. split; [apply Hc2; discriminate | discriminate].
        * destruct (first_missing (Sat (S j)) (r_targets r)) as [p|].
          -- subst res. cbn [fst snd res_sent res_tr kind_of].
             split; [reflexivity|]. split; [reflexivity|]. split; [apply Hc2; discriminate | discriminate].
          -- destruct Hres as (wr & -> & Hts). cbn [fst snd res_sent res_tr kind_of].
             split; [f_equal; apply (hashes_of_has_hash T hc w'); assumption|]. split; [reflexivity|].
             split; [apply Hc2; discriminate|].
             intros ts E. injection E as <-.
             rewrite <- (hashes_of_has_hash T hc w' (Sat (S j)) _ _ Hts Hcont). exact Hts.
  Qed.

  (* ================================================================== *)
  (* every step of every worker preserves the invariant                   *)
  (* ================================================================== *)

  Ltac open_fstep H Hn Eph :=
    unfold Fine.fstep in H; cbv zeta in H; rewrite ltb_node, sub_node, Hn in H;
    let E := fresh "E" in pose proof Eph as E; unfold FineBasic.wsk in E; rewrite E in H; clear E.

  Lemma node_worker_lt st j nd : finv st -> nth_error (p_nodes pack) j = Some nd -> nl + j < length (fn_workers st).
  Proof. intros Hf Hn. rewrite (fi_len_w _ Hf). eapply node_index_lt; eauto. Qed.

  (* a leaf thread *)
  Lemma step_leaf st i l st' :
    finv st -> nth_error (p_leaves pack) i = Some l -> fstep pack blobs hists st i = Some st' -> finv st'.
  Proof.
    intros Hf Hl H. destruct (leaf_index_lt _ _ Hl) as [Hlt Hk].
    destruct (fi_leaf _ Hf i l Hl) as [_ [[E1 E2] | [E1 E2]]].
    { rewrite (fstep_done T teqb hc hl _ _ _ _ _ E1) in H. discriminate. }
    unfold Fine.fstep in H. cbv zeta in H. assert (Nat.ltb i (length (p_leaves pack)) = true) as Eltb by (apply Nat.ltb_lt; exact Hlt).
    rewrite Eltb in H. unfold Fine.phase_of in E1. rewrite E1 in H.
    pose proof (blobs_shaped_leaf T pack blobs i l Hshape Hl) as Hfst.
    pose proof (cur_blob st i Hf) as Hb.
    assert (In l (p_leaves pack)) as Hin by (eapply nth_error_In; eauto).
    pose proof (fi_frame _ Hf l (leaf_not_target pack Hwf _ Hin)) as Hfr.
    assert (res_sent T (handle_leaf teqb hc (fn_world st) (nth i blobs [])) = fst (leaf_spec l) /\
            kind_of (res_tr T (handle_leaf teqb hc (fn_world st) (nth i blobs []))) = snd (leaf_spec l)) as [L1 L2].
    { destruct (nth i blobs []) as [|[p a] [|x rest]]; try discriminate. cbn in Hfst. injection Hfst as ->.
      apply InvProofs.blob_ok_cons in Hb as [Hok _].
      unfold handle_leaf, SchedInv.leaf_spec. cbn [current_tickets].
      destruct (get_file_ticket teqb hc (fn_world st) l a) as [t|] eqn:Eg.
      - destruct (gft_hash T teqb hc _ _ _ _ Hok Eg) as (c & Hc & ->). rewrite <- Hfr, Hc. split; reflexivity.
      - apply gft_none in Eg. rewrite <- Hfr, Eg. split; reflexivity. }
    destruct (fi_lens _ Hf) as [Hl1 Hl2]. cbn [fproj ss_sent ss_res] in Hl1, Hl2.
    assert (forall o tr, o = fst (leaf_spec l) -> kind_of tr = snd (leaf_spec l) ->
              finv (finish_worker st i (fn_world st) o (None, tr) [])) as Hgo.
    { intros o tr Ho Htr. apply (finv_finish_leaf st i l); try assumption.
      intros _. cbn [fproj Fine.finish_worker ss_sent ss_res fn_sent fn_res]. rewrite !nth_set_nth_eq by lia.
      split; [rewrite Ho; reflexivity|]. eexists. split; [reflexivity | exact Htr]. }
    destruct (handle_leaf teqb hc (fn_world st) (nth i blobs [])) as [wr|e]; injection H as <-; apply Hgo; assumption.
  Qed.

  (* a rule thread starts: it takes its tickets and looks into its history *)
  Lemma step_wait st j nd st' :
    finv st -> nth_error (p_nodes pack) j = Some nd -> wst_phase T (wsk st (nl + j)) = WWait ->
    fstep pack blobs hists st (nl + j) = Some st' -> finv st'.
  Proof.
    intros Hf Hn Eph H. pose proof (fi_node _ Hf j nd Hn) as Hp. unfold phase_inv in Hp. rewrite Eph in Hp.
    destruct Hp as [Hu Hcont]. pose proof (node_worker_lt st j nd Hf Hn) as Hk.
    open_fstep H Hn Eph.
    destruct (forallb (sent_by st) (deps pack (nl + j))) eqn:Ed; cbn [negb] in H; [|discriminate].
    assert (forall d, In d (deps pack (nl + j)) -> has_worked (fproj st) d = true) as Hdeps.
    { intros d Hd. rewrite <- (fi_sent _ Hf). rewrite forallb_forall in Ed. apply Ed. exact Hd. }
    fold nl in H. fold (ftickets st nd) in H.
    destruct (ftickets st nd) as [tk|] eqn:Etk.
    - destruct (node_sources st j nd tk Hf Hn Hdeps Etk) as (cs & -> & Hcs & HcsS).
      pose proof (det_node_nth pack Hdet _ _ Hn) as (Hdr & Etg & Ecmd).
      assert (forall ph rem, mid_common (upd_worker st (nl + j) (mk_wst T ph (Some (hl (map hc cs))) rem)) j nd) as Hmc.
      { intros ph rem. split; [exact Hu|]. split; [exact Hdeps|]. exists (map hc cs). split; [exact Etk|].
        rewrite upd_worker_self by exact Hk. reflexivity. }
      destruct (alookup teqb (nth j hists []) (hl (map hc cs))) as [rem|] eqn:El; injection H as <-.
      + apply (finv_goto st _ j nd (mk_wst T (WResolve [] 0) (Some (hl (map hc cs))) rem)); try assumption; try reflexivity.
        * apply rt_refl.
        * exact (fi_cache _ Hf).
        * unfold phase_inv. rewrite upd_worker_self by exact Hk. cbn [wst_phase wst_key wst_rem].
          split; [apply Hmc|]. split; [exists (hl (map hc cs)); split; [reflexivity | exact El]|].
          destruct (Hhok j nd Hn _ _ El (fn_world st) cs Hcs eq_refl) as [_ F0]. apply Forall2_len in F0.
          split; [rewrite Etg; symmetry; exact F0|]. split; [reflexivity|]. split; [lia|]. exact I.
      + apply (finv_goto st _ j nd (mk_wst T (WFresh 0) (Some (hl (map hc cs))) [])); try assumption; try reflexivity.
        * apply rt_refl.
        * exact (fi_cache _ Hf).
        * unfold phase_inv. rewrite upd_worker_self by exact Hk. cbn [wst_phase wst_key wst_rem].
          split; [apply Hmc|]. split; [exists (hl (map hc cs)); split; [reflexivity | exact El]|].
          split; [lia|]. intros t [].
    - injection H as <-.
      assert (node_spec (Sat j) (fn_sent st) nd (nth j hists []) = (None, KCanceled)) as Ecan.
      { unfold SchedInv.node_spec. fold nl. unfold ftickets in Etk. rewrite Etk. reflexivity. }
      apply (finv_finish_node st j nd); try assumption.
      + apply rt_refl.
      + exact (fi_cache _ Hf).
      + reflexivity.
      + apply own_done; try assumption; rewrite Ecan; cbn [fst snd SchedInv.tgt_world]; auto. discriminate.
  Qed.

  (* the common part of a move inside the middle phases *)
  Lemma goto_finv st j nd w' ph :
    finv st -> nth_error (p_nodes pack) j = Some nd -> has_worked (fproj st) (nl + j) = false ->
    steps (fn_world st) w' -> cache_of w' <> None ->
    (forall q, ~ In q (n_targets nd) -> content_at w' q = content_at (fn_world st) q) ->
    phase_inv (upd_worker (set_world st w') (nl + j)
                 (mk_wst T ph (wst_key T (wsk st (nl + j))) (wst_rem T (wsk st (nl + j))))) j nd ->
    finv (upd_worker (set_world st w') (nl + j) (mk_wst T ph (wst_key T (wsk st (nl + j))) (wst_rem T (wsk st (nl + j))))).
  Proof. intros Hf Hn Hu Hs Hc Hfr Hown. eapply (finv_goto st _ j nd); eauto; reflexivity. Qed.

  Lemma goto_same_finv st j nd ph :
    finv st -> nth_error (p_nodes pack) j = Some nd -> has_worked (fproj st) (nl + j) = false ->
    phase_inv (upd_worker (set_world st (fn_world st)) (nl + j)
                 (mk_wst T ph (wst_key T (wsk st (nl + j))) (wst_rem T (wsk st (nl + j))))) j nd ->
    finv (upd_worker (set_world st (fn_world st)) (nl + j)
            (mk_wst T ph (wst_key T (wsk st (nl + j))) (wst_rem T (wsk st (nl + j))))).
  Proof.
    intros Hf Hn Hu Hown. apply (goto_finv st j nd); try assumption; [apply rt_refl | exact (fi_cache _ Hf) | reflexivity].
  Qed.

  Lemma target_state_ok st j i p a :
    finv st -> nth_error (nth (nl + j) blobs []) i = Some (p, a) -> state_ok (fn_world st) a.
  Proof. intros Hf E. apply (cur_blob st (nl + j) Hf p a). eapply nth_error_In; eauto. Qed.

  Lemma back_up_possible st p a cur :
    finv st -> get_file_ticket teqb hc (fn_world st) p a = Some cur -> back_up teqb (fn_world st) cur p <> None.
  Proof. intros Hf Eg. apply back_up_some; [exact (fi_cache _ Hf) | eapply gft_some_fget; eauto]. Qed.

  (* displacing target i: the world afterwards *)
  Lemma back_up_facts st j nd i p a cur w1' :
    finv st -> nth_error (p_nodes pack) j = Some nd -> nth_error (nth (nl + j) blobs []) i = Some (p, a) ->
    get_file_ticket teqb hc (fn_world st) p a = Some cur -> back_up teqb (fn_world st) cur p = Some w1' ->
    steps (fn_world st) w1' /\ cache_of w1' <> None /\ content_at w1' p = None /\
    (forall q, ~ In q (n_targets nd) -> content_at w1' q = content_at (fn_world st) q) /\
    (forall t, In t (firstn i (n_targets nd)) -> content_at w1' t = content_at (fn_world st) t).
  Proof.
    intros Hf Hn Eb Eg Ebk. pose proof (node_blob_nth j nd i p a Hn Eb) as Hp.
    destruct (plan_node_facts pack j nd Hwf Hn) as (Hnd & _ & _).
    destruct (back_up_content T teqb _ _ _ _ Ebk) as (B1 & B2 & _).
    split; [eapply InvProofs.back_up_steps; eauto; eapply target_state_ok; eauto|].
    split; [eapply back_up_cache; eauto|]. split; [exact B1|]. split.
    - intros q Hq. apply B2. intros ->. apply Hq. eapply nth_error_In; eauto.
    - intros t Ht. apply B2. intros ->. exact (NoDup_nth_not_in_firstn _ _ _ Hnd Hp Ht).
  Qed.

  Lemma step_resolve st j nd done i st' :
    finv st -> nth_error (p_nodes pack) j = Some nd -> wst_phase T (wsk st (nl + j)) = WResolve done i ->
    fstep pack blobs hists st (nl + j) = Some st' -> finv st'.
  Proof.
    intros Hf Hn Eph H. pose proof (fi_node _ Hf j nd Hn) as Hp. unfold phase_inv in Hp. rewrite Eph in Hp.
    destruct Hp as [Hmc Hhit]. pose proof Hmc as (Hu & _). pose proof (node_worker_lt st j nd Hf Hn) as Hk.
    pose proof Hhit as (_ & Hlr & _ & Hi & _).
    open_fstep H Hn Eph.
    destruct (nth_error (nth (nl + j) blobs []) i) as [[p a]|] eqn:Eb.
    - pose proof (node_blob_nth j nd i p a Hn Eb) as Hpi.
      assert (i < length (n_targets nd)) as Hlt by (apply nth_error_Some; rewrite Hpi; discriminate).
      fold (wsk st (nl + j)) in H.
      destruct (nth_error (wst_rem T (wsk st (nl + j))) i) as [r|] eqn:Er.
      2:{ exfalso. apply nth_error_None in Er. lia. }
      destruct (get_file_ticket teqb hc (fn_world st) p a) as [cur|] eqn:Eg.
      + destruct (teqb (fs_t r) cur) eqn:Et.
        * injection H as <-. apply (goto_same_finv st j nd); try assumption.
          unfold phase_inv. rewrite own_phase_upd by exact Hk. cbn [wst_phase wst_key wst_rem Fine.upd_worker Fine.set_world fn_world].
          split; [apply mid_common_upd; assumption|].
          eapply hit_inv_snoc; eauto. intros _. apply teqb_spec in Et. rewrite Et.
          eapply gft_hash; eauto. eapply target_state_ok; eauto.
        * destruct (back_up teqb (fn_world st) cur p) as [w1'|] eqn:Ebk.
          2:{ exfalso. eapply back_up_possible; eauto. }
          injection H as <-.
          destruct (back_up_facts st j nd i p a cur w1' Hf Hn Eb Eg Ebk) as (B1 & B2 & B3 & B4 & B5).
          apply (goto_finv st j nd); try assumption.
          unfold phase_inv. rewrite own_phase_upd by exact Hk. cbn [wst_phase wst_key wst_rem Fine.upd_worker Fine.set_world fn_world].
          split; [apply mid_common_upd; assumption|]. split; [|exact Hlt].
          eapply hit_inv_world; [exact B5 | exact Hhit].
      + injection H as <-. apply (goto_same_finv st j nd); try assumption.
        unfold phase_inv. rewrite own_phase_upd by exact Hk. cbn [wst_phase wst_key wst_rem Fine.upd_worker Fine.set_world fn_world].
        split; [apply mid_common_upd; assumption|]. split; [exact Hhit | exact Hlt].
    - pose proof (node_blob_none j nd i Hn Eb) as Hge. assert (i = length (n_targets nd)) as Ei by lia.
      injection H as <-. apply (goto_same_finv st j nd); try assumption.
      unfold phase_inv. rewrite own_phase_upd by exact Hk. cbn [wst_phase wst_key wst_rem Fine.upd_worker Fine.set_world fn_world].
      split; [apply mid_common_upd; assumption|]. rewrite <- Ei. exact Hhit.
  Qed.

  Lemma step_check st j nd done i st' :
    finv st -> nth_error (p_nodes pack) j = Some nd -> wst_phase T (wsk st (nl + j)) = WCheck done i ->
    fstep pack blobs hists st (nl + j) = Some st' -> finv st'.
  Proof.
    intros Hf Hn Eph H. pose proof (fi_node _ Hf j nd Hn) as Hp. unfold phase_inv in Hp. rewrite Eph in Hp.
    destruct Hp as (Hmc & Hhit & Hlt). pose proof Hmc as (Hu & _). pose proof (node_worker_lt st j nd Hf Hn) as Hk.
    pose proof Hhit as (_ & Hlr & _ & Hi & _).
    open_fstep H Hn Eph. fold (wsk st (nl + j)) in H.
    destruct (nth_error (wst_rem T (wsk st (nl + j))) i) as [r|] eqn:Er.
    2:{ exfalso. apply nth_error_None in Er. lia. }
    destruct (cache_of (fn_world st)) as [c|] eqn:Ec.
    2:{ exfalso. apply (fi_cache _ Hf). exact Ec. }
    destruct (nth_error (n_targets nd) i) as [p|] eqn:Epi.
    2:{ exfalso. apply nth_error_None in Epi. lia. }
    destruct (alookup teqb c (fs_t r)); injection H as <-; apply (goto_same_finv st j nd); try assumption;
      unfold phase_inv; rewrite own_phase_upd by exact Hk; cbn [wst_phase wst_key wst_rem Fine.upd_worker Fine.set_world fn_world].
    - split; [apply mid_common_upd; assumption|]. split; assumption.
    - split; [apply mid_common_upd; assumption|]. eapply hit_inv_snoc; eauto. intro X. contradiction.
  Qed.

  Lemma step_rename st j nd done i st' :
    finv st -> nth_error (p_nodes pack) j = Some nd -> wst_phase T (wsk st (nl + j)) = WRename done i ->
    fstep pack blobs hists st (nl + j) = Some st' -> finv st'.
  Proof.
    intros Hf Hn Eph H. pose proof (fi_node _ Hf j nd Hn) as Hp. unfold phase_inv in Hp. rewrite Eph in Hp.
    destruct Hp as (Hmc & Hhit & Hlt). pose proof Hmc as (Hu & _). pose proof (node_worker_lt st j nd Hf Hn) as Hk.
    pose proof Hhit as (_ & Hlr & _ & Hi & _).
    open_fstep H Hn Eph. fold (wsk st (nl + j)) in H.
    destruct (nth_error (nth (nl + j) blobs []) i) as [[p a]|] eqn:Eb.
    2:{ exfalso. pose proof (node_blob_none j nd i Hn Eb). lia. }
    pose proof (node_blob_nth j nd i p a Hn Eb) as Hpi.
    destruct (nth_error (wst_rem T (wsk st (nl + j))) i) as [r|] eqn:Er.
    2:{ exfalso. apply nth_error_None in Er. lia. }
    destruct (plan_node_facts pack j nd Hwf Hn) as (Hnd & _ & _).
    destruct (restore teqb (fn_world st) (fs_t r) p) as [w1'| |] eqn:Ers.
    - injection H as <-.
      destruct (restore_content T teqb _ _ _ _ Ers) as ((c & f & Ec & Ef & Hcp) & Hq & _).
      assert (has_hash w1' p (fs_t r)) as Hh.
      { exists (f_content f). split; [exact Hcp|]. destruct (cur_inv st Hf) as (_ & _ & _ & Ha & _). eapply Ha; eauto. }
      apply (goto_finv st j nd); try assumption.
      + eapply InvProofs.restore_steps; eauto.
      + apply InvProofs.restore_inv in Ers as (c' & f' & _ & _ & ->). apply cache_set_cache.
      + intros q Hnq. apply Hq. intros ->. apply Hnq. eapply nth_error_In; eauto.
      + unfold phase_inv. rewrite own_phase_upd by exact Hk. cbn [wst_phase wst_key wst_rem Fine.upd_worker Fine.set_world fn_world].
        split; [apply mid_common_upd; assumption|].
        eapply hit_inv_snoc; eauto.
        eapply hit_inv_world; [|exact Hhit]. intros t Ht. apply Hq. intros ->.
        exact (NoDup_nth_not_in_firstn _ _ _ Hnd Hpi Ht).
    - injection H as <-. apply (goto_same_finv st j nd); try assumption.
      unfold phase_inv. rewrite own_phase_upd by exact Hk. cbn [wst_phase wst_key wst_rem Fine.upd_worker Fine.set_world fn_world].
      split; [apply mid_common_upd; assumption|]. eapply hit_inv_snoc; eauto. intro X. contradiction.
    - exfalso. unfold restore in Ers. destruct (cache_of (fn_world st)) as [c|] eqn:Ec.
      + destruct (alookup teqb c (fs_t r)); discriminate.
      + apply (fi_cache _ Hf). exact Ec.
  Qed.

  Lemma step_fresh st j nd i st' :
    finv st -> nth_error (p_nodes pack) j = Some nd -> wst_phase T (wsk st (nl + j)) = WFresh i ->
    fstep pack blobs hists st (nl + j) = Some st' -> finv st'.
  Proof.
    intros Hf Hn Eph H. pose proof (fi_node _ Hf j nd Hn) as Hp. unfold phase_inv in Hp. rewrite Eph in Hp.
    destruct Hp as (Hmc & Hmiss). pose proof Hmc as (Hu & _). pose proof (node_worker_lt st j nd Hf Hn) as Hk.
    pose proof Hmiss as (_ & Hi & _).
    open_fstep H Hn Eph. fold (wsk st (nl + j)) in H.
    destruct (nth_error (nth (nl + j) blobs []) i) as [[p a]|] eqn:Eb.
    - pose proof (node_blob_nth j nd i p a Hn Eb) as Hpi.
      destruct (get_file_ticket teqb hc (fn_world st) p a) as [cur|] eqn:Eg.
      + destruct (back_up teqb (fn_world st) cur p) as [w1'|] eqn:Ebk.
        2:{ exfalso. eapply back_up_possible; eauto. }
        injection H as <-.
        destruct (back_up_facts st j nd i p a cur w1' Hf Hn Eb Eg Ebk) as (B1 & B2 & B3 & B4 & B5).
        apply (goto_finv st j nd); try assumption.
        unfold phase_inv. rewrite own_phase_upd by exact Hk. cbn [wst_phase wst_key wst_rem Fine.upd_worker Fine.set_world fn_world].
        split; [apply mid_common_upd; assumption|].
        eapply miss_inv_snoc; eauto. eapply miss_inv_world; [exact B5 | exact Hmiss].
      + injection H as <-. apply (goto_same_finv st j nd); try assumption.
        unfold phase_inv. rewrite own_phase_upd by exact Hk. cbn [wst_phase wst_key wst_rem Fine.upd_worker Fine.set_world fn_world].
        split; [apply mid_common_upd; assumption|].
        eapply miss_inv_snoc; eauto. eapply gft_none; eauto.
    - pose proof (node_blob_none j nd i Hn Eb) as Hge. assert (i = length (n_targets nd)) as Ei by lia.
      injection H as <-. apply (goto_same_finv st j nd); try assumption.
      unfold phase_inv. rewrite own_phase_upd by exact Hk. cbn [wst_phase wst_key wst_rem Fine.upd_worker Fine.set_world fn_world].
      split; [apply mid_common_upd; assumption|]. rewrite <- Ei. exact Hmiss.
  Qed.

  Lemma step_finish st j nd ro st' :
    finv st -> nth_error (p_nodes pack) j = Some nd -> wst_phase T (wsk st (nl + j)) = WFinish ro ->
    fstep pack blobs hists st (nl + j) = Some st' -> finv st'.
  Proof.
    intros Hf Hn Eph H. pose proof (fi_node _ Hf j nd Hn) as Hp. unfold phase_inv in Hp. rewrite Eph in Hp.
    assert (mid_common st j nd) as (Hu & Hdeps & _) by (destruct ro; apply Hp).
    open_fstep H Hn Eph. fold (wsk st (nl + j)) in H.
    destruct (wst_key T (wsk st (nl + j))) as [key|] eqn:Ekey; [|discriminate].
    destruct (rule_tail (fn_world st) (nth (nl + j) blobs []) (nth j hists []) key (n_command nd)
                (match ro with Some r => r | None => map (fun _ => NeedsRebuild) (nth (nl + j) blobs []) end))
      as [[res w'] script] eqn:Et.
    destruct (tail_spec st j nd ro key res w' script Hf Hn Eph Ekey Et) as (N1 & N2 & N3 & N4 & N5 & N6 & N7).
    assert (finv (finish_worker st (nl + j) w' (res_sent T res) (Some (n_rule nd), res_tr T res) script)) as Hgo.
    { apply (finv_finish_node st j nd); try assumption. apply own_done; assumption. }
    destruct res as [wr|e]; injection H as <-; exact Hgo.
  Qed.

  Theorem finv_step st k st' : finv st -> fstep pack blobs hists st k = Some st' -> finv st'.
  Proof.
    intros Hf H. pose proof (fstep_cases T teqb hc hl _ _ _ _ _ _ H) as (Hk & Hnd & _).
    rewrite (fi_len_w _ Hf) in Hk.
    destruct (Nat.lt_ge_cases k nl) as [Hlt | Hge].
    - destruct (nth_error (p_leaves pack) k) as [l|] eqn:El; [|apply nth_error_None in El; fold nl in El; lia].
      eapply step_leaf; eauto.
    - set (j := k - nl). assert (k = nl + j) as Ek by lia.
      destruct (nth_error (p_nodes pack) j) as [nd|] eqn:En;
        [|apply nth_error_None in En; unfold nworkers in Hk; fold nl in Hk; lia].
      rewrite Ek in H, Hnd. rewrite phase_of_wsk in Hnd.
      destruct (wst_phase T (wsk st (nl + j))) as [|done i|done i|done i|i|ro|] eqn:Eph.
      + eapply step_wait; eauto.
      + eapply step_resolve; eauto.
      + eapply step_check; eauto.
      + eapply step_rename; eauto.
      + eapply step_fresh; eauto.
      + eapply step_finish; eauto.
      + contradiction.
  Qed.

  Theorem finv_run ch st : finv st -> finv (frun pack blobs hists ch st).
  Proof. apply (frun_ind T teqb hc hl). intros s k s' Hs E. eapply finv_step; eauto. Qed.

  (* ================================================================== *)
  (* a complete state is a state of SchedInv                              *)
  (* ================================================================== *)

  Lemma finv_all_worked st : finv st -> all_done st = true -> all_worked T pack (fproj st).
  Proof.
    intros Hf Hd k Hk. apply (finv_done_iff st k Hf Hk). apply all_done_phase. exact Hd.
  Qed.

  Lemma finv_winv st : finv st -> all_done st = true -> winv (fproj st).
  Proof.
    intros Hf Hd. pose proof (finv_all_worked st Hf Hd) as Ha. constructor.
    - exact (fi_lens _ Hf).
    - exact (fi_steps _ Hf).
    - exact (fi_cache _ Hf).
    - exact (fi_frame _ Hf).
    - intros i l Hl. apply (fi_leaf _ Hf i l Hl).
    - intros j nd Hn. apply (phase_inv_worked st j nd (fi_node _ Hf j nd Hn)). apply Ha. eapply node_index_lt; eauto.
  Qed.
End FineInv.
