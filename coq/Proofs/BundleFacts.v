(* Facts about Model/Bundle.v: the tab-indented bundle parser never runs out of fuel (R2),
   what it does on flat (unindented) lists of lines (key lemma of R4), and the bundled round trip (R5). *)
From Coq Require Import List Permutation Bool Arith.
From Ruler Require Import Tactics Bytes SortList Bundle BytesFacts SortListFacts.
Import ListNotations.
Local Open Scope N_scope.

(* ------------------------------------------------------------------------------------------ *)
(* The inner loop of parse_level as a stand-alone function, parametrised by the recursive call *)
(* ------------------------------------------------------------------------------------------ *)

Definition entries (rec : nat -> list nline -> result (list pnode) bundle_err) (lvl : nat)
  : nat -> list nline -> list (pnode * nat) -> result (list pnode) bundle_err :=
  fix entries (fuel2 : nat) (ls : list nline) (acc : list (pnode * nat)) {struct fuel2}
  : result (list pnode) bundle_err :=
  match ls with
  | [] => Ok (map fst acc)
  | l :: rest =>
      match fuel2 with
      | O => Err BOutOfFuel
      | S f2 =>
          let (kids, rest') := span_deeper lvl rest in
          let node :=
            match kids with
            | [] => Ok (PLeaf (nl_text l))
            | _ => match rec (S lvl) kids with
                   | Ok cs => Ok (PParent (nl_text l) cs)
                   | Err e => Err e
                   end
            end in
          match node with
          | Err e => Err e
          | Ok nd =>
              match add_to_nodes acc nd (nl_num l) with
              | Err e => Err e
              | Ok acc' => entries f2 rest' acc'
              end
          end
      end
  end.

Lemma parse_level_0 lvl ls : parse_level O lvl ls = Err BOutOfFuel.
Proof. reflexivity. Qed.

Lemma parse_level_S f lvl ls :
  parse_level (S f) lvl ls =
  match ls with
  | [] => Err BEmpty
  | first :: _ =>
      if Nat.eqb (nl_level first) lvl then entries (parse_level f) lvl (length ls) ls []
      else Err (BWrongIndent (nl_num first))
  end.
Proof. destruct ls; reflexivity. Qed.

Lemma entries_nil rec lvl fuel2 acc : entries rec lvl fuel2 [] acc = Ok (map fst acc).
Proof. destruct fuel2; reflexivity. Qed.

Lemma entries_cons rec lvl f2 l rest acc :
  entries rec lvl (S f2) (l :: rest) acc =
  let (kids, rest') := span_deeper lvl rest in
  let node :=
    match kids with
    | [] => Ok (PLeaf (nl_text l))
    | _ => match rec (S lvl) kids with
           | Ok cs => Ok (PParent (nl_text l) cs)
           | Err e => Err e
           end
    end in
  match node with
  | Err e => Err e
  | Ok nd =>
      match add_to_nodes acc nd (nl_num l) with
      | Err e => Err e
      | Ok acc' => entries rec lvl f2 rest' acc'
      end
  end.
Proof. reflexivity. Qed.

(* ---------- span_deeper ---------- *)

Lemma span_deeper_app lvl ls : fst (span_deeper lvl ls) ++ snd (span_deeper lvl ls) = ls.
Proof.
  induction ls as [|l r IH]; cbn [span_deeper]; [reflexivity|].
  destruct (Nat.ltb lvl (nl_level l)); [|reflexivity].
  destruct (span_deeper lvl r) as [a b]; cbn [fst snd app] in *. now rewrite IH.
Qed.

Lemma span_deeper_length lvl ls a b :
  span_deeper lvl ls = (a, b) -> (length a + length b = length ls)%nat.
Proof.
  intros E. pose proof (span_deeper_app lvl ls) as H. rewrite E in H; cbn [fst snd] in H.
  rewrite <- H, app_length. reflexivity.
Qed.

(* ---------- add_to_nodes never reports fuel exhaustion ---------- *)

Lemma add_to_nodes_no_fuel acc n idx : add_to_nodes acc n idx <> Err BOutOfFuel.
Proof.
  induction acc as [|[m i] rest IH]; cbn [add_to_nodes]; [discriminate|].
  destruct (bytes_compare (pnode_name n) (pnode_name m)); [|discriminate|].
  - destruct (same_type m n); discriminate.
  - destruct (add_to_nodes rest n idx) as [rest'|e] eqn:E; [discriminate|].
    intros H; injection H as ->. now apply IH.
Qed.

(* ---------- R2: fuel ---------- *)

Lemma entries_no_fuel rec lvl :
  forall fuel2 ls acc,
    (length ls <= fuel2)%nat ->
    (forall kids, (length kids < length ls)%nat -> rec (S lvl) kids <> Err BOutOfFuel) ->
    entries rec lvl fuel2 ls acc <> Err BOutOfFuel.
Proof.
  induction fuel2 as [|f2 IH]; intros ls acc Hlen Hrec.
  - destruct ls; [discriminate | cbn [length] in Hlen; lia].
  - destruct ls as [|l rest]; [discriminate|].
    rewrite entries_cons.
    destruct (span_deeper lvl rest) as [kids rest'] eqn:Esp.
    apply span_deeper_length in Esp. cbn [length] in Hlen, Hrec.
    assert (Hnode : forall nd, match add_to_nodes acc nd (nl_num l) with
                               | Err e => Err e
                               | Ok acc' => entries rec lvl f2 rest' acc'
                               end <> Err BOutOfFuel).
    { intros nd. destruct (add_to_nodes acc nd (nl_num l)) as [acc'|e] eqn:Ea.
      - apply IH; [lia|]. intros kids' Hk. apply Hrec. lia.
      - intros H; injection H as ->. now apply add_to_nodes_no_fuel in Ea. }
    destruct kids as [|k kids]; [apply Hnode|].
    destruct (rec (S lvl) (k :: kids)) as [cs|e] eqn:Er; [apply Hnode|].
    intros H; injection H as ->. revert Er. apply Hrec. cbn [length] in *. lia.
Qed.

Lemma parse_level_no_fuel :
  forall fuel lvl ls, (length ls < fuel)%nat -> parse_level fuel lvl ls <> Err BOutOfFuel.
Proof.
  induction fuel as [|f IH]; intros lvl ls Hlen; [lia|].
  rewrite parse_level_S. destruct ls as [|first r]; [discriminate|].
  destruct (Nat.eqb (nl_level first) lvl); [|discriminate].
  apply entries_no_fuel; [lia|].
  intros kids Hk. apply IH. lia.
Qed.

Lemma number_from_length n ls : length (number_from n ls) = length ls.
Proof.
  revert n; induction ls as [|l r IH]; intros n; cbn [number_from length]; [reflexivity|].
  destruct (strip_tabs l) as [lv t]. cbn [length]. now rewrite IH.
Qed.

Theorem parse_lines_no_fuel ls : parse_lines ls <> Err BOutOfFuel.
Proof.
  unfold parse_lines.
  destruct (empty_indices 0 (drop_last_empty ls)); [|discriminate].
  apply parse_level_no_fuel. rewrite number_from_length. lia.
Qed.

(* ------------------------------------------------------------------------------------------ *)
(* dedup_sort: the name-sorted duplicate-free list that add_to_nodes builds for leaves          *)
(* ------------------------------------------------------------------------------------------ *)

Fixpoint ins_dedup (x : bytes) (l : list bytes) : list bytes :=
  match l with
  | [] => [x]
  | y :: r => match bytes_compare x y with
              | Lt => x :: l
              | Eq => l
              | Gt => y :: ins_dedup x r
              end
  end.

Definition dedup_sort (l : list bytes) : list bytes :=
  fold_left (fun acc x => ins_dedup x acc) l [].

(* strictly increasing lists of names *)
Inductive SSorted : list bytes -> Prop :=
| SSorted_nil : SSorted []
| SSorted_one x : SSorted [x]
| SSorted_cons x y l : bytes_compare x y = Lt -> SSorted (y :: l) -> SSorted (x :: y :: l).

Lemma SSorted_tail x l : SSorted (x :: l) -> SSorted l.
Proof. inversion 1; subst; [constructor | assumption]. Qed.

Lemma SSorted_head_lt x l : SSorted (x :: l) -> Forall (fun y => bytes_compare x y = Lt) l.
Proof.
  revert x; induction l as [|y l IH]; intros x H; [constructor|].
  inversion H as [| |? ? ? Hxy Hs]; subst. constructor; [exact Hxy|].
  specialize (IH y Hs). eapply Forall_impl; [|exact IH]. intros z Hz.
  eapply bytes_compare_lt_trans; eauto.
Qed.

Lemma bytes_compare_gt_lt a b : bytes_compare a b = Gt -> bytes_compare b a = Lt.
Proof. intros H. rewrite bytes_compare_antisym, H. reflexivity. Qed.

Lemma bytes_compare_lt_irrefl a : bytes_compare a a <> Lt.
Proof. rewrite bytes_compare_refl. discriminate. Qed.

Lemma ins_dedup_in x l y : In y (ins_dedup x l) <-> y = x \/ In y l.
Proof.
  induction l as [|z l IH]; cbn [ins_dedup In].
  - intuition.
  - destruct (bytes_compare x z) eqn:E; cbn [In].
    + apply bytes_compare_eq in E; subst z. intuition.
    + intuition.
    + rewrite IH. intuition.
Qed.

Lemma ins_dedup_sorted x l : SSorted l -> SSorted (ins_dedup x l).
Proof.
  induction l as [|y l IH]; intros H; cbn [ins_dedup]; [constructor|].
  destruct (bytes_compare x y) eqn:E.
  - exact H.
  - constructor; assumption.
  - apply bytes_compare_gt_lt in E.
    specialize (IH (SSorted_tail _ _ H)).
    destruct l as [|z l]; cbn [ins_dedup] in *.
    + constructor; [exact E | constructor].
    + destruct (bytes_compare x z) eqn:Ez.
      * exact H.
      * constructor; [exact E | exact IH].
      * inversion H; subst. constructor; assumption.
Qed.

Lemma fold_ins_dedup_sorted l : forall acc, SSorted acc -> SSorted (fold_left (fun a x => ins_dedup x a) l acc).
Proof.
  induction l as [|x l IH]; intros acc H; cbn [fold_left]; [exact H|].
  apply IH, ins_dedup_sorted, H.
Qed.

Lemma fold_ins_dedup_in l : forall acc y,
  In y (fold_left (fun a x => ins_dedup x a) l acc) <-> In y l \/ In y acc.
Proof.
  induction l as [|x l IH]; intros acc y; cbn [fold_left In]; [intuition|].
  rewrite IH, ins_dedup_in. intuition.
Qed.

Lemma dedup_sort_sorted l : SSorted (dedup_sort l).
Proof. apply fold_ins_dedup_sorted. constructor. Qed.

Lemma dedup_sort_in l y : In y (dedup_sort l) <-> In y l.
Proof. unfold dedup_sort. rewrite fold_ins_dedup_in. cbn [In]. intuition. Qed.

Lemma SSorted_NoDup l : SSorted l -> NoDup l.
Proof.
  induction l as [|x l IH]; intros H; constructor.
  - intros Hin. pose proof (SSorted_head_lt _ _ H) as Hlt.
    rewrite Forall_forall in Hlt. apply Hlt in Hin. now apply bytes_compare_lt_irrefl in Hin.
  - apply IH. eapply SSorted_tail; eauto.
Qed.

Lemma dedup_sort_NoDup l : NoDup (dedup_sort l).
Proof. apply SSorted_NoDup, dedup_sort_sorted. Qed.

(* a strictly sorted list is determined by its set of elements *)
Lemma SSorted_unique l1 : forall l2,
  SSorted l1 -> SSorted l2 -> (forall x, In x l1 <-> In x l2) -> l1 = l2.
Proof.
  induction l1 as [|x l1 IH]; intros l2 H1 H2 Hin.
  - destruct l2 as [|y l2]; [reflexivity|]. exfalso. apply (Hin y). left; reflexivity.
  - destruct l2 as [|y l2]; [exfalso; apply (Hin x); left; reflexivity|].
    pose proof (SSorted_head_lt _ _ H1) as L1. pose proof (SSorted_head_lt _ _ H2) as L2.
    rewrite Forall_forall in L1, L2.
    assert (x = y) as ->.
    { assert (In y (x :: l1)) as Iy by (apply Hin; left; reflexivity).
      assert (In x (y :: l2)) as Ix by (apply Hin; left; reflexivity).
      destruct Iy as [->|Iy]; [reflexivity|]. destruct Ix as [->|Ix]; [reflexivity|].
      apply L1 in Iy. apply L2 in Ix. exfalso.
      apply (bytes_compare_lt_irrefl x). eapply bytes_compare_lt_trans; eauto. }
    f_equal. apply IH; [eapply SSorted_tail; eauto | eapply SSorted_tail; eauto|].
    intros z. split; intros Hz.
    + assert (In z (y :: l2)) as [->|Hz'] by (apply Hin; right; exact Hz); [|exact Hz'].
      apply L1 in Hz. now apply bytes_compare_lt_irrefl in Hz.
    + assert (In z (y :: l1)) as [->|Hz'] by (apply Hin; right; exact Hz); [|exact Hz'].
      apply L2 in Hz. now apply bytes_compare_lt_irrefl in Hz.
Qed.

(* the specification of dedup_sort: THE strictly sorted list with the same elements *)
Theorem dedup_sort_spec l r :
  dedup_sort l = r <-> (SSorted r /\ forall x, In x r <-> In x l).
Proof.
  split.
  - intros <-. split; [apply dedup_sort_sorted | apply dedup_sort_in].
  - intros [Hs Hin]. apply SSorted_unique; [apply dedup_sort_sorted | exact Hs|].
    intros x. rewrite dedup_sort_in, Hin. reflexivity.
Qed.

Lemma dedup_sort_same_elements l1 l2 :
  (forall x, In x l1 <-> In x l2) -> dedup_sort l1 = dedup_sort l2.
Proof.
  intros H. apply dedup_sort_spec. split; [apply dedup_sort_sorted|].
  intros x. rewrite dedup_sort_in. symmetry. apply H.
Qed.

Lemma dedup_sort_perm l1 l2 : Permutation l1 l2 -> dedup_sort l1 = dedup_sort l2.
Proof.
  intros P. apply dedup_sort_same_elements. intros x.
  split; apply Permutation_in; [exact P | apply Permutation_sym, P].
Qed.

Lemma SSorted_Sorted l : SSorted l -> Sorted bytes_leb l.
Proof.
  induction 1 as [|x|x y l Hxy Hs IH]; constructor; [|exact IH].
  unfold bytes_leb. now rewrite Hxy.
Qed.

(* on duplicate-free input it is plain sorting (RuleSyntax.sort_strs) *)
Lemma dedup_sort_NoDup_sort l : NoDup l -> dedup_sort l = sort bytes_leb l.
Proof.
  intros Hnd.
  apply (Sorted_perm_eq bytes_leb bytes_leb_trans bytes_leb_antisym).
  - apply SSorted_Sorted, dedup_sort_sorted.
  - apply sort_sorted; apply bytes_leb_total.
  - transitivity l; [|apply Permutation_sym, sort_perm].
    apply NoDup_Permutation; [apply dedup_sort_NoDup | exact Hnd | apply dedup_sort_in].
Qed.

Lemma dedup_sort_idempotent l : dedup_sort (dedup_sort l) = dedup_sort l.
Proof. apply dedup_sort_same_elements. intros x. apply dedup_sort_in. Qed.

(* ------------------------------------------------------------------------------------------ *)
(* parse_lines on flat input: unindented, non-empty lines                                       *)
(* ------------------------------------------------------------------------------------------ *)

Definition unindented (s : bytes) : Prop := s <> [] /\ hd 0 s <> TAB.

Lemma strip_tabs_unindented s : hd 0 s <> TAB -> strip_tabs s = (O, s).
Proof.
  destruct s as [|c r]; cbn [strip_tabs hd]; [reflexivity|]. intros H.
  destruct (c =? TAB) eqn:E; [apply N.eqb_eq in E; contradiction | reflexivity].
Qed.

Lemma all_tabs_unindented s : unindented s -> all_tabs s = false.
Proof.
  intros [Hne Hhd]. destruct s as [|c r]; [contradiction|]. cbn [all_tabs forallb hd] in *.
  destruct (c =? TAB) eqn:E; [apply N.eqb_eq in E; contradiction | reflexivity].
Qed.

Lemma empty_indices_unindented ls : forall n, Forall unindented ls -> empty_indices n ls = [].
Proof.
  induction ls as [|l r IH]; intros n H; cbn [empty_indices]; [reflexivity|].
  inversion H as [|? ? Hl Hr]; subst. rewrite (all_tabs_unindented _ Hl). now apply IH.
Qed.

Lemma drop_last_empty_nonempty ls : Forall (fun l => l <> []) ls -> drop_last_empty ls = ls.
Proof.
  intros H. unfold drop_last_empty. destruct (rev ls) as [|x r] eqn:E; [reflexivity|].
  assert (In x ls) as Hx by (apply in_rev; rewrite E; left; reflexivity).
  rewrite Forall_forall in H. apply H in Hx. destruct x; [contradiction | reflexivity].
Qed.

Lemma number_from_unindented ls : forall n,
  Forall unindented ls ->
  Forall (fun l => nl_level l = O) (number_from n ls) /\ map nl_text (number_from n ls) = ls.
Proof.
  induction ls as [|l r IH]; intros n H; cbn [number_from map]; [split; constructor|].
  inversion H as [|? ? [Hne Hhd] Hr]; subst. rewrite (strip_tabs_unindented _ Hhd).
  destruct (IH (S n) Hr) as [IH1 IH2]. split; [constructor; [reflexivity | exact IH1]|].
  cbn [map nl_text]. now rewrite IH2.
Qed.

Lemma span_deeper_flat ls : Forall (fun l => nl_level l = O) ls -> span_deeper O ls = ([], ls).
Proof.
  intros H. destruct ls as [|l r]; cbn [span_deeper]; [reflexivity|].
  inversion H as [|? ? Hl Hr]; subst. rewrite Hl. reflexivity.
Qed.

Lemma add_to_nodes_leaf s idx : forall acc names,
  map fst acc = map PLeaf names ->
  exists acc', add_to_nodes acc (PLeaf s) idx = Ok acc' /\ map fst acc' = map PLeaf (ins_dedup s names).
Proof.
  induction acc as [|[m i] rest IH]; intros names H; cbn [add_to_nodes].
  - destruct names; [|discriminate]. eexists; split; [reflexivity|reflexivity].
  - destruct names as [|y names]; [discriminate|]. cbn [map fst] in H. injection H as -> H.
    cbn [pnode_name ins_dedup].
    destruct (bytes_compare s y) eqn:E.
    + cbn [same_type]. eexists; split; [reflexivity|]. cbn [map fst]. now rewrite H.
    + eexists; split; [reflexivity|]. cbn [map fst]. now rewrite H.
    + destruct (IH names H) as (acc' & Ea & Em). rewrite Ea.
      eexists; split; [reflexivity|]. cbn [map fst]. now rewrite Em.
Qed.

Lemma entries_flat rec : forall fuel2 ls acc names,
  (length ls <= fuel2)%nat ->
  Forall (fun l => nl_level l = O) ls ->
  map fst acc = map PLeaf names ->
  entries rec O fuel2 ls acc =
  Ok (map PLeaf (fold_left (fun a x => ins_dedup x a) (map nl_text ls) names)).
Proof.
  induction fuel2 as [|f2 IH]; intros ls acc names Hlen Hflat Hacc.
  - destruct ls; [|cbn [length] in Hlen; lia]. cbn [entries map fold_left]. now rewrite Hacc.
  - destruct ls as [|l rest]; [cbn [entries map fold_left]; now rewrite Hacc|].
    rewrite entries_cons. inversion Hflat as [|? ? Hl Hr]; subst.
    rewrite (span_deeper_flat _ Hr). cbv beta iota zeta.
    destruct (add_to_nodes_leaf (nl_text l) (nl_num l) acc names Hacc) as (acc' & Ea & Em).
    rewrite Ea. cbn [map fold_left]. apply IH; [cbn [length] in Hlen; lia | exact Hr | exact Em].
Qed.

Lemma parse_level_flat f ls :
  ls <> [] -> (length ls <= f)%nat -> Forall (fun l => nl_level l = O) ls ->
  parse_level (S f) O ls = Ok (map PLeaf (dedup_sort (map nl_text ls))).
Proof.
  intros Hne Hlen Hflat. rewrite parse_level_S. destruct ls as [|first r]; [contradiction|].
  inversion Hflat as [|? ? Hl Hr]; subst. rewrite Hl. cbn [Nat.eqb].
  apply (entries_flat _ _ _ [] []); [lia | exact Hflat | reflexivity].
Qed.

(* key lemma of the flat round trip *)
Theorem parse_lines_flat ls :
  ls <> [] -> Forall unindented ls -> parse_lines ls = Ok (map PLeaf (dedup_sort ls)).
Proof.
  intros Hne Hun. unfold parse_lines.
  rewrite drop_last_empty_nonempty by (eapply Forall_impl; [|exact Hun]; intros a [Ha _]; exact Ha).
  rewrite (empty_indices_unindented _ _ Hun).
  destruct (number_from_unindented ls O Hun) as [Hflat Htext].
  rewrite parse_level_flat; [now rewrite Htext| | |exact Hflat].
  - destruct ls; [contradiction|]. cbn [number_from]. destruct (strip_tabs l). discriminate.
  - rewrite number_from_length. lia.
Qed.

Lemma flatten_leaves l : flatten (map PLeaf l) = l.
Proof.
  unfold flatten. induction l as [|x l IH]; cbn [map flat_map flatten_node app]; [reflexivity|].
  now rewrite IH.
Qed.

(* ------------------------------------------------------------------------------------------ *)
(* R5: bundled round trip for forests with pairwise distinct sibling names                      *)
(* ------------------------------------------------------------------------------------------ *)

Definition node_leb (a b : pnode) : bool := bytes_leb (pnode_name a) (pnode_name b).

(* every level sorted by name *)
Fixpoint sort_node (n : pnode) : pnode :=
  match n with
  | PLeaf s => PLeaf s
  | PParent s cs => PParent s (sort node_leb (map sort_node cs))
  end.
Definition sort_forest (ns : list pnode) : list pnode := sort node_leb (map sort_node ns).

(* the (indentation, name) pairs of the lines of a forest, in document order *)
Fixpoint lines_of_node (d : nat) (n : pnode) : list (nat * bytes) :=
  match n with
  | PLeaf s => [(d, s)]
  | PParent s cs => (d, s) :: flat_map (lines_of_node (S d)) cs
  end.
Definition lines_of_forest (d : nat) (ns : list pnode) : list (nat * bytes) :=
  flat_map (lines_of_node d) ns.
Definition render_line (p : nat * bytes) : bytes := repeat TAB (fst p) ++ snd p.
Definition render_forest (ns : list pnode) : list bytes := map render_line (lines_of_forest O ns).

(* names are non-empty and do not start with a tab; directories have children; sibling names differ *)
Inductive good_node : pnode -> Prop :=
| good_leaf s : unindented s -> good_node (PLeaf s)
| good_parent s cs :
    unindented s -> cs <> [] -> NoDup (map pnode_name cs) -> Forall good_node cs ->
    good_node (PParent s cs).
Definition good_forest (ns : list pnode) : Prop :=
  ns <> [] /\ NoDup (map pnode_name ns) /\ Forall good_node ns.

Section pnode_ind2.
  Variable P : pnode -> Prop.
  Hypothesis HL : forall s, P (PLeaf s).
  Hypothesis HP : forall s cs, Forall P cs -> P (PParent s cs).
  Fixpoint pnode_ind2 (n : pnode) : P n :=
    match n with
    | PLeaf s => HL s
    | PParent s cs =>
        HP s cs ((fix go (l : list pnode) : Forall P l :=
                    match l with
                    | [] => Forall_nil P
                    | c :: r => Forall_cons c (pnode_ind2 c) (go r)
                    end) cs)
    end.
End pnode_ind2.

Definition nkey (l : nline) : nat * bytes := (nl_level l, nl_text l).

Lemma sort_node_name n : pnode_name (sort_node n) = pnode_name n.
Proof. destruct n; reflexivity. Qed.

Lemma sort_node_names ns : map pnode_name (map sort_node ns) = map pnode_name ns.
Proof. rewrite map_map. apply map_ext. apply sort_node_name. Qed.

(* ---------- shape of the line list ---------- *)

Lemma lines_of_node_head d n : exists tl, lines_of_node d n = (d, pnode_name n) :: tl.
Proof. destruct n; cbn [lines_of_node pnode_name]; eauto. Qed.

Lemma lines_of_node_levels n : forall d, Forall (fun p => (d <= fst p)%nat) (lines_of_node d n).
Proof.
  induction n as [s|s cs IH] using pnode_ind2; intros d; cbn [lines_of_node].
  - constructor; [cbn; lia | constructor].
  - constructor; [cbn; lia|]. apply Forall_flat_map.
    eapply Forall_impl; [|exact IH]. intros c Hc. cbv beta in Hc.
    eapply Forall_impl; [|apply (Hc (S d))]. intros p Hp. cbv beta in Hp. lia.
Qed.

Lemma lines_of_forest_levels d ns : Forall (fun p => (d <= fst p)%nat) (lines_of_forest d ns).
Proof.
  unfold lines_of_forest. apply Forall_flat_map. apply Forall_forall. intros n _.
  apply lines_of_node_levels.
Qed.

Lemma forest_head_level lvl ns nls :
  map nkey nls = lines_of_forest lvl ns ->
  match nls with [] => True | l :: _ => nl_level l = lvl end.
Proof.
  destruct nls as [|l nls]; [trivial|]. destruct ns as [|n ns]; [discriminate|].
  unfold lines_of_forest; cbn [flat_map map].
  destruct (lines_of_node_head lvl n) as (tl & ->). cbn [app]. intros H.
  unfold nkey in H. inversion H. reflexivity.
Qed.

Lemma lines_of_forest_nonempty lvl ns : ns <> [] -> lines_of_forest lvl ns <> [].
Proof.
  destruct ns as [|n ns]; [contradiction|]. intros _. unfold lines_of_forest; cbn [flat_map].
  destruct (lines_of_node_head lvl n) as (tl & ->). discriminate.
Qed.

Lemma span_deeper_split lvl a : forall b,
  Forall (fun l => (lvl < nl_level l)%nat) a ->
  match b with [] => True | l :: _ => (nl_level l <= lvl)%nat end ->
  span_deeper lvl (a ++ b) = (a, b).
Proof.
  induction a as [|x a IH]; intros b Ha Hb; cbn [app].
  - destruct b as [|l b]; cbn [span_deeper]; [reflexivity|].
    destruct (Nat.ltb lvl (nl_level l)) eqn:E; [apply Nat.ltb_lt in E; lia | reflexivity].
  - inversion Ha as [|? ? Hx Ha']; subst. cbn [span_deeper].
    destruct (Nat.ltb lvl (nl_level x)) eqn:E; [|apply Nat.ltb_ge in E; lia].
    now rewrite IH.
Qed.

(* ---------- add_to_nodes with a fresh name is sorted insertion ---------- *)

Lemma add_to_nodes_fresh n idx : forall acc,
  ~ In (pnode_name n) (map pnode_name (map fst acc)) ->
  exists acc', add_to_nodes acc n idx = Ok acc' /\ map fst acc' = insert node_leb n (map fst acc).
Proof.
  induction acc as [|[m i] rest IH]; intros Hfresh; cbn [add_to_nodes map fst insert].
  - eexists; split; reflexivity.
  - cbn [map fst In] in Hfresh. unfold node_leb at 1, bytes_leb.
    destruct (bytes_compare (pnode_name n) (pnode_name m)) eqn:E.
    + apply bytes_compare_eq in E. exfalso. apply Hfresh. left. now rewrite E.
    + eexists; split; reflexivity.
    + destruct IH as (acc' & Ea & Em); [intros Hin; apply Hfresh; right; exact Hin|].
      rewrite Ea. eexists; split; [reflexivity|]. cbn [map fst]. now rewrite Em.
Qed.

Lemma node_leb_total a b : node_leb a b = true \/ node_leb b a = true.
Proof. apply bytes_leb_total. Qed.
Lemma node_leb_trans a b c : node_leb a b = true -> node_leb b c = true -> node_leb a c = true.
Proof. apply bytes_leb_trans. Qed.

Definition ins_all (l acc : list pnode) : list pnode :=
  fold_left (fun a n => insert node_leb n a) l acc.

Lemma ins_all_perm l : forall acc, Permutation (ins_all l acc) (l ++ acc).
Proof.
  induction l as [|x l IH]; intros acc; cbn [ins_all fold_left app]; [reflexivity|].
  fold (ins_all l (insert node_leb x acc)). rewrite IH, insert_perm.
  apply Permutation_sym, Permutation_middle.
Qed.

Lemma ins_all_sorted l : forall acc, Sorted node_leb acc -> Sorted node_leb (ins_all l acc).
Proof.
  induction l as [|x l IH]; intros acc H; cbn [ins_all fold_left]; [exact H|].
  apply IH. apply insert_sorted; [apply node_leb_total | exact H].
Qed.

(* sorted lists with distinct names are determined by their elements *)
Lemma Sorted_perm_eq_names l1 : forall l2,
  Sorted node_leb l1 -> Sorted node_leb l2 -> Permutation l1 l2 ->
  NoDup (map pnode_name l1) -> l1 = l2.
Proof.
  induction l1 as [|x l1 IH]; intros l2 H1 H2 P Hnd.
  - apply Permutation_nil in P. congruence.
  - destruct l2 as [|y l2]; [apply Permutation_sym, Permutation_nil in P; discriminate|].
    cbn [map] in Hnd. inversion Hnd as [|? ? Hx Hnd']; subst.
    assert (x = y) as ->.
    { pose proof (Sorted_head_le node_leb node_leb_trans _ _ H1) as L1.
      pose proof (Sorted_head_le node_leb node_leb_trans _ _ H2) as L2.
      assert (In y (x :: l1)) as Iy by (eapply Permutation_in; [apply Permutation_sym; exact P | left; reflexivity]).
      assert (In x (y :: l2)) as Ix by (eapply Permutation_in; [exact P | left; reflexivity]).
      destruct Iy as [->|Iy]; [reflexivity|]. destruct Ix as [->|Ix]; [reflexivity|].
      rewrite Forall_forall in L1, L2.
      exfalso. apply Hx. replace (pnode_name x) with (pnode_name y); [now apply in_map|].
      apply bytes_leb_antisym; [apply (L2 _ Ix) | apply (L1 _ Iy)]. }
    f_equal. apply IH; [eapply Sorted_tail; eauto | eapply Sorted_tail; eauto | | exact Hnd'].
    eapply Permutation_cons_inv; exact P.
Qed.

Lemma ins_all_sort l : NoDup (map pnode_name l) -> ins_all l [] = sort node_leb l.
Proof.
  intros Hnd. apply Sorted_perm_eq_names.
  - apply ins_all_sorted. constructor.
  - apply sort_sorted. apply node_leb_total.
  - rewrite ins_all_perm, app_nil_r. apply Permutation_sym, sort_perm.
  - eapply Permutation_NoDup; [|exact Hnd]. apply Permutation_map.
    rewrite ins_all_perm, app_nil_r. reflexivity.
Qed.

Lemma insert_names n l x :
  In x (map pnode_name (insert node_leb n l)) <-> x = pnode_name n \/ In x (map pnode_name l).
Proof.
  assert (P : Permutation (map pnode_name (insert node_leb n l)) (pnode_name n :: map pnode_name l))
    by (change (pnode_name n :: map pnode_name l) with (map pnode_name (n :: l));
        apply Permutation_map, insert_perm).
  split; intros H.
  - eapply Permutation_in in H; [|exact P]. destruct H as [H|H]; auto.
  - eapply Permutation_in; [apply Permutation_sym, P|]. destruct H as [H|H]; [left; auto | right; auto].
Qed.

(* ---------- the main induction ---------- *)

Definition parses_ok (cs : list pnode) : Prop :=
  forall f lvl nls,
    map nkey nls = lines_of_forest lvl cs -> (length nls <= f)%nat ->
    parse_level (S f) lvl nls = Ok (sort_forest cs).

Definition node_ok (n : pnode) : Prop :=
  match n with PLeaf _ => True | PParent _ cs => parses_ok cs end.

Lemma entries_forest f lvl : forall forest,
  Forall good_node forest -> Forall node_ok forest -> NoDup (map pnode_name forest) ->
  forall fuel2 nls acc,
    map nkey nls = lines_of_forest lvl forest ->
    (length nls <= fuel2)%nat -> (length nls <= f)%nat ->
    (forall x, In x (map pnode_name (map fst acc)) -> ~ In x (map pnode_name forest)) ->
    entries (parse_level f) lvl fuel2 nls acc = Ok (ins_all (map sort_node forest) (map fst acc)).
Proof.
  induction forest as [|n rest IH]; intros Hgood Hok Hnd fuel2 nls acc Hkeys Hfuel2 Hf Hfresh.
  - destruct nls; [|discriminate]. now rewrite entries_nil.
  - inversion Hgood as [|? ? Hgn Hgrest]; subst. inversion Hok as [|? ? Hon Horest]; subst.
    cbn [map] in Hnd. inversion Hnd as [|? ? Hnn Hndrest]; subst.
    unfold lines_of_forest in Hkeys; cbn [flat_map] in Hkeys. fold (lines_of_forest lvl rest) in Hkeys.
    apply map_eq_app in Hkeys as (n1 & n2 & -> & Hk1 & Hk2).
    pose proof (forest_head_level _ _ _ Hk2) as Hhead.
    (* what remains after this entry, generically *)
    assert (Hcont : forall nd,
               nd = sort_node n ->
               (length n2 <= fuel2 - 1)%nat -> (length n2 <= f)%nat ->
               match add_to_nodes acc nd (nl_num (hd (mk_nline O O []) n1)) with
               | Err e => Err e
               | Ok acc' => entries (parse_level f) lvl (fuel2 - 1) n2 acc'
               end = Ok (ins_all (map sort_node (n :: rest)) (map fst acc))).
    { intros nd -> Hl2 Hl2f.
      destruct (add_to_nodes_fresh (sort_node n) (nl_num (hd (mk_nline O O []) n1)) acc) as (acc' & Ea & Em).
      { rewrite sort_node_name. intros Hin. apply (Hfresh _ Hin). left; reflexivity. }
      rewrite Ea. rewrite (IH Hgrest Horest Hndrest (fuel2 - 1)%nat n2 acc' Hk2 Hl2 Hl2f).
      - rewrite Em. reflexivity.
      - intros x Hx. rewrite Em in Hx. apply insert_names in Hx. rewrite sort_node_name in Hx.
        destruct Hx as [->|Hx]; [exact Hnn|].
        intros Hin. apply (Hfresh _ Hx). right; exact Hin. }
    destruct n as [s|s cs]; cbn [lines_of_node] in Hk1.
    + (* leaf *)
      destruct n1 as [|l n1]; [discriminate|]. cbn [map] in Hk1. injection Hk1 as Hlv Htx Hn1.
      apply map_eq_nil in Hn1; subst n1. cbn [app length] in *.
      destruct fuel2 as [|f2]; [lia|]. rewrite entries_cons.
      assert (Hsp : span_deeper lvl n2 = ([], n2))
        by (apply (span_deeper_split lvl [] n2); [constructor | destruct n2; [trivial|lia]]).
      rewrite Hsp.
      cbv beta iota zeta. cbn [hd] in Hcont. replace (S f2 - 1)%nat with f2 in Hcont by lia.
      apply Hcont; [|lia|lia]. rewrite Htx. reflexivity.
    + (* directory *)
      inversion Hgn as [|? ? Hs Hcs Hndcs Hgcs]; subst.
      destruct n1 as [|l n1]; [discriminate|]. cbn [map] in Hk1. injection Hk1 as Hlv Htx Hn1.
      fold (lines_of_forest (S lvl) cs) in Hn1.
      cbn [app length] in *. rewrite app_length in *.
      destruct fuel2 as [|f2]; [lia|]. rewrite entries_cons.
      rewrite (span_deeper_split lvl n1 n2).
      * cbv beta iota zeta.
        destruct n1 as [|k0 k']; [symmetry in Hn1; now apply lines_of_forest_nonempty in Hn1|].
        destruct f as [|f']; [lia|].
        cbn [node_ok] in Hon. rewrite (Hon f' (S lvl) (k0 :: k') Hn1) by (cbn [length] in *; lia).
        cbn [hd] in Hcont. replace (S f2 - 1)%nat with f2 in Hcont by lia.
        apply Hcont; [|lia|lia]. rewrite Htx. reflexivity.
      * pose proof (lines_of_forest_levels (S lvl) cs) as Hlvs. rewrite <- Hn1 in Hlvs.
        rewrite Forall_map in Hlvs. eapply Forall_impl; [|exact Hlvs].
        intros a Ha. cbn [nkey fst] in Ha. lia.
      * destruct n2; [trivial|lia].
Qed.

Lemma parses_ok_forest cs :
  cs <> [] -> NoDup (map pnode_name cs) -> Forall good_node cs -> Forall node_ok cs -> parses_ok cs.
Proof.
  intros Hne Hnd Hgood Hok f lvl nls Hkeys Hlen.
  rewrite parse_level_S. pose proof (forest_head_level _ _ _ Hkeys) as Hhead.
  destruct nls as [|first r].
  { symmetry in Hkeys. now apply lines_of_forest_nonempty in Hkeys. }
  rewrite Hhead, Nat.eqb_refl.
  rewrite (entries_forest f lvl cs Hgood Hok Hnd (length (first :: r)) (first :: r) [] Hkeys);
    [|lia|exact Hlen|intros x []].
  cbn [map]. unfold sort_forest. rewrite ins_all_sort; [reflexivity|].
  now rewrite sort_node_names.
Qed.

Lemma good_node_ok n : good_node n -> node_ok n.
Proof.
  induction n as [s|s cs IH] using pnode_ind2; intros Hg; cbn [node_ok]; [trivial|].
  inversion Hg as [|? ? Hs Hcs Hnd Hgcs]; subst.
  apply parses_ok_forest; try assumption.
  rewrite Forall_forall in *. intros c Hc. apply IH; [exact Hc | apply Hgcs, Hc].
Qed.

Lemma good_forest_parses_ok ns : good_forest ns -> parses_ok ns.
Proof.
  intros (Hne & Hnd & Hg). apply parses_ok_forest; try assumption.
  eapply Forall_impl; [|exact Hg]. apply good_node_ok.
Qed.

(* ---------- from text lines to numbered lines ---------- *)

Lemma strip_tabs_render_line p : hd 0 (snd p) <> TAB -> strip_tabs (render_line p) = p.
Proof.
  destruct p as [d s]. unfold render_line; cbn [fst snd]. intros H.
  induction d as [|d IH]; cbn [repeat app].
  - now apply strip_tabs_unindented.
  - cbn [strip_tabs]. rewrite N.eqb_refl, IH. reflexivity.
Qed.

Lemma all_tabs_render_line p : unindented (snd p) -> all_tabs (render_line p) = false.
Proof.
  destruct p as [d s]. unfold render_line; cbn [fst snd]. intros H.
  induction d as [|d IH]; cbn [repeat app].
  - now apply all_tabs_unindented.
  - unfold all_tabs in *. cbn [forallb]. rewrite N.eqb_refl, IH. reflexivity.
Qed.

Lemma render_line_nonempty p : snd p <> [] -> render_line p <> [].
Proof.
  destruct p as [d s]. unfold render_line; cbn [fst snd]. intros H E.
  apply app_eq_nil in E as [_ E]. contradiction.
Qed.

Lemma number_from_render keys : forall n,
  Forall (fun p => unindented (snd p)) keys ->
  map nkey (number_from n (map render_line keys)) = keys.
Proof.
  induction keys as [|p keys IH]; intros n H; cbn [map number_from]; [reflexivity|].
  inversion H as [|? ? [Hne Hhd] Hrest]; subst.
  rewrite (strip_tabs_render_line _ Hhd). destruct p as [d s]. cbn [map]. rewrite IH by exact Hrest.
  reflexivity.
Qed.

Lemma empty_indices_render keys : forall n,
  Forall (fun p => unindented (snd p)) keys -> empty_indices n (map render_line keys) = [].
Proof.
  induction keys as [|p keys IH]; intros n H; cbn [map empty_indices]; [reflexivity|].
  inversion H as [|? ? Hp Hrest]; subst. rewrite (all_tabs_render_line _ Hp). now apply IH.
Qed.

Lemma lines_of_node_good n : forall d, good_node n -> Forall (fun p => unindented (snd p)) (lines_of_node d n).
Proof.
  induction n as [s|s cs IH] using pnode_ind2; intros d Hg; cbn [lines_of_node];
    inversion Hg as [? Hs|? ? Hs Hcs Hnd Hgcs]; subst.
  - constructor; [exact Hs | constructor].
  - constructor; [exact Hs|]. apply Forall_flat_map.
    rewrite Forall_forall in *. intros c Hc. apply IH; [exact Hc | apply Hgcs, Hc].
Qed.

Lemma lines_of_forest_good d ns :
  Forall good_node ns -> Forall (fun p => unindented (snd p)) (lines_of_forest d ns).
Proof.
  intros H. unfold lines_of_forest. apply Forall_flat_map.
  eapply Forall_impl; [|exact H]. intros n Hn. now apply lines_of_node_good.
Qed.

Theorem bundle_roundtrip ns : good_forest ns -> parse_lines (render_forest ns) = Ok (sort_forest ns).
Proof.
  intros Hgood. pose proof Hgood as (Hne & Hnd & Hg).
  pose proof (lines_of_forest_good O ns Hg) as Hkeys.
  unfold parse_lines, render_forest.
  rewrite drop_last_empty_nonempty.
  2: { rewrite Forall_map. eapply Forall_impl; [|exact Hkeys].
       intros p [Hp _]. now apply render_line_nonempty. }
  rewrite (empty_indices_render _ _ Hkeys).
  apply (good_forest_parses_ok ns Hgood).
  - now apply number_from_render.
  - rewrite number_from_length. lia.
Qed.

(* ---------- sorting the levels does not change the set of paths a forest denotes ---------- *)

Lemma flatten_node_parent prefix s cs :
  flatten_node prefix (PParent s cs) = flat_map (flatten_node (prefix ++ s ++ [SLASH])) cs.
Proof.
  cbn [flatten_node]. induction cs as [|c r IH]; cbn [flat_map]; [reflexivity|]. now rewrite IH.
Qed.

Lemma flatten_node_sort_perm n : forall prefix,
  Permutation (flatten_node prefix (sort_node n)) (flatten_node prefix n).
Proof.
  induction n as [s|s cs IH] using pnode_ind2; intros prefix; cbn [sort_node]; [reflexivity|].
  rewrite !flatten_node_parent.
  rewrite (sort_perm node_leb (map sort_node cs)).
  induction IH as [|c r Hc Hr IHr]; cbn [map flat_map]; [reflexivity|].
  apply Permutation_app; [apply Hc | exact IHr].
Qed.

Lemma flatten_sort_forest_perm ns : Permutation (flatten (sort_forest ns)) (flatten ns).
Proof.
  unfold flatten, sort_forest.
  rewrite (sort_perm node_leb (map sort_node ns)).
  induction ns as [|n r IH]; cbn [map flat_map]; [reflexivity|].
  apply Permutation_app; [apply flatten_node_sort_perm | exact IH].
Qed.
