(* C02, history level, part 4 (A3): reverting a source to an earlier version brings the earlier targets back
   from the cache instead of re-running commands.

   w0 --build--> (tick) wA --user writes c' to the leaf s, build--> (tick) wB --user writes the old content
   of s back--> wC --build: no command runs, every target holds what it held in wA, every status line is
   "up to date" or "recovered".

   Needed of the contents: a content that a target holds in wA is held by no OTHER target in wA or in wB
   (the cache is content addressed and a restore MOVES the file out of it: two targets wanting the same
   content back would compete for one cache entry).
   Not needed: hist_sound, and determinism of the commands beyond "writes only its own targets"
   (revert_recovers_confined); the statement asked for (DET plan, hist_sound w0) is revert_recovers. *)
From Coq Require Import Relations.Relation_Operators Relations.Operators_Properties.
From Ruler Require Import Tactics Bytes AList RuleSyntax Parser TopoSort TopoSpec World Cmdlang Work Build Ops Inv
     BuildSpec Ideal BytesFacts InvFacts TopoSortFacts BuildFacts C01Script C01Hist C01Build C01Plan C02Extra
     C11Facts C02Hist C02Repeat C02Recover C02Keep.
Local Open Scope N_scope.

Section Revert.
  Variable T : Type.
  Variable teqb : T -> T -> bool.
  Variable hc : bytes -> T.
  Variable hl : list T -> T.
  Variable hr : rule -> T.
  Hypothesis teqb_spec : forall a b, teqb a b = true <-> a = b.
  Hypothesis hc_inj : forall a b, hc a = hc b -> a = b.
  Hypothesis hr_inj : forall a b, hr a = hr b -> a = b.

  Notation world := (world T).
  Notation disk_inv := (disk_inv teqb hc).
  Notation has_hash := (has_hash T hc).
  Notation build := (build teqb hc hl hr).
  Notation protected := (protected_content teqb).

  (* the user edits one file; the clock moves on *)
  Lemma edit_props (w : world) s c :
    disk_inv w ->
    disk_inv (tick (write_file w s c)) /\ w_rd (tick (write_file w s c)) = w_rd w /\
    content_at (tick (write_file w s c)) s = Some c /\
    (forall q, q <> s -> content_at (tick (write_file w s c)) q = content_at w q).
  Proof.
    intro Hinv. split; [|split; [|split]].
    - eapply (InvProofs.step_preserves_inv T teqb hc teqb_spec); [|apply STick].
      eapply (InvProofs.step_preserves_inv T teqb hc teqb_spec); [exact Hinv | apply SWrite].
    - change (w_rd (write_file w s c) = w_rd w). apply write_file_rd.
    - change (content_at (write_file w s c) s = Some c). apply content_write_eq.
    - intros q Hq. change (content_at (write_file w s c) q = content_at w q). apply content_write_neq. exact Hq.
  Qed.

  Lemma tick_inv (w : world) : disk_inv w -> disk_inv (tick w).
  Proof. intro H. eapply (InvProofs.step_preserves_inv T teqb hc teqb_spec); [exact H | apply STick]. Qed.

  (* a build that is not fatal got through init_dir; its plan is that of any world with the same rules file *)
  Lemma build_ok_plan (u w1 : world) rp goal pack :
    get_nodes T w1 rp goal = Ok pack -> content_at u rp = content_at w1 rp ->
    o_verdict (build u rp goal) = VOk ->
    exists u1 tblu, init_dir T u = Ok (u1, tblu) /\ get_nodes T u1 rp goal = Ok pack.
  Proof.
    intros Hg Hrp Hv. unfold Build.build in Hv.
    destruct (init_dir T u) as [[u1 tblu]|f] eqn:Ei; [|cbn in Hv; discriminate].
    exists u1, tblu. split; [reflexivity|]. rewrite <- Hg. apply get_nodes_content. rewrite <- Hrp.
    apply content_at_files. apply (init_dir_ok T teqb _ _ _ Ei).
  Qed.

  Lemma settled_targets_exist (w : world) pack t :
    settled T teqb hc hl hr w pack -> In t (plan_targets pack) -> exists c, content_at w t = Some c.
  Proof.
    intros (_ & c & hs & tb & _ & _ & _ & Hn) Ht. apply in_flat_map in Ht as (n & Hn' & Ht).
    destruct (Hn n Hn') as (h & _ & tickets & rem & _ & _ & Htg).
    destruct (Forall2p_in_l _ _ _ _ Htg Ht) as (o & c0 & Hc0 & _). eauto.
  Qed.

  Theorem revert_recovers_confined : forall (w0 : world) rp goal w1 tbl pack s f c',
    disk_inv w0 ->
    init_dir T w0 = Ok (w1, tbl) -> get_nodes T w1 rp goal = Ok pack ->
    Forall node_confined (p_nodes pack) -> ~ In rp (plan_targets pack) ->
    In s (p_leaves pack) -> s <> rp -> fget w0 s = Some f ->
    let b1 := build w0 rp goal in
    let wA := tick (o_world b1) in
    let b2 := build (tick (write_file wA s c')) rp goal in
    let wB := tick (o_world b2) in
    let wC := tick (write_file wB s (f_content f)) in
    let b3 := build wC rp goal in
    o_verdict b1 = VOk -> o_verdict b2 = VOk ->
    (forall t t' c, In t (plan_targets pack) -> In t' (plan_targets pack) -> t <> t' ->
       content_at wA t = Some c -> (content_at wA t' = Some c \/ content_at wB t' = Some c) -> False) ->
    o_verdict b3 = VOk /\ o_commands b3 = [] /\
    (forall t, In t (plan_targets pack) -> content_at (o_world b3) t = content_at wA t) /\
    Forall (fun st => fst st = BUpToDate \/ fst st = BRecovered) (o_status b3).
  Proof.
    intros w0 rp goal w1 tbl pack s f c' Hinv0 Hi Hg Hconf Hrp Hs Hsrp Hf b1 wA b2 wB wC b3 Hv1 Hv2 Hd.
    pose proof (get_nodes_plan_wf T _ _ _ _ Hg) as Hwf. pose proof Hwf as (_ & Hleafnt & _).
    assert (~ In s (plan_targets pack)) as Hsnt by (apply Hleafnt; exact Hs).
    set (oA := o_world b1) in *.
    (* ---- the first build ---- *)
    pose proof (first_build_summary T teqb hc hl hr teqb_spec hr_inj w0 rp goal w1 tbl pack Hinv0 Hi Hg Hconf Hv1) as S1.
    apply settled_from_settled in S1. fold b1 in S1. fold oA in S1.
    assert (settled T teqb hc hl hr wA pack) as SA by (eapply settled_same; [| |exact S1]; reflexivity).
    assert (disk_inv oA) as HinvoA.
    { eapply (inv_steps T teqb hc teqb_spec); [exact Hinv0|]. apply (InvProofs.build_steps T teqb hc teqb_spec). exact Hinv0. }
    pose proof (tick_inv _ HinvoA) as HinvA. fold wA in HinvA.
    assert (forall p, ~ In p (plan_targets pack) -> content_at wA p = content_at w0 p) as FrA.
    { intros p Hp. apply fget_content. apply (build_frame T teqb hc hl hr _ _ _ _ _ _ _ Hi Hg Hconf Hp). }
    assert (content_at w1 rp = content_at w0 rp) as Hrp1.
    { apply content_at_files. apply (init_dir_ok T teqb _ _ _ Hi). }
    (* ---- the user changes s; the second build ---- *)
    set (wA' := tick (write_file wA s c')) in *.
    destruct (edit_props wA s c' HinvA) as (HinvA' & HrdA' & _ & FrA').
    fold wA' in HinvA', HrdA', FrA'.
    destruct (build_ok_plan wA' w1 rp goal pack Hg) as (wa1 & tbla & Hia & Hga).
    { rewrite (FrA' rp (fun X => Hsrp (eq_sym X))), (FrA rp Hrp). symmetry. exact Hrp1. }
    { exact Hv2. }
    pose proof (first_build_summary T teqb hc hl hr teqb_spec hr_inj wA' rp goal wa1 tbla pack HinvA' Hia Hga Hconf Hv2) as S2.
    pose proof (build_keeps_protected T teqb hc hl hr teqb_spec hc_inj wA' rp goal wa1 tbla pack HinvA' Hia Hga Hconf Hv2) as K2.
    fold b2 in S2, K2. set (oB := o_world b2) in *.
    assert (disk_inv oB) as HinvoB.
    { eapply (inv_steps T teqb hc teqb_spec); [exact HinvA'|]. apply (InvProofs.build_steps T teqb hc teqb_spec). exact HinvA'. }
    assert (forall p, ~ In p (plan_targets pack) -> content_at oB p = content_at wA' p) as FrB.
    { intros p Hp. apply fget_content. apply (build_frame T teqb hc hl hr _ _ _ _ _ _ _ Hia Hga Hconf Hp). }
    pose proof (tick_inv _ HinvoB) as HinvB. fold wB in HinvB.
    (* ---- the user puts the old content of s back ---- *)
    destruct (edit_props wB s (f_content f) HinvB) as (HinvC & HrdC & HsC & FrC).
    fold wC in HinvC, HrdC, HsC, FrC.
    assert (w_rd wC = w_rd oB) as HrdC' by (rewrite HrdC; reflexivity).
    assert (forall q, q <> s -> content_at wC q = content_at oB q) as FrC'.
    { intros q Hq. rewrite (FrC q Hq). reflexivity. }
    assert (get_nodes T wC rp goal = Ok pack) as HgC.
    { rewrite <- Hg. apply get_nodes_content.
      rewrite (FrC' rp (fun X => Hsrp (eq_sym X))), (FrB rp Hrp), (FrA' rp (fun X => Hsrp (eq_sym X))), (FrA rp Hrp).
      symmetry. exact Hrp1. }
    (* ---- the third build starts in a recoverable world ---- *)
    assert (recoverable_world T teqb hc hl hr (content_at wA) wC pack) as HR.
    { destruct SA as (HlA & cA & hsA & tA & HcA & HhA & HtA & HnA).
      destruct S2 as (_ & cB & hsB & tB & HcB & HhB & HtB & HnB).
      split; [|split; [|split]].
      - intros l Hl. split; [apply HlA; exact Hl|].
        destruct (bytes_dec l s) as [-> | Hne].
        + rewrite HsC, (FrA s Hsnt). symmetry. apply content_at_fget. exact Hf.
        + assert (~ In l (plan_targets pack)) as Hlnt by (apply Hleafnt; exact Hl).
          rewrite (FrC' l Hne), (FrB l Hlnt), (FrA' l Hne). reflexivity.
      - intros t c Ht Hc.
        assert (t <> s) as Hts by (intros ->; contradiction).
        assert (protected (plan_targets pack) wA' c) as Hp.
        { assert (content_at wA' t = Some c) as X by (rewrite (FrA' t Hts); exact Hc).
          apply (content_at_some_inv T) in X as (g & Hg' & Hgc). left. exists t, g. auto. }
        destruct (K2 c Hp) as [(q & g & Hq & Hgq & Hgc) | (ch & k & g & Hch & Hlk & Hgc)].
        * assert (content_at oB q = Some c) as Hq' by (rewrite <- Hgc; apply content_at_fget; exact Hgq).
          destruct (bytes_dec q t) as [-> | Hne].
          -- left. rewrite (FrC' t Hts). exact Hq'.
          -- exfalso. apply (Hd t q c Ht Hq (fun X => Hne (eq_sym X)) Hc). right. exact Hq'.
        * right. exists ch, g. split; [unfold cache_of in *; rewrite HrdC'; exact Hch|].
          destruct HinvoB as (_ & _ & _ & Haddr & _). rewrite <- Hgc, <- (Haddr ch k g Hch Hlk). exact Hlk.
      - intros t t' Ht Ht' Hne _ _ X.
        destruct (settled_targets_exist wA pack t (conj HlA (ex_intro _ cA (ex_intro _ hsA (ex_intro _ tA
                    (conj HcA (conj HhA (conj HtA HnA))))))) Ht) as (c & Hc).
        apply (Hd t t' c Ht Ht' Hne Hc). left. rewrite <- X. exact Hc.
      - exists cB, hsB, tB. rewrite HrdC'. repeat (split; [assumption|]).
        intros n Hn. destruct (HnB n Hn) as (h2 & Hh2 & _ & Hgrow).
        destruct (HnA n Hn) as (h1 & Hh1 & tickets & rem & Hsrc & Hlk & Htg).
        exists h2. split; [exact Hh2|]. exists tickets, rem. split; [exact Hsrc|]. split; [|exact Htg].
        apply (Hgrow h1); [|exact Hlk].
        unfold BuildFacts.hist_at, BuildFacts.hist_of. rewrite HrdA', HhA. exact Hh1. }
    destruct (recoverable_build T teqb hc hl hr teqb_spec hc_inj (content_at wA) wC rp goal pack HinvC HgC HR)
      as (R1 & R2 & R3 & _ & R5).
    fold b3 in R1, R2, R3, R5. auto.
  Qed.

  (* the statement as asked: a DET plan and a world with sound histories *)
  Theorem revert_recovers : forall (w0 : world) rp goal w1 tbl pack s f c',
    disk_inv w0 -> hist_sound T teqb hc hl hr w0 ->
    init_dir T w0 = Ok (w1, tbl) -> get_nodes T w1 rp goal = Ok pack ->
    Forall det_node (p_nodes pack) -> ~ In rp (plan_targets pack) ->
    In s (p_leaves pack) -> s <> rp -> fget w0 s = Some f ->
    let b1 := build w0 rp goal in
    let wA := tick (o_world b1) in
    let b2 := build (tick (write_file wA s c')) rp goal in
    let wB := tick (o_world b2) in
    let wC := tick (write_file wB s (f_content f)) in
    let b3 := build wC rp goal in
    o_verdict b1 = VOk -> o_verdict b2 = VOk ->
    (forall t t' c, In t (plan_targets pack) -> In t' (plan_targets pack) -> t <> t' ->
       content_at wA t = Some c -> (content_at wA t' = Some c \/ content_at wB t' = Some c) -> False) ->
    o_verdict b3 = VOk /\ o_commands b3 = [] /\
    (forall t, In t (plan_targets pack) -> content_at (o_world b3) t = content_at wA t) /\
    Forall (fun st => fst st = BUpToDate \/ fst st = BRecovered) (o_status b3).
  Proof.
    intros w0 rp goal w1 tbl pack s f c' Hinv0 _ Hi Hg Hdet.
    apply (revert_recovers_confined w0 rp goal w1 tbl pack s f c' Hinv0 Hi Hg).
    eapply Forall_impl; [|exact Hdet]. intros n Hn. apply node_confined_of_det. exact Hn.
  Qed.

End Revert.
