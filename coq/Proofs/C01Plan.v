(* C01, part 4: every plan that get_nodes returns is well formed (plan_wf), from C12 (plan_ok) and the
   fact that every parsed rule has at least one target. *)
From Coq Require Import List Permutation Bool Arith.
From Ruler Require Import Tactics Bytes SortList Bundle RuleSyntax Parser TopoSort TopoSpec World Build
     BuildSpec BytesFacts SortListFacts BundleFacts TopoSortFacts C01Hist C01Build.
Import ListNotations.

(* ================================================================== *)
(* a parsed bundle denotes at least one path                            *)
(* ================================================================== *)

Definition flat_ne (n : pnode) : Prop := forall prefix, flatten_node prefix n <> [].

Definition forest_ne (ns : list pnode) : Prop := ns <> [] /\ Forall flat_ne ns.

Lemma flat_map_ne {A B} (f : A -> list B) l : l <> [] -> Forall (fun a => f a <> []) l -> flat_map f l <> [].
Proof.
  destruct l as [|a l]; [contradiction|]. intros _ H. inversion H as [|? ? Ha _]; subst.
  cbn [flat_map]. intro E. apply app_eq_nil in E as [E _]. contradiction.
Qed.

Lemma flat_ne_leaf s : flat_ne (PLeaf s).
Proof. intros prefix. cbn. discriminate. Qed.

Lemma flat_ne_parent s cs : forest_ne cs -> flat_ne (PParent s cs).
Proof.
  intros [Hne Hall] prefix. rewrite flatten_node_parent. apply flat_map_ne; [exact Hne|].
  eapply Forall_impl; [|exact Hall]. intros c Hc. apply Hc.
Qed.

Lemma add_to_nodes_ne acc n idx acc' :
  add_to_nodes acc n idx = Ok acc' ->
  acc' <> [] /\ forall m, In m (map fst acc') -> In m (map fst acc) \/ m = n.
Proof.
  revert acc'. induction acc as [|[m i] rest IH]; intros acc'; cbn [add_to_nodes].
  - intro H. injection H as <-. split; [discriminate|]. intros m [<- | []]. right. reflexivity.
  - destruct (bytes_compare (pnode_name n) (pnode_name m)).
    + destruct (same_type m n); [|discriminate]. intro H. injection H as <-.
      split; [discriminate|]. intros x Hx. left. exact Hx.
    + intro H. injection H as <-. split; [discriminate|]. cbn [map fst].
      intros x [<- | Hx]; [right; reflexivity | left; exact Hx].
    + destruct (add_to_nodes rest n idx) as [rest'|e] eqn:E; [|discriminate].
      intro H. injection H as <-. split; [discriminate|]. destruct (IH _ eq_refl) as [_ Hin].
      cbn [map fst]. intros x [<- | Hx]; [left; left; reflexivity|].
      destruct (Hin x Hx) as [H1 | H1]; [left; right; exact H1 | right; exact H1].
Qed.

Lemma entries_ne rec lvl :
  (forall kids cs, rec (S lvl) kids = Ok cs -> forest_ne cs) ->
  forall fuel2 ls acc ns,
    (acc <> [] \/ ls <> []) -> Forall flat_ne (map fst acc) ->
    entries rec lvl fuel2 ls acc = Ok ns -> forest_ne ns.
Proof.
  intros Hrec. induction fuel2 as [|f2 IH]; intros ls acc ns Hne Hacc.
  - destruct ls as [|l rest]; [|discriminate]. cbn. intro H. injection H as <-.
    destruct Hne as [Hne | Hne]; [|contradiction]. split; [|exact Hacc].
    destruct acc; [contradiction | discriminate].
  - destruct ls as [|l rest].
    + rewrite entries_nil. intro H. injection H as <-.
      destruct Hne as [Hne | Hne]; [|contradiction]. split; [|exact Hacc].
      destruct acc; [contradiction | discriminate].
    + rewrite entries_cons. destruct (span_deeper lvl rest) as [kids rest'].
      assert (forall nd, flat_ne nd ->
                match add_to_nodes acc nd (nl_num l) with
                | Err e => Err e
                | Ok acc' => entries rec lvl f2 rest' acc'
                end = Ok ns -> forest_ne ns) as Hstep.
      { intros nd Hnd. destruct (add_to_nodes acc nd (nl_num l)) as [acc'|e] eqn:Ea; [|discriminate].
        destruct (add_to_nodes_ne _ _ _ _ Ea) as [Hne' Hin]. apply IH; [left; exact Hne'|].
        rewrite Forall_forall in *. intros m Hm. destruct (Hin m Hm) as [H1 | ->]; auto. }
      destruct kids as [|k kids]; [apply Hstep; apply flat_ne_leaf|].
      destruct (rec (S lvl) (k :: kids)) as [cs|e] eqn:Er; [|discriminate].
      apply Hstep. apply flat_ne_parent. eapply Hrec; eauto.
Qed.

Lemma parse_level_ne : forall fuel lvl ls ns, parse_level fuel lvl ls = Ok ns -> forest_ne ns.
Proof.
  induction fuel as [|f IH]; intros lvl ls ns; [rewrite parse_level_0; discriminate|].
  rewrite parse_level_S. destruct ls as [|first r]; [discriminate|].
  destruct (Nat.eqb (nl_level first) lvl); [|discriminate].
  apply entries_ne; [intros kids cs; apply IH | right; discriminate | constructor].
Qed.

Lemma parse_lines_flatten_ne ls ns : parse_lines ls = Ok ns -> flatten ns <> [].
Proof.
  unfold parse_lines. destruct (empty_indices 0 (drop_last_empty ls)); [|discriminate].
  intro H. apply parse_level_ne in H as [Hne Hall]. unfold flatten. apply flat_map_ne; [exact Hne|].
  eapply Forall_impl; [|exact Hall]. intros c Hc. apply Hc.
Qed.

(* ================================================================== *)
(* every parsed rule has a target                                       *)
(* ================================================================== *)

Definition has_target (r : rule) : Prop := r_targets r <> [].

Lemma finish_rule_targets st st' :
  Forall has_target (ps_rules st) -> finish_rule st = Ok st' -> Forall has_target (ps_rules st').
Proof.
  intro Hall. unfold finish_rule.
  destruct (parse_lines (rev (ps_targets st))) as [tb|e] eqn:Et; [|discriminate].
  destruct (parse_lines (rev (ps_sources st))) as [sb|e] eqn:Es; [|discriminate].
  intro H. injection H as <-. cbn [ps_rules]. constructor; [|exact Hall].
  unfold has_target. cbn [r_targets]. eapply parse_lines_flatten_ne; eauto.
Qed.

Lemma step_line_targets st l st' :
  Forall has_target (ps_rules st) -> step_line st l = Ok st' -> Forall has_target (ps_rules st').
Proof.
  intro Hall. unfold step_line.
  destruct (ps_mode st); destruct (is_empty l); try discriminate;
    destruct (is_colon l); try discriminate;
    try (intro H; injection H as <-; exact Hall).
  apply finish_rule_targets. exact Hall.
Qed.

Lemma run_lines_targets ls : forall st st',
  Forall has_target (ps_rules st) -> run_lines st ls = Ok st' -> Forall has_target (ps_rules st').
Proof.
  induction ls as [|l r IH]; intros st st' Hall; cbn [run_lines].
  - intro H. injection H as <-. exact Hall.
  - destruct (step_line st l) as [st1|e] eqn:E; [|discriminate].
    apply IH. eapply step_line_targets; eauto.
Qed.

Theorem parse_targets_nonempty content rs : parse content = Ok rs -> Forall (fun r => r_targets r <> []) rs.
Proof.
  unfold parse. destruct (run_lines init_pstate (split_on NL content)) as [st|e] eqn:E; [|discriminate].
  pose proof (run_lines_targets _ init_pstate st (Forall_nil _) E) as Hall.
  unfold finish. destruct (ps_mode st); try discriminate. intro H. injection H as <-.
  apply Forall_rev. exact Hall.
Qed.

(* ================================================================== *)
(* plan_ok -> plan_wf                                                   *)
(* ================================================================== *)

Lemma NoDup_flat_map_elem {A B} (f : A -> list B) l a : NoDup (flat_map f l) -> In a l -> NoDup (f a).
Proof.
  induction l as [|x l IH]; cbn [flat_map]; intros Hnd Hin; [destruct Hin|].
  destruct Hin as [-> | Hin]; [eapply NoDup_app_l; eauto|]. apply IH; [eapply NoDup_app_r; eauto | exact Hin].
Qed.

Lemma NoDup_flat_map_same {A B} (f : A -> list B) l a b x :
  NoDup (flat_map f l) -> In a l -> In b l -> In x (f a) -> In x (f b) -> a = b.
Proof.
  induction l as [|y l IH]; cbn [flat_map]; intros Hnd Ha Hb Hxa Hxb; [destruct Ha|].
  destruct Ha as [-> | Ha], Hb as [-> | Hb].
  - reflexivity.
  - exfalso. apply (NoDup_app_disjoint _ _ x Hnd Hxa). apply in_flat_map. eauto.
  - exfalso. apply (NoDup_app_disjoint _ _ x Hnd Hxb). apply in_flat_map. eauto.
  - apply IH; auto. eapply NoDup_app_r; eauto.
Qed.

Lemma NoDup_app_intro {A} (l1 l2 : list A) :
  NoDup l1 -> NoDup l2 -> (forall x, In x l1 -> ~ In x l2) -> NoDup (l1 ++ l2).
Proof.
  induction l1 as [|a l1 IH]; cbn [app]; intros H1 H2 Hd; [exact H2|].
  inversion H1 as [|? ? Hna H1']; subst. constructor.
  - intro Hin. apply in_app_or in Hin as [Hin | Hin]; [contradiction|]. apply (Hd a); [left; reflexivity | exact Hin].
  - apply IH; auto. intros x Hx. apply Hd. right. exact Hx.
Qed.

Lemma NoDup_flat_map_intro {A B} (g : A -> list B) l :
  NoDup l -> (forall a, In a l -> NoDup (g a)) ->
  (forall a b x, In a l -> In b l -> In x (g a) -> In x (g b) -> a = b) ->
  NoDup (flat_map g l).
Proof.
  induction l as [|a l IH]; cbn [flat_map]; intros Hnd H1 H2; [constructor|].
  inversion Hnd as [|? ? Hna Hnd']; subst. apply NoDup_app_intro.
  - apply H1. left. reflexivity.
  - apply IH; [exact Hnd'| |].
    + intros b Hb. apply H1. right. exact Hb.
    + intros b c x Hb Hc. apply H2; right; assumption.
  - intros x Hx Hin. apply in_flat_map in Hin as (b & Hb & Hxb).
    assert (a = b) by (eapply H2; [left; reflexivity | right; exact Hb | exact Hx | exact Hxb]).
    subst b. contradiction.
Qed.

Lemma canon_targets_in r x : In x (r_targets (canon_rule r)) <-> In x (r_targets r).
Proof. cbn [canon_rule r_targets]. unfold sort_strs. apply sort_in. Qed.

Lemma canon_targets_NoDup r : NoDup (r_targets r) -> NoDup (r_targets (canon_rule r)).
Proof. cbn [canon_rule r_targets]. unfold sort_strs. apply sort_NoDup. Qed.

Lemma flat_map_ext_in' {A B} (f g : A -> list B) l : (forall a, In a l -> f a = g a) -> flat_map f l = flat_map g l.
Proof.
  induction l as [|a l IH]; intro H; cbn [flat_map]; [reflexivity|].
  rewrite (H a) by (left; reflexivity). rewrite IH; [reflexivity|]. intros b Hb. apply H. right. exact Hb.
Qed.

Lemma flat_map_map_comp {A B C} (f : A -> B) (g : B -> list C) l :
  flat_map (fun a => g (f a)) l = flat_map g (map f l).
Proof. induction l as [|a l IH]; cbn [flat_map map]; [reflexivity|]. rewrite IH. reflexivity. Qed.

Theorem plan_ok_wf rs goal pack : NoDup (all_targets rs) -> plan_ok rs goal pack -> plan_wf pack.
Proof.
  intros Hnd (Hnr & Hscope & Hnode & _ & Hleaves).
  assert (forall n, In n (p_nodes pack) -> n_targets n = r_targets (n_rule n)) as Htg.
  { intros n Hn. apply In_nth_error in Hn as (j & Hj). pose proof (Hnode j n Hj) as Hk. unfold node_ok in Hk. apply Hk. }
  assert (forall n, In n (p_nodes pack) -> exists r, In r rs /\ n_rule n = canon_rule r) as Hcanon.
  { intros n Hn. destruct (proj1 (Hscope (n_rule n))) as (r & Hsc & E); [apply in_map; exact Hn|].
    exists r. split; [eapply in_scope_in; eauto | exact E]. }
  assert (forall n t, In n (p_nodes pack) -> In t (n_targets n) -> In t (all_targets rs)) as Hall.
  { intros n t Hn Ht. destruct (Hcanon n Hn) as (r & Hr & E). rewrite (Htg n Hn), E in Ht.
    apply (proj1 (canon_targets_in r t)) in Ht. unfold all_targets. apply in_flat_map. eauto. }
  split; [|split].
  - unfold plan_targets. rewrite (flat_map_ext_in' _ (fun n => r_targets (n_rule n)) _ Htg).
    rewrite (flat_map_map_comp n_rule r_targets).
    apply NoDup_flat_map_intro; [exact Hnr| |].
    + intros r' Hr'. apply in_map_iff in Hr' as (n & <- & Hn). destruct (Hcanon n Hn) as (r & Hr & ->).
      apply canon_targets_NoDup. eapply NoDup_flat_map_elem; eauto.
    + intros a b x Ha Hb Hxa Hxb.
      apply in_map_iff in Ha as (na & <- & Hna). apply in_map_iff in Hb as (nb & <- & Hnb).
      destruct (Hcanon na Hna) as (ra & Hra & Ea). destruct (Hcanon nb Hnb) as (rb & Hrb & Eb).
      rewrite Ea in *. rewrite Eb in *. apply (proj1 (canon_targets_in ra x)) in Hxa. apply (proj1 (canon_targets_in rb x)) in Hxb.
      f_equal. eapply (NoDup_flat_map_same r_targets rs); eauto.
  - intros l Hl Hin. apply Hleaves in Hl as [Hnot _]. apply Hnot.
    unfold plan_targets in Hin. apply in_flat_map in Hin as (n & Hn & Ht). eapply Hall; eauto.
  - intros j n Hj. pose proof (Hnode j n Hj) as Hk. unfold node_ok in Hk. destruct Hk as (_ & _ & Hb).
    eapply Forall2_impl; [|exact Hb]. intros s b H. destruct b as [i | i sub]; cbn [binding_ok bind_ok] in *.
    + apply H.
    + exact H.
Qed.

Theorem toposort_plan_wf rs goal pack :
  Forall (fun r => r_targets r <> []) rs -> toposort rs goal = Ok pack -> plan_wf pack.
Proof.
  intros Hne H. apply (plan_ok_wf rs goal).
  - assert (valid rs goal) as (Hnd & _) by (apply c12_accepts_iff_unconditional; eauto). exact Hnd.
  - apply c12_plan_correct; assumption.
Qed.

(* the plan of build / clean is the sorter's answer on the parsed rules file *)
Lemma get_nodes_inv T (w : world T) rp goal pack :
  get_nodes T w rp goal = Ok pack ->
  exists f rs, fget w rp = Some f /\ parse (f_content f) = Ok rs /\ toposort rs goal = Ok pack.
Proof.
  unfold get_nodes. destruct (fget w rp) as [f|]; [|discriminate].
  destruct (negb (Bincode.utf8_valid (f_content f))); [discriminate|].
  destruct (parse (f_content f)) as [rs|e] eqn:Ep; [|discriminate].
  destruct (toposort rs goal) as [pk|e] eqn:Et; [|discriminate].
  intro H. injection H as <-. exists f, rs. auto.
Qed.

Theorem get_nodes_plan_wf T (w : world T) rp goal pack : get_nodes T w rp goal = Ok pack -> plan_wf pack.
Proof.
  intro H. apply get_nodes_inv in H as (f & rs & _ & Hp & Ht).
  eapply toposort_plan_wf; [|exact Ht]. eapply parse_targets_nonempty; eauto.
Qed.
