(* Facts about the cache server's handlers (Model/Server.v). *)
From Ruler Require Import Tactics Bytes Base62 AList World Work Inv Concrete Server BytesFacts Base62Facts.
Local Open Scope N_scope.

Lemma files_200_inv rd s c :
  respond rd [FILES; s] = R200 c ->
  exists t cache f, decode62 s = Ok t /\ rd_cache rd = Some cache /\
                    alookup c_teqb cache t = Some f /\ c = f_content f.
Proof.
  unfold respond. rewrite bytes_eqb_refl.
  destruct (decode62 s) as [t|e] eqn:Ed; [|discriminate].
  destruct (rd_cache rd) as [cache|] eqn:Ec; [|discriminate].
  destruct (alookup c_teqb cache t) as [f|] eqn:Ef; [|discriminate].
  intros [= <-]. exists t, cache, f. auto.
Qed.

Lemma files_200_intro rd s t cache f :
  decode62 s = Ok t -> rd_cache rd = Some cache -> alookup c_teqb cache t = Some f ->
  respond rd [FILES; s] = R200 (f_content f).
Proof.
  intros Ed Ec Ef. unfold respond. rewrite bytes_eqb_refl, Ed, Ec, Ef. reflexivity.
Qed.

Lemma files_404_iff rd s :
  respond rd [FILES; s] = R404 <->
  ~ exists t cache f, decode62 s = Ok t /\ rd_cache rd = Some cache /\ alookup c_teqb cache t = Some f.
Proof.
  split.
  - intros H (t & cache & f & Ed & Ec & Ef). rewrite (files_200_intro rd s t cache f Ed Ec Ef) in H. discriminate.
  - intros H. unfold respond. rewrite bytes_eqb_refl.
    destruct (decode62 s) as [t|e] eqn:Ed; [|reflexivity].
    destruct (rd_cache rd) as [cache|] eqn:Ec; [|reflexivity].
    destruct (alookup c_teqb cache t) as [f|] eqn:Ef; [|reflexivity].
    exfalso. apply H. exists t, cache, f. auto.
Qed.

Lemma rules_200_inv rd r s body :
  respond rd [RULES; r; s] = R200 body ->
  exists rt st hs h outs, decode62 r = Ok rt /\ decode62 s = Ok st /\ rd_hist rd = Some hs /\
    alookup c_teqb hs rt = Some (SF_ok h) /\ alookup c_teqb h st = Some outs /\
    body = join_with [NL] (map (fun o => encode62 (fs_t o)) outs).
Proof.
  unfold respond. rewrite bytes_eqb_refl.
  destruct (decode62 r) as [rt|e] eqn:Er; [|discriminate].
  destruct (decode62 s) as [st|e] eqn:Es; [|discriminate].
  destruct (rd_hist rd) as [hs|] eqn:Eh; [|discriminate].
  destruct (alookup c_teqb hs rt) as [[h|]|] eqn:Ehs; try discriminate.
  destruct (alookup c_teqb h st) as [outs|] eqn:Eo; [|discriminate].
  intros [= <-]. exists rt, st, hs, h, outs. auto 10.
Qed.

Lemma bytes_eqb_true a b : bytes_eqb a b = true -> a = b.
Proof. apply bytes_eqb_eq. Qed.

(* any 200 answer is one of the two shapes *)
Lemma respond_200_shape rd segs body :
  respond rd segs = R200 body ->
  (exists s, segs = [FILES; s]) \/ (exists r s, segs = [RULES; r; s]).
Proof.
  unfold respond. destruct segs as [|k [|a [|b [|c rest]]]]; try discriminate.
  - destruct (bytes_eqb k FILES) eqn:E; [|discriminate]. apply bytes_eqb_true in E. subst. intros _. left. eauto.
  - destruct (bytes_eqb k RULES) eqn:E; [|discriminate]. apply bytes_eqb_true in E. subst. intros _. right. eauto.
Qed.

(* a name that decodes is the 43-character alphanumeric text form of the ticket it decodes to *)
Lemma decoded_name_shape s t : decode62 s = Ok t -> encode62 t = s /\ length s = 43%nat /\ Forall is_alnum s.
Proof.
  intro H. destruct (encode62_decode62 s t H) as (He & _ & _).
  split; [exact He|]. rewrite <- He. split; [apply encode62_length | apply encode62_alnum].
Qed.
