(* FINE-COROLLARIES, part 4: C20 for the runs of build_fine (P4), the closed instances for the free symbolic hashes
   (P5) and the non-vacuity examples on FineFacts' race of two rule threads for one cache entry. *)
From Coq Require Import String Ascii.
From Coq Require Import Relations.Relation_Operators Relations.Operators_Properties.
From Ruler Require Import Tactics Bytes AList RuleSyntax Parser TopoSort TopoSpec World Cmdlang Work Build Ops Inv
     BuildSpec Ideal Sched Fine BytesFacts InvFacts TableFrame BuildFacts TopoSortFacts C01Script C01Hist C01Build C01Plan
     C01Facts C04Facts C11Facts ActsFacts F6Facts SchedBasic SchedSerial SchedRule SchedInv SchedFacts
     FineBasic FineRule FineInv FineSerial FineFacts FineCorStep FineCor FineStatus.
Local Open Scope nat_scope.

Lemma nth_repeat_none {A} n k : nth k (repeat (@None A) n) None = None.
Proof. revert k. induction n as [|n IH]; intros [|k]; cbn; auto. Qed.

Section FineC20.
  Variable T : Type.
  Variable teqb : T -> T -> bool.
  Variable hc : bytes -> T.
  Variable hl : list T -> T.
  Variable hr : rule -> T.

  Notation world := (world T).
  Notation fnstate := (fnstate T).
  Notation fstep := (fstep teqb hc hl).
  Notation frun := (frun teqb hc hl).
  Notation phase_of := (phase_of T).

  Lemma init_wait (w0 : world) pack k : phase_of (fn_init T w0 pack) k = WWait \/ phase_of (fn_init T w0 pack) k = WDone.
  Proof.
    unfold Fine.phase_of, fn_init. cbn [fn_workers].
    destruct (Nat.lt_ge_cases k (nworkers pack)) as [H | H].
    - left. rewrite nth_repeat_lt by exact H. reflexivity.
    - right. rewrite nth_overflow; [reflexivity|]. rewrite repeat_length. exact H.
  Qed.

  Lemma init_res (w0 : world) pack k : nth k (fn_res (fn_init T w0 pack)) None = None.
  Proof. unfold fn_init. cbn [fn_res]. apply nth_repeat_none. Qed.

  (* P4. A rule thread k of any run of build_fine that has ended with TOk wr (result of rule r):
     - r is the rule of its node, and it reports exactly one line per target of the node, in target order;
     - either its command ran: its whole (non-empty) script was appended to the executed commands by its last step
       (the step from phase WFinish), and every line says Built;
     - or no step of it executed anything: the lines are the banners of `ress`, one entry per target, none of them
       NeedsRebuild, and the i-th entry is
         Recovered       iff in some step of the run the thread went from WRename done i to
                             WResolve (done ++ [Recovered]) (S i)  (the rename out of the cache succeeded:
                             FineStatus.recovered_step_restores),
         AlreadyCorrect  iff in some step it went from WResolve done i to WResolve (done ++ [AlreadyCorrect]) (S i)
                             (a step that does not touch the world and found the remembered ticket:
                             FineStatus.kept_step_touches_nothing). *)
  Theorem fine_status_truthful : forall (w1 : world) (tbl : table T) pack hists blobs t' ch k r wr,
    take_blobs T hc tbl (worker_paths pack) = (blobs, t') ->
    let st0 := fn_init T (write_table T w1 t') pack in
    length (p_leaves pack) <= k ->
    nth k (fn_res (frun pack blobs hists ch st0)) None = Some (r, TOk wr) ->
    exists n, nth_error (p_nodes pack) (k - length (p_leaves pack)) = Some n /\ r = Some (n_rule n) /\
      map snd (status_lines T wr) = n_targets n /\
      ((wr_option wr = CommandExecuted /\
        status_lines T wr = map (fun t => (BBuilt, t)) (n_targets n) /\
        script_lines (n_command n) <> [] /\
        exists pre post s' ro,
          ch = pre ++ k :: post /\ fstep pack blobs hists (frun pack blobs hists pre st0) k = Some s' /\
          phase_of (frun pack blobs hists pre st0) k = WFinish ro /\
          fn_commands s' = fn_commands (frun pack blobs hists pre st0) ++ script_lines (n_command n))
       \/
       (exists ress,
          wr_option wr = Resolutions ress /\ length ress = length (n_targets n) /\ ~ In NeedsRebuild ress /\
          status_lines T wr = map (fun pr => (banner_of (snd pr), fst pr)) (combine (n_targets n) ress) /\
          (forall pre post s', ch = pre ++ k :: post ->
             fstep pack blobs hists (frun pack blobs hists pre st0) k = Some s' ->
             fn_commands s' = fn_commands (frun pack blobs hists pre st0)) /\
          forall i,
            (nth_error ress i = Some Recovered <->
             exists pre post s' done,
               ch = pre ++ k :: post /\ fstep pack blobs hists (frun pack blobs hists pre st0) k = Some s' /\
               phase_of (frun pack blobs hists pre st0) k = WRename done i /\
               phase_of s' k = WResolve (done ++ [Recovered]) (S i)) /\
            (nth_error ress i = Some AlreadyCorrect <->
             exists pre post s' done,
               ch = pre ++ k :: post /\ fstep pack blobs hists (frun pack blobs hists pre st0) k = Some s' /\
               phase_of (frun pack blobs hists pre st0) k = WResolve done i /\
               phase_of s' k = WResolve (done ++ [AlreadyCorrect]) (S i)))).
  Proof.
    intros w1 tbl pack hists blobs t' ch k r wr Htb st0 Hk Hr.
    destruct (status_truthful T teqb hc hl pack blobs hists st0 (fwf_init T _ pack) (init_wait _ pack) (init_res _ pack)
                (fs_shape T hc tbl pack blobs t' Htb) ch k r wr Hk Hr)
      as (n & En & Er & Hsnd & [(Ho & Hst & Hne & (s & s' & ro & (pre & post & E & -> & H) & Eph & Ec) & _)
                               | (ress & Ho & Hl & Hnn & Hst & Hcmd & Hdec)]).
    - exists n. split; [exact En|]. split; [exact Er|]. split; [exact Hsnd|]. left.
      split; [exact Ho|]. split; [exact Hst|]. split; [exact Hne|]. exists pre, post, s', ro. auto.
    - exists n. split; [exact En|]. split; [exact Er|]. split; [exact Hsnd|]. right.
      exists ress. split; [exact Ho|]. split; [exact Hl|]. split; [exact Hnn|]. split; [exact Hst|]. split.
      + intros pre post s' E H. apply Hcmd. exists pre, post. auto.
      + intro i. split.
        * rewrite (Hdec i Recovered). apply (decided_recovered_iff T teqb hc hl pack blobs hists st0 ch k i).
        * rewrite (Hdec i AlreadyCorrect). apply (decided_kept_iff T teqb hc hl pack blobs hists st0 ch k i).
  Qed.

  (* the minimum form, as Properties/C20.v has it for the serial build: one line per target in target order; the
     lines all say Built iff the thread appended its script to the executed commands, and then none says anything
     else; otherwise none says Built *)
  Theorem fine_status_shape : forall (w1 : world) (tbl : table T) pack hists blobs t' ch k r wr,
    take_blobs T hc tbl (worker_paths pack) = (blobs, t') ->
    let st0 := fn_init T (write_table T w1 t') pack in
    length (p_leaves pack) <= k ->
    nth k (fn_res (frun pack blobs hists ch st0)) None = Some (r, TOk wr) ->
    exists n, nth_error (p_nodes pack) (k - length (p_leaves pack)) = Some n /\
      map snd (status_lines T wr) = n_targets n /\
      ((exists pre post s',
          ch = pre ++ k :: post /\ fstep pack blobs hists (frun pack blobs hists pre st0) k = Some s' /\
          script_lines (n_command n) <> [] /\
          fn_commands s' = fn_commands (frun pack blobs hists pre st0) ++ script_lines (n_command n))
       <-> wr_option wr = CommandExecuted) /\
      (wr_option wr = CommandExecuted -> Forall (fun l => fst l = BBuilt) (status_lines T wr)) /\
      (wr_option wr <> CommandExecuted -> Forall (fun l => fst l <> BBuilt) (status_lines T wr)).
  Proof.
    intros w1 tbl pack hists blobs t' ch k r wr Htb st0 Hk Hr.
    destruct (fine_status_truthful w1 tbl pack hists blobs t' ch k r wr Htb Hk Hr)
      as (n & En & _ & Hsnd & [(Ho & Hst & Hne & (pre & post & s' & ro & E & H & _ & Ec))
                              | (ress & Ho & _ & _ & Hst & Hcmd & _)]);
      exists n; (split; [exact En|]); (split; [exact Hsnd|]).
    - split; [split; [intros _; exact Ho | intros _; exists pre, post, s'; auto]|]. split.
      + intros _. rewrite Hst. apply Forall_forall. intros l Hl. apply in_map_iff in Hl as (t & <- & _). reflexivity.
      + intro X. contradiction.
    - split; [split|].
      + intros (pre & post & s' & E & H & Hne & Ec). exfalso. rewrite (Hcmd pre post s' E H) in Ec.
        rewrite <- (app_nil_r (fn_commands _)) in Ec at 1. apply app_inv_head in Ec. apply Hne. symmetry. exact Ec.
      + intro X. rewrite Ho in X. discriminate.
      + split; [intro X; rewrite Ho in X; discriminate|]. intros _. rewrite Hst. apply Forall_forall.
        intros l Hl. apply in_map_iff in Hl as ([t res] & <- & _). cbn. destruct res; discriminate.
  Qed.

  (* the lines a build prints: those of the threads that succeeded, in spawn order (leaves report no line) *)
  Definition res_lines (o : option (option rule * thread_result T)) : list (banner * bytes) :=
    match o with Some (_, TOk wr) => status_lines T wr | _ => [] end.

  Theorem fine_build_status_lines : forall ch (w : world) rp goal w1 tbl pack hists blobs t',
    init_dir T w = Ok (w1, tbl) -> get_nodes T w1 rp goal = Ok pack ->
    read_histories T teqb hr w1 (p_nodes pack) = Some hists ->
    take_blobs T hc tbl (worker_paths pack) = (blobs, t') ->
    o_status (build_fine teqb hc hl hr ch w rp goal) =
    flat_map res_lines (fn_res (frun pack blobs hists ch (fn_init T (write_table T w1 t') pack))).
  Proof.
    intros ch w rp goal w1 tbl pack hists blobs t' Hi Hg Hh Htb.
    rewrite (build_fine_eq T teqb hc hl hr ch w rp goal w1 tbl pack hists blobs t' Hi Hg Hh Htb).
    unfold outcome_of, joined_ord. cbv zeta. cbn [o_status fproj ss_res ss_world].
    rewrite (join_all_status T teqb hr). cbn [js_status app].
    generalize (fn_res (frun pack blobs hists ch (fn_init T (write_table T w1 t') pack))) as l.
    induction l as [|[[r [wr|e|]]|] l IH]; cbn [flat_map unopt app res_lines]; rewrite ?IH; reflexivity.
  Qed.
End FineC20.

(* ================================================================== *)
(* P5: the free symbolic hashes                                         *)
(* ================================================================== *)

Notation fn_start_sym w1 t' pack := (fn_init sym (write_table sym w1 t') pack).

Theorem fine_crash_ok_sym : forall (w : world sym) rp goal w1 tbl pack hists blobs t' ch,
  disk_inv sym_eqb SContent w -> hist_sound_sym w -> no_bad_state_files sym sym_eqb w ->
  init_dir sym w = Ok (w1, tbl) -> get_nodes sym w1 rp goal = Ok pack -> Forall det_node (p_nodes pack) ->
  read_histories sym sym_eqb SRule w1 (p_nodes pack) = Some hists ->
  take_blobs sym SContent tbl (worker_paths pack) = (blobs, t') ->
  let st := frun_sym pack blobs hists ch (fn_start_sym w1 t' pack) in
  disk_inv sym_eqb SContent (fn_world st) /\ hist_sound_sym (fn_world st) /\ no_bad_state_files sym sym_eqb (fn_world st).
Proof. exact (fine_crash_ok sym sym_eqb SContent SList SRule sym_eqb_spec SContent_inj). Qed.

Theorem fine_crash_recovers_sym : forall (w : world sym) rp goal w1 tbl pack hists blobs t' ch goal' w1' tbl' pack',
  disk_inv sym_eqb SContent w -> hist_sound_sym w -> no_bad_state_files sym sym_eqb w ->
  init_dir sym w = Ok (w1, tbl) -> get_nodes sym w1 rp goal = Ok pack -> Forall det_node (p_nodes pack) ->
  read_histories sym sym_eqb SRule w1 (p_nodes pack) = Some hists ->
  take_blobs sym SContent tbl (worker_paths pack) = (blobs, t') ->
  let wc := fn_world (frun_sym pack blobs hists ch (fn_start_sym w1 t' pack)) in
  crash_ok_sym wc /\ cache_addressed sym_eqb SContent wc /\
  o_verdict (build_sym wc RULES_PATH goal') <> VFatal FTable /\
  o_verdict (build_sym wc RULES_PATH goal') <> VFatal FHistory /\
  (init_dir sym wc = Ok (w1', tbl') -> get_nodes sym w1' RULES_PATH goal' = Ok pack' ->
   Forall det_node (p_nodes pack') ->
   o_verdict (build_sym wc RULES_PATH goal') = VOk ->
   forall t, In t (plan_targets pack') ->
     content_at (o_world (build_sym wc RULES_PATH goal')) t = content_at (scratch_world wc pack') t).
Proof.
  exact (fine_crash_recovers sym sym_eqb SContent SList SRule sym_eqb_spec SContent_inj SList_inj SRule_inj).
Qed.

Theorem fine_crash_recovers_tick_sym : forall (w : world sym) rp goal w1 tbl pack hists blobs t' ch goal' w1' tbl' pack',
  disk_inv sym_eqb SContent w -> hist_sound_sym w -> no_bad_state_files sym sym_eqb w ->
  init_dir sym w = Ok (w1, tbl) -> get_nodes sym w1 rp goal = Ok pack -> Forall det_node (p_nodes pack) ->
  read_histories sym sym_eqb SRule w1 (p_nodes pack) = Some hists ->
  take_blobs sym SContent tbl (worker_paths pack) = (blobs, t') ->
  let wc := tick (fn_world (frun_sym pack blobs hists ch (fn_start_sym w1 t' pack))) in
  crash_ok_sym wc /\ cache_addressed sym_eqb SContent wc /\
  o_verdict (build_sym wc RULES_PATH goal') <> VFatal FTable /\
  o_verdict (build_sym wc RULES_PATH goal') <> VFatal FHistory /\
  (init_dir sym wc = Ok (w1', tbl') -> get_nodes sym w1' RULES_PATH goal' = Ok pack' ->
   Forall det_node (p_nodes pack') ->
   o_verdict (build_sym wc RULES_PATH goal') = VOk ->
   forall t, In t (plan_targets pack') ->
     content_at (o_world (build_sym wc RULES_PATH goal')) t = content_at (scratch_world wc pack') t).
Proof.
  exact (fine_crash_recovers_tick sym sym_eqb SContent SList SRule sym_eqb_spec SContent_inj SList_inj SRule_inj).
Qed.

Theorem fine_no_stale_entries_sym : forall (w1 : world sym) (tbl : table sym) pack hists blobs t' ch,
  take_blobs sym SContent tbl (worker_paths pack) = (blobs, t') ->
  let st := frun_sym pack blobs hists ch (fn_start_sym w1 t' pack) in
  rd_table (w_rd (fn_world st)) = Some (SF_ok t') /\
  forall p, In p (p_leaves pack) \/ In p (plan_targets pack) -> alookup bytes_eqb t' p = None.
Proof. exact (fine_no_stale_entries sym sym_eqb SContent SList). Qed.

Theorem fine_step_keeps_content_sym : forall (w : world sym) rp goal w1 tbl pack hists blobs t' ch k st',
  disk_inv sym_eqb SContent w -> hist_sound_sym w ->
  init_dir sym w = Ok (w1, tbl) -> get_nodes sym w1 rp goal = Ok pack -> Forall det_node (p_nodes pack) ->
  read_histories sym sym_eqb SRule w1 (p_nodes pack) = Some hists ->
  take_blobs sym SContent tbl (worker_paths pack) = (blobs, t') ->
  let st := frun_sym pack blobs hists ch (fn_start_sym w1 t' pack) in
  fstep_sym pack blobs hists st k = Some st' ->
  (forall ro, phase_of sym st k <> WFinish ro) ->
  forall paths c, incl (plan_targets pack) paths ->
    protected_content sym_eqb paths (fn_world st) c -> protected_content sym_eqb paths (fn_world st') c.
Proof. exact (fine_step_keeps_content sym sym_eqb SContent SList SRule sym_eqb_spec SContent_inj). Qed.

Theorem fine_restore_into_absent_sym : forall (w1 : world sym) rp goal tbl pack hists blobs t' ch j nd done i p,
  get_nodes sym w1 rp goal = Ok pack -> Forall det_node (p_nodes pack) ->
  take_blobs sym SContent tbl (worker_paths pack) = (blobs, t') ->
  let st := frun_sym pack blobs hists ch (fn_start_sym w1 t' pack) in
  nth_error (p_nodes pack) j = Some nd ->
  phase_of sym st (length (p_leaves pack) + j) = WCheck done i \/ phase_of sym st (length (p_leaves pack) + j) = WRename done i ->
  nth_error (n_targets nd) i = Some p -> fget (fn_world st) p = None.
Proof. exact (fine_restore_into_absent sym sym_eqb SContent SList). Qed.

Theorem fine_frame_sym : forall (w1 : world sym) (tbl : table sym) pack hists blobs t' ch,
  take_blobs sym SContent tbl (worker_paths pack) = (blobs, t') ->
  Forall node_confined (p_nodes pack) ->
  let st := frun_sym pack blobs hists ch (fn_start_sym w1 t' pack) in
  forall p, ~ In p (plan_targets pack) -> fget (fn_world st) p = fget w1 p.
Proof. exact (fine_frame sym sym_eqb SContent SList). Qed.

Theorem fine_status_truthful_sym : forall (w1 : world sym) (tbl : table sym) pack hists blobs t' ch k r wr,
  take_blobs sym SContent tbl (worker_paths pack) = (blobs, t') ->
  let st0 := fn_start_sym w1 t' pack in
  length (p_leaves pack) <= k ->
  nth k (fn_res (frun_sym pack blobs hists ch st0)) None = Some (r, TOk wr) ->
  exists n, nth_error (p_nodes pack) (k - length (p_leaves pack)) = Some n /\ r = Some (n_rule n) /\
    map snd (status_lines sym wr) = n_targets n /\
    ((wr_option wr = CommandExecuted /\
      status_lines sym wr = map (fun t => (BBuilt, t)) (n_targets n) /\
      script_lines (n_command n) <> [] /\
      exists pre post s' ro,
        ch = pre ++ k :: post /\ fstep_sym pack blobs hists (frun_sym pack blobs hists pre st0) k = Some s' /\
        phase_of sym (frun_sym pack blobs hists pre st0) k = WFinish ro /\
        fn_commands s' = fn_commands (frun_sym pack blobs hists pre st0) ++ script_lines (n_command n))
     \/
     (exists ress,
        wr_option wr = Resolutions ress /\ length ress = length (n_targets n) /\ ~ In NeedsRebuild ress /\
        status_lines sym wr = map (fun pr => (banner_of (snd pr), fst pr)) (combine (n_targets n) ress) /\
        (forall pre post s', ch = pre ++ k :: post ->
           fstep_sym pack blobs hists (frun_sym pack blobs hists pre st0) k = Some s' ->
           fn_commands s' = fn_commands (frun_sym pack blobs hists pre st0)) /\
        forall i,
          (nth_error ress i = Some Recovered <->
           exists pre post s' done,
             ch = pre ++ k :: post /\ fstep_sym pack blobs hists (frun_sym pack blobs hists pre st0) k = Some s' /\
             phase_of sym (frun_sym pack blobs hists pre st0) k = WRename done i /\
             phase_of sym s' k = WResolve (done ++ [Recovered]) (S i)) /\
          (nth_error ress i = Some AlreadyCorrect <->
           exists pre post s' done,
             ch = pre ++ k :: post /\ fstep_sym pack blobs hists (frun_sym pack blobs hists pre st0) k = Some s' /\
             phase_of sym (frun_sym pack blobs hists pre st0) k = WResolve done i /\
             phase_of sym s' k = WResolve (done ++ [AlreadyCorrect]) (S i)))).
Proof. exact (fine_status_truthful sym sym_eqb SContent SList). Qed.

Theorem fine_status_shape_sym : forall (w1 : world sym) (tbl : table sym) pack hists blobs t' ch k r wr,
  take_blobs sym SContent tbl (worker_paths pack) = (blobs, t') ->
  let st0 := fn_start_sym w1 t' pack in
  length (p_leaves pack) <= k ->
  nth k (fn_res (frun_sym pack blobs hists ch st0)) None = Some (r, TOk wr) ->
  exists n, nth_error (p_nodes pack) (k - length (p_leaves pack)) = Some n /\
    map snd (status_lines sym wr) = n_targets n /\
    ((exists pre post s',
        ch = pre ++ k :: post /\ fstep_sym pack blobs hists (frun_sym pack blobs hists pre st0) k = Some s' /\
        script_lines (n_command n) <> [] /\
        fn_commands s' = fn_commands (frun_sym pack blobs hists pre st0) ++ script_lines (n_command n))
     <-> wr_option wr = CommandExecuted) /\
    (wr_option wr = CommandExecuted -> Forall (fun l => fst l = BBuilt) (status_lines sym wr)) /\
    (wr_option wr <> CommandExecuted -> Forall (fun l => fst l <> BBuilt) (status_lines sym wr)).
Proof. exact (fine_status_shape sym sym_eqb SContent SList). Qed.

Theorem fine_build_status_lines_sym : forall ch (w : world sym) rp goal w1 tbl pack hists blobs t',
  init_dir sym w = Ok (w1, tbl) -> get_nodes sym w1 rp goal = Ok pack ->
  read_histories sym sym_eqb SRule w1 (p_nodes pack) = Some hists ->
  take_blobs sym SContent tbl (worker_paths pack) = (blobs, t') ->
  o_status (build_fine_sym ch w rp goal) =
  flat_map (res_lines sym) (fn_res (frun_sym pack blobs hists ch (fn_start_sym w1 t' pack))).
Proof. exact (fine_build_status_lines sym sym_eqb SContent SList SRule). Qed.

