(* FINE-COROLLARIES, part 3 (C20 for every run of Model/Fine.v): what a rule thread reports is what it did.
   A run is a choice list ch; "worker k made the step s -> s' in ch" (step_of) means ch = pre ++ k :: post, s is the state
   after pre and s' the result of k's step there. The resolution list `done` that a thread carries in its phase is at
   every instant the list of decisions it has taken so far, the i-th taken by exactly one step of the thread, of the
   kind the resolution names (decided / pdecision):
     AlreadyCorrect: WResolve done i -> WResolve (done ++ [AlreadyCorrect]) (S i), the world untouched, the target's
                     ticket being the remembered one;
     Recovered:      WRename done i -> WResolve (done ++ [Recovered]) (S i) by a successful rename out of the cache;
     NeedsRebuild:   WCheck done i / WRename done i -> WResolve (done ++ [NeedsRebuild]) (S i), the entry not being there.
   status_truthful: a rule thread that ended with TOk wr either executed its whole script in its last step
   (CommandExecuted, every line Built) or executed nothing at all (Resolutions ress, one entry per target, the i-th
   entry res iff the thread's i-th decision was res: decided ch k i res). *)
From Coq Require Import Relations.Relation_Operators Relations.Operators_Properties.
From Ruler Require Import Tactics Bytes AList RuleSyntax TopoSort World Cmdlang Work Build Ops Inv
     BuildSpec Ideal Sched Fine BytesFacts InvFacts BuildFacts C01Script C01Hist C01Build C01Plan C04Facts
     SchedBasic SchedSerial SchedRule SchedInv FineBasic FineRule FineInv FineCorStep.
Local Open Scope nat_scope.

Lemma combine_map_fst {A B C} (l : list (A * B)) : forall (rs : list C),
  combine (map fst l) rs = map (fun pr => (fst (fst pr), snd pr)) (combine l rs).
Proof.
  induction l as [|x l IH]; intros [|r rs]; cbn [map combine]; try reflexivity. f_equal. apply IH.
Qed.

Lemma map_snd_status {A B C} (f : B -> C) : forall (ts : list A) (rs : list B),
  length rs = length ts -> map snd (map (fun pr => (f (snd pr), fst pr)) (combine ts rs)) = ts.
Proof.
  induction ts as [|t ts IH]; intros [|r rs] H; cbn in *; try discriminate; try reflexivity.
  f_equal. apply IH. lia.
Qed.

Lemma nth_error_lt {A} (l : list A) i x : nth_error l i = Some x -> i < length l.
Proof. intro H. apply nth_error_Some. rewrite H. discriminate. Qed.

Section FineStatus.
  Variable T : Type.
  Variable teqb : T -> T -> bool.
  Variable hc : bytes -> T.
  Variable hl : list T -> T.

  Notation world := (world T).
  Notation fstate := (fstate T).
  Notation fnstate := (fnstate T).
  Notation wstate := (wstate T).
  Notation fstep := (fstep teqb hc hl).
  Notation frun := (frun teqb hc hl).
  Notation rule_tail := (rule_tail T teqb hc).
  Notation phase_of := (phase_of T).
  Notation upd_worker := (upd_worker T).
  Notation finish_worker := (finish_worker T).
  Notation set_world := (set_world T).
  Notation wsk := (wsk T).
  Notation ptrans := (ptrans T teqb hc).
  Notation ress_of := (ress_of T).

  (* ================================================================== *)
  (* phases                                                               *)
  (* ================================================================== *)

  (* the decisions taken so far and the index of the target looked at *)
  Definition pl (ph : wphase) : option (list resolution * nat) :=
    match ph with WResolve d i | WCheck d i | WRename d i => Some (d, i) | _ => None end.

  Definition pdone (ph : wphase) : option (list resolution) :=
    match ph with
    | WResolve d _ | WCheck d _ | WRename d _ => Some d
    | WFinish (Some d) => Some d
    | _ => None
    end.

  Definition phase_ok (b : blob T) (ph : wphase) : Prop :=
    match ph with
    | WResolve d i => length d = i /\ i <= length b
    | WCheck d i | WRename d i => length d = i /\ i < length b
    | WFinish (Some d) => length d = length b
    | _ => True
    end.

  (* the step (ph, w) -> (ph', w') of a thread with blob b and remembered vector rem decides target i as res *)
  Definition pdecision (b : blob T) (rem : list fstate) (w : world) (ph ph' : wphase) (w' : world)
             (i : nat) (res : resolution) : Prop :=
    exists done, pl ph = Some (done, i) /\ ph' = WResolve (done ++ [res]) (S i) /\
      match res with
      | AlreadyCorrect =>
          ph = WResolve done i /\ w' = w /\
          exists p a r cur, nth_error b i = Some (p, a) /\ nth_error rem i = Some r /\
                            get_file_ticket teqb hc w p a = Some cur /\ teqb (fs_t r) cur = true
      | Recovered =>
          ph = WRename done i /\
          exists p a r, nth_error b i = Some (p, a) /\ nth_error rem i = Some r /\
                        restore teqb w (fs_t r) p = RDone w'
      | NeedsRebuild => (ph = WCheck done i \/ ph = WRename done i) /\ w' = w
      end.

  Lemma pl_pdone ph d i : pl ph = Some (d, i) -> pdone ph = Some d.
  Proof. destruct ph; cbn; intro H; try discriminate; injection H as <- <-; reflexivity. Qed.

  Lemma ptrans_decides b rem w ph ph' w' :
    ptrans b rem w ph ph' w' ->
    forall d, pdone ph' = Some d ->
      pdone ph = Some d \/
      exists d0 i res, pl ph = Some (d0, i) /\ d = d0 ++ [res] /\ pdecision b rem w ph ph' w' i res.
  Proof.
    intro H. destruct H; cbn [pdone]; intros d E; try discriminate; injection E as <-;
      try (left; reflexivity); right.
    - exists done, i, AlreadyCorrect. split; [reflexivity|]. split; [reflexivity|].
      exists done. split; [reflexivity|]. split; [reflexivity|]. split; [reflexivity|]. split; [reflexivity|].
      exists p, a, r, cur. auto.
    - exists done, i, NeedsRebuild. split; [reflexivity|]. split; [reflexivity|].
      exists done. split; [reflexivity|]. split; [reflexivity|]. split; [left; reflexivity | reflexivity].
    - exists done, i, Recovered. split; [reflexivity|]. split; [reflexivity|].
      exists done. split; [reflexivity|]. split; [reflexivity|]. split; [reflexivity|].
      exists p, a, r. auto.
    - exists done, i, NeedsRebuild. split; [reflexivity|]. split; [reflexivity|].
      exists done. split; [reflexivity|]. split; [reflexivity|]. split; [right; reflexivity | reflexivity].
  Qed.

  Lemma ptrans_phase_ok b rem w ph ph' w' : ptrans b rem w ph ph' w' -> phase_ok b ph -> phase_ok b ph'.
  Proof.
    intro H. destruct H; cbn [phase_ok]; intro Hok;
      repeat match goal with
             | E : nth_error b _ = Some _ |- _ => apply nth_error_lt in E
             | E : nth_error b _ = None |- _ => apply nth_error_None in E
             end; rewrite ?app_length; cbn [length]; try lia; exact I.
  Qed.

  (* reading a move of a thread that renames / that looks at a target *)
  Lemma ptrans_inv_rename b rem w done i ph' w' :
    ptrans b rem w (WRename done i) ph' w' ->
    exists p a r, nth_error b i = Some (p, a) /\ nth_error rem i = Some r /\
      ((restore teqb w (fs_t r) p = RDone w' /\ ph' = WResolve (done ++ [Recovered]) (S i)) \/
       (restore teqb w (fs_t r) p = RNotThere /\ w' = w /\ ph' = WResolve (done ++ [NeedsRebuild]) (S i))).
  Proof.
    intro H. inversion H; subst; do 3 eexists; (split; [eassumption|]); (split; [eassumption|]); [left | right]; auto.
  Qed.

  Lemma ptrans_inv_resolve b rem w done i ph' w' :
    ptrans b rem w (WResolve done i) ph' w' ->
    (nth_error b i = None /\ ph' = WFinish (Some done)) \/
    (exists p a r, nth_error b i = Some (p, a) /\ nth_error rem i = Some r /\
       ((exists cur, get_file_ticket teqb hc w p a = Some cur /\ teqb (fs_t r) cur = true /\
                     ph' = WResolve (done ++ [AlreadyCorrect]) (S i) /\ w' = w) \/
        ph' = WCheck done i)).
  Proof.
    intro H. inversion H; subst.
    - left. auto.
    - right. do 3 eexists. split; [eassumption|]. split; [eassumption|]. left. eexists. eauto.
    - right. do 3 eexists. split; [eassumption|]. split; [eassumption|]. right. reflexivity.
    - right. do 3 eexists. split; [eassumption|]. split; [eassumption|]. right. reflexivity.
  Qed.

  (* the measure of FineBasic, as a function of the phase *)
  Definition pm (b : blob T) (ph : wphase) : nat := wmeasure T b (mk_wst T ph None []).

  Lemma wmeasure_pm b (ws : wstate) : wmeasure T b ws = pm b (wst_phase T ws).
  Proof. reflexivity. Qed.

  Lemma pdecision_measure b rem w ph ph' w' i res :
    pdecision b rem w ph ph' w' i res -> phase_ok b ph ->
    pm b ph' = 2 + 3 * (length b - S i) /\ pm b ph' < pm b ph.
  Proof.
    intros (done & _ & -> & Hm) Hok. unfold pm, wmeasure. cbn [wst_phase]. split; [reflexivity|].
    destruct res.
    - destruct Hm as (-> & _ & p & a & r & cur & Eb & _). apply nth_error_lt in Eb. cbn [phase_ok] in Hok. lia.
    - destruct Hm as (-> & _). cbn [phase_ok] in Hok. lia.
    - destruct Hm as ([-> | ->] & _); cbn [phase_ok] in Hok; lia.
  Qed.

  (* ================================================================== *)
  (* the last step of a thread that succeeds                              *)
  (* ================================================================== *)

  Lemma rule_tail_ok (w1 : world) b h key cmd ress wr w' script :
    rule_tail w1 b h key cmd ress = (Ok wr, w', script) ->
    (needs_rebuild ress = true /\ wr_option wr = CommandExecuted /\ script = script_lines cmd /\ script <> [] /\
     map fst (wr_blob wr) = map fst b)
    \/
    (needs_rebuild ress = false /\ wr_option wr = Resolutions ress /\ script = [] /\ w' = w1 /\
     wr_blob wr = forget_replaced hc b ress).
  Proof.
    unfold Fine.rule_tail. cbv zeta. destruct (needs_rebuild ress).
    - destruct (run_script w1 (script_lines cmd)) as [codes w2] eqn:ERS.
      destruct (command_verdict codes) as [e|] eqn:ECV; [discriminate|].
      destruct (update_blob teqb hc w2 (forget_replaced hc b ress)) as [b'|p] eqn:EUB; [|discriminate].
      destruct (history_insert teqb h key _ _) as [h'|e]; [|discriminate].
      intro H. injection H as <- <- <-. left. cbn [wr_option wr_blob].
      split; [reflexivity|]. split; [reflexivity|]. split; [reflexivity|]. split.
      + intro E. apply (BuildFacts.command_verdict_none _ ECV). apply length_zero_iff_nil.
        pose proof (run_script_length T (script_lines cmd) w1) as HL. rewrite ERS in HL. cbn [fst] in HL.
        rewrite HL, E. reflexivity.
      + rewrite (update_blob_fst T teqb hc _ _ _ EUB). apply forget_replaced_fst.
    - destruct (current_tickets teqb hc w1 (forget_replaced hc b ress)) as [ts|p]; [|discriminate].
      intro H. injection H as <- <- <-. right. cbn [wr_option wr_blob]. auto.
  Qed.

  (* ================================================================== *)
  (* runs                                                                 *)
  (* ================================================================== *)

  Section Run.
    Variable pack : node_pack.
    Variable blobs : list (blob T).
    Variable hists : list (history T).
    Variable st0 : fnstate.
    Hypothesis Hfwf0 : fwf T pack st0.
    Hypothesis Hwait0 : forall k, phase_of st0 k = WWait \/ phase_of st0 k = WDone.
    Hypothesis Hres0 : forall k, nth k (fn_res st0) None = None.

    Let nl := length (p_leaves pack).

    Definition run (ch : list nat) : fnstate := frun pack blobs hists ch st0.

    (* worker k made the step s -> s' in the run ch *)
    Definition step_of (ch : list nat) (k : nat) (s s' : fnstate) : Prop :=
      exists pre post, ch = pre ++ k :: post /\ s = run pre /\ fstep pack blobs hists s k = Some s'.

    Lemma run_app ch1 ch2 : run (ch1 ++ ch2) = frun pack blobs hists ch2 (run ch1).
    Proof. apply (frun_app T teqb hc hl). Qed.

    Lemma run_fwf ch : fwf T pack (run ch).
    Proof. apply (frun_fwf T teqb hc hl). exact Hfwf0. Qed.

    Lemma step_of_app ch ch' k s s' : step_of ch k s s' -> step_of (ch ++ ch') k s s'.
    Proof.
      intros (pre & post & -> & Hs & H). exists pre, (post ++ ch'). split; [|split; assumption].
      rewrite <- app_assoc. reflexivity.
    Qed.

    Lemma step_of_last ch k s' : fstep pack blobs hists (run ch) k = Some s' -> step_of (ch ++ [k]) k (run ch) s'.
    Proof. intro H. exists ch, []. auto. Qed.

    Lemma run_snoc_some ch k s' : fstep pack blobs hists (run ch) k = Some s' -> run (ch ++ [k]) = s'.
    Proof. intro H. rewrite run_app. cbn. unfold Fine.frun. cbn [fold_left]. rewrite H. reflexivity. Qed.

    Lemma run_snoc_none ch k : fstep pack blobs hists (run ch) k = None -> run (ch ++ [k]) = run ch.
    Proof. intro H. rewrite run_app. unfold Fine.frun at 1. cbn [fold_left]. rewrite H. reflexivity. Qed.

    (* the run after a step of it *)
    Lemma step_of_rest ch k s s' : step_of ch k s s' -> exists post, run ch = frun pack blobs hists post s'.
    Proof.
      intros (pre & post & -> & -> & H). exists post. rewrite run_app. rewrite (frun_cons T teqb hc hl).
      unfold fstep'. rewrite H. reflexivity.
    Qed.

    (* ---------- one step, through phase_of / fn_world / fn_res / fn_commands only ---------- *)

    Lemma finish_phase (st : fnstate) k w' sent res script :
      k < length (fn_workers st) -> phase_of (finish_worker st k w' sent res script) k = WDone.
    Proof. intro Hk. rewrite phase_of_wsk, finish_worker_self by exact Hk. reflexivity. Qed.

    Lemma upd_phase (st : fnstate) w' k ws :
      k < length (fn_workers st) -> phase_of (upd_worker (set_world st w') k ws) k = wst_phase T ws.
    Proof. intro Hk. rewrite phase_of_wsk, upd_worker_self by exact Hk. reflexivity. Qed.

    Lemma upd_phase0 (st : fnstate) k ws :
      k < length (fn_workers st) -> phase_of (upd_worker st k ws) k = wst_phase T ws.
    Proof. intro Hk. rewrite phase_of_wsk, upd_worker_self by exact Hk. reflexivity. Qed.

    Lemma step_phase st k st' :
      fstep pack blobs hists st k = Some st' ->
      phase_of st' k = WDone \/
      (phase_of st k = WWait /\ (phase_of st' k = WResolve [] 0 \/ phase_of st' k = WFresh 0)) \/
      ptrans (nth k blobs []) (wst_rem T (wsk st k)) (fn_world st) (phase_of st k) (phase_of st' k) (fn_world st').
    Proof.
      intro H. pose proof (fstep_cases T teqb hc hl _ _ _ _ _ _ H) as (Hk & _ & _).
      destruct (fstep_shape T teqb hc hl _ _ _ _ _ _ H) as [(_ & _ & sent & tr & ->) | (n & _ & _ & Hc)].
      { left. apply finish_phase. exact Hk. }
      destruct Hc as [(Eph & key & [(rem & _ & ->) | (_ & ->)]) | [(ph' & w' & Hpt & ->) | [(_ & tr & _ & ->) | Hl]]].
      - right. left. split; [exact Eph|]. left. apply upd_phase0. exact Hk.
      - right. left. split; [exact Eph|]. right. apply upd_phase0. exact Hk.
      - right. right. rewrite upd_phase by exact Hk. exact Hpt.
      - left. apply finish_phase. exact Hk.
      - destruct Hl as (ro & key & res & w' & script & _ & _ & _ & ->). left. apply finish_phase. exact Hk.
    Qed.

    Lemma step_phase_other st k st' j :
      fstep pack blobs hists st k = Some st' -> j <> k -> phase_of st' j = phase_of st j.
    Proof. intros H Hne. rewrite !phase_of_wsk, (fstep_other T teqb hc hl _ _ _ _ _ _ j H Hne). reflexivity. Qed.

    (* results and commands: only a thread's last step (or its giving up) writes its result; only a last step
       appends to the commands *)
    Definition ends_ok (st : fnstate) (k : nat) (n : node) (wr : work_result T) (script : list bytes) (st' : fnstate)
      : Prop :=
      exists ro key w',
        phase_of st k = WFinish ro /\ wst_key T (wsk st k) = Some key /\
        rule_tail (fn_world st) (nth k blobs []) (nth (k - nl) hists []) key (n_command n) (ress_of ro (nth k blobs []))
        = (Ok wr, w', script) /\
        fn_commands st' = fn_commands st ++ script.

    Lemma step_result st k st' :
      fwf T pack st -> fstep pack blobs hists st k = Some st' ->
      (forall j, j <> k -> nth j (fn_res st') None = nth j (fn_res st) None) /\
      ((nth k (fn_res st') None = nth k (fn_res st) None /\ fn_commands st' = fn_commands st) \/
       (exists r tr, nth k (fn_res st') None = Some (r, tr) /\ (forall wr, tr <> TOk wr) /\
                     fn_commands st' = fn_commands st /\ nl <= k) \/
       (k < nl /\ fn_commands st' = fn_commands st) \/
       (exists n, nl <= k /\ nth_error (p_nodes pack) (k - nl) = Some n /\
          exists res script, nth k (fn_res st') None = Some (Some (n_rule n), res_tr T res) /\
            phase_of st' k = WDone /\
            fn_commands st' = fn_commands st ++ script /\
            (forall wr, res = Ok wr -> ends_ok st k n wr script st') /\
            (forall wr, res_tr T res = TOk wr -> res = Ok wr))).
    Proof.
      intros Hw H. pose proof (fstep_cases T teqb hc hl _ _ _ _ _ _ H) as (Hk & _ & _).
      assert (k < length (fn_res st)) as Hkr by (rewrite (fw_len_r _ _ _ Hw), <- (fw_len_w _ _ _ Hw); exact Hk).
      destruct (fstep_shape T teqb hc hl _ _ _ _ _ _ H) as [(Hlt & _ & sent & tr & ->) | (n & Hge & En & Hc)].
      { split; [intros j Hj; cbn; apply nth_set_nth_neq; exact Hj|]. right. right. left.
        split; [exact Hlt | cbn; apply app_nil_r]. }
      fold nl in Hge, En.
      destruct Hc as [(_ & key & [(rem & _ & ->) | (_ & ->)]) | [(ph' & w' & _ & ->) | [(_ & tr & Htr & ->) | Hl]]].
      - split; [intros; reflexivity|]. left. split; reflexivity.
      - split; [intros; reflexivity|]. left. split; reflexivity.
      - split; [intros; reflexivity|]. left. split; reflexivity.
      - split; [intros j Hj; cbn; apply nth_set_nth_neq; exact Hj|]. right. left.
        exists (Some (n_rule n)), tr. cbn [Fine.finish_worker fn_res fn_commands].
        split; [apply nth_set_nth_eq; exact Hkr|]. split.
        + intros wr E. destruct Htr as [-> | (e & ->)]; discriminate.
        + split; [apply app_nil_r | exact Hge].
      - destruct Hl as (ro & key & res & w' & script & Eph & Ekey & Et & ->).
        split; [intros j Hj; cbn; apply nth_set_nth_neq; exact Hj|]. right. right. right.
        exists n. split; [exact Hge|]. split; [exact En|]. exists res, script.
        cbn [Fine.finish_worker fn_res fn_commands].
        split; [apply nth_set_nth_eq; exact Hkr|]. split; [apply finish_phase; exact Hk|]. split; [reflexivity|]. split.
        + intros wr ->. exists ro, key, w'. fold nl in Et. auto.
        + intros wr E. destruct res as [wr0|e]; cbn in E; [injection E as ->; reflexivity | discriminate].
    Qed.

    (* ---------- a thread that is done stays as it is ---------- *)

    Lemma done_stable ch : forall s k,
      fwf T pack s -> phase_of s k = WDone ->
      phase_of (frun pack blobs hists ch s) k = WDone /\
      nth k (fn_res (frun pack blobs hists ch s)) None = nth k (fn_res s) None.
    Proof.
      induction ch as [|j ch IH]; intros s k Hw Hd; [split; [exact Hd | reflexivity]|].
      rewrite (frun_cons T teqb hc hl). unfold fstep'.
      destruct (fstep pack blobs hists s j) as [s1|] eqn:E; [|apply IH; assumption].
      assert (j <> k) as Hne.
      { intros ->. rewrite (fstep_done T teqb hc hl _ _ _ _ _ Hd) in E. discriminate. }
      destruct (IH s1 k) as [I1 I2].
      - eapply (fstep_fwf T teqb hc hl); eauto.
      - rewrite (step_phase_other _ _ _ k E) by auto. exact Hd.
      - split; [exact I1|]. rewrite I2. destruct (step_result s j s1 Hw E) as [Ho _]. apply Ho. auto.
    Qed.

    (* the measure of one worker never grows *)
    Lemma wm_run ch : forall s k,
      pm (nth k blobs []) (phase_of (frun pack blobs hists ch s) k) <= pm (nth k blobs []) (phase_of s k).
    Proof.
      induction ch as [|j ch IH]; intros s k; [apply Nat.le_refl|].
      rewrite (frun_cons T teqb hc hl). unfold fstep'.
      destruct (fstep pack blobs hists s j) as [s1|] eqn:E; [|apply IH].
      eapply Nat.le_trans; [apply IH|].
      destruct (Nat.eq_dec j k) as [-> | Hne].
      - pose proof (step_measure T teqb hc hl _ _ _ _ _ _ E) as Hm. rewrite !wmeasure_pm in Hm.
        rewrite <- !phase_of_wsk in Hm. lia.
      - rewrite (step_phase_other _ _ _ k E) by auto. apply Nat.le_refl.
    Qed.

    (* ================================================================== *)
    (* the invariants of a run                                              *)
    (* ================================================================== *)

    Lemma phase_ok_run ch : forall k, phase_ok (nth k blobs []) (phase_of (run ch) k).
    Proof.
      induction ch as [|k0 ch IH] using rev_ind; intro k.
      - unfold run. cbn. destruct (Hwait0 k) as [-> | ->]; exact I.
      - destruct (fstep pack blobs hists (run ch) k0) as [st'|] eqn:E.
        2:{ rewrite (run_snoc_none _ _ E). apply IH. }
        rewrite (run_snoc_some _ _ _ E).
        destruct (Nat.eq_dec k k0) as [-> | Hne]; [|rewrite (step_phase_other _ _ _ k E Hne); apply IH].
        destruct (step_phase _ _ _ E) as [-> | [(_ & [-> | ->]) | Hpt]]; try exact I.
        + cbn. split; [reflexivity | lia].
        + eapply ptrans_phase_ok; [exact Hpt | apply IH].
    Qed.

    (* worker k took decision res about its target i in the run ch *)
    Definition decided (ch : list nat) (k i : nat) (res : resolution) : Prop :=
      exists s s', step_of ch k s s' /\
        pdecision (nth k blobs []) (wst_rem T (wsk s k)) (fn_world s) (phase_of s k) (phase_of s' k) (fn_world s') i res.

    Lemma decided_app ch ch' k i res : decided ch k i res -> decided (ch ++ ch') k i res.
    Proof. intros (s & s' & Hs & Hd). exists s, s'. split; [apply step_of_app; exact Hs | exact Hd]. Qed.

    (* the list carried in the phase is the list of the decisions taken *)
    Theorem carried_decided ch : forall k d,
      pdone (phase_of (run ch) k) = Some d -> forall i res, nth_error d i = Some res -> decided ch k i res.
    Proof.
      induction ch as [|k0 ch IH] using rev_ind; intros k d Hd i res Hi.
      - exfalso. unfold run in Hd. cbn in Hd. destruct (Hwait0 k) as [E | E]; rewrite E in Hd; discriminate.
      - destruct (fstep pack blobs hists (run ch) k0) as [st'|] eqn:E.
        2:{ rewrite (run_snoc_none _ _ E) in Hd. apply decided_app. eapply IH; eauto. }
        rewrite (run_snoc_some _ _ _ E) in Hd.
        destruct (Nat.eq_dec k k0) as [-> | Hne].
        2:{ rewrite (step_phase_other _ _ _ k E Hne) in Hd. apply decided_app. eapply IH; eauto. }
        destruct (step_phase _ _ _ E) as [Eph | [(_ & [Eph | Eph]) | Hpt]].
        + rewrite Eph in Hd. discriminate.
        + rewrite Eph in Hd. cbn in Hd. injection Hd as <-. destruct i; discriminate.
        + rewrite Eph in Hd. discriminate.
        + destruct (ptrans_decides _ _ _ _ _ _ Hpt d Hd) as [Hold | (d0 & i0 & res0 & Hpl & -> & Hdec)].
          * apply decided_app. eapply IH; eauto.
          * pose proof (phase_ok_run ch k0) as Hok.
            assert (length d0 = i0) as Hlen.
            { destruct (phase_of (run ch) k0); cbn [pl] in Hpl; try discriminate; injection Hpl as <- <-;
                cbn [phase_ok] in Hok; lia. }
            destruct (Nat.lt_ge_cases i (length d0)) as [Hlt | Hge].
            -- rewrite nth_error_app1 in Hi by exact Hlt. apply decided_app.
               apply (IH k0 d0 (pl_pdone _ _ _ Hpl) i res Hi).
            -- rewrite nth_error_app2 in Hi by exact Hge.
               destruct (i - length d0) as [|x] eqn:Ex; [|destruct x; discriminate].
               cbn in Hi. injection Hi as <-. assert (i = i0) as -> by lia.
               exists (run ch), st'. split; [apply step_of_last; exact E | exact Hdec].
    Qed.

    (* a decision about target i is taken once *)
    Theorem decided_unique ch k i res res' : decided ch k i res -> decided ch k i res' -> res = res'.
    Proof.
      intros (s1 & s1' & (pre1 & post1 & E1 & -> & H1) & D1) (s2 & s2' & (pre2 & post2 & E2 & -> & H2) & D2).
      set (b := nth k blobs []) in *.
      destruct (pdecision_measure _ _ _ _ _ _ _ _ D1 (phase_ok_run pre1 k)) as [M1 L1].
      destruct (pdecision_measure _ _ _ _ _ _ _ _ D2 (phase_ok_run pre2 k)) as [M2 L2].
      fold b in M1, L1, M2, L2.
      assert (forall pre pre' l s', pre' = pre ++ k :: l -> fstep pack blobs hists (run pre) k = Some s' ->
                pm b (phase_of (run pre') k) <= pm b (phase_of s' k)) as Hlater.
      { intros pre pre' l s' -> Hs. rewrite run_app, (frun_cons T teqb hc hl). unfold fstep'. rewrite Hs. apply wm_run. }
      rewrite E1 in E2. apply app_eq_app in E2 as (l & [[Ea Eb] | [Ea Eb]]).
      - destruct l as [|x l].
        + rewrite app_nil_r in Ea. subst pre1. rewrite H1 in H2. injection H2 as <-.
          destruct D1 as (d1 & _ & Ep1 & _). destruct D2 as (d2 & _ & Ep2 & _). rewrite Ep1 in Ep2.
          injection Ep2 as Ep2. apply app_inj_tail in Ep2 as [_ Ep2]. exact Ep2.
        + cbn in Eb. injection Eb as <- _. pose proof (Hlater pre2 pre1 l s2' Ea H2). lia.
      - destruct l as [|x l].
        + rewrite app_nil_r in Ea. subst pre2. rewrite H1 in H2. injection H2 as <-.
          destruct D1 as (d1 & _ & Ep1 & _). destruct D2 as (d2 & _ & Ep2 & _). rewrite Ep1 in Ep2.
          injection Ep2 as Ep2. apply app_inj_tail in Ep2 as [_ Ep2]. exact Ep2.
        + cbn in Eb. injection Eb as <- _. pose proof (Hlater pre1 pre2 l s1' Ea H1). lia.
    Qed.

    (* a rule thread that has reported success has made its last step, with that result *)
    Definition finished (ch : list nat) (k : nat) (n : node) (wr : work_result T) (script : list bytes) : Prop :=
      exists s s', step_of ch k s s' /\ ends_ok s k n wr script s'.

    Theorem finished_run ch : forall k r wr,
      nl <= k -> nth k (fn_res (run ch)) None = Some (r, TOk wr) ->
      exists n script, nth_error (p_nodes pack) (k - nl) = Some n /\ r = Some (n_rule n) /\ finished ch k n wr script.
    Proof.
      induction ch as [|k0 ch IH] using rev_ind; intros k r wr Hk Hr.
      - unfold run in Hr. cbn in Hr. rewrite Hres0 in Hr. discriminate.
      - assert (forall n script, finished ch k n wr script -> finished (ch ++ [k0]) k n wr script) as Hmono.
        { intros n script (s & s' & Hs & He). exists s, s'. split; [apply step_of_app; exact Hs | exact He]. }
        destruct (fstep pack blobs hists (run ch) k0) as [st'|] eqn:E.
        2:{ rewrite (run_snoc_none _ _ E) in Hr. destruct (IH k r wr Hk Hr) as (n & sc & H1 & H2 & H3). eauto 6. }
        rewrite (run_snoc_some _ _ _ E) in Hr.
        destruct (step_result _ _ _ (run_fwf ch) E) as [Hoth Hown].
        destruct (Nat.eq_dec k k0) as [-> | Hne].
        2:{ rewrite (Hoth k Hne) in Hr. destruct (IH k r wr Hk Hr) as (n & sc & H1 & H2 & H3). eauto 6. }
        destruct Hown as [(Esame & _) | [(r0 & tr & Er & Hno & _) | [(Hlt & _) | (n & _ & En & res & script & Er & _ & Ec & Hends & Hok)]]].
        + rewrite Esame in Hr. destruct (IH k0 r wr Hk Hr) as (n & sc & H1 & H2 & H3). eauto 6.
        + rewrite Er in Hr. injection Hr as _ ->. exfalso. exact (Hno wr eq_refl).
        + lia.
        + rewrite Er in Hr. injection Hr as <- Htr. exists n, script. split; [exact En|]. split; [reflexivity|].
          exists (run ch), st'. split; [apply step_of_last; exact E|]. apply Hends. apply Hok. exact Htr.
    Qed.

    (* every step of worker k in the run: it leaves the executed commands alone, unless it is k's last step and
       yields k's final result *)
    Lemma step_commands ch k s s' :
      step_of ch k s s' -> nl <= k ->
      fn_commands s' = fn_commands s \/
      exists n res script, nth_error (p_nodes pack) (k - nl) = Some n /\
        nth k (fn_res (run ch)) None = Some (Some (n_rule n), res_tr T res) /\
        fn_commands s' = fn_commands s ++ script /\ (forall wr, res = Ok wr -> ends_ok s k n wr script s').
    Proof.
      intros Hs Hk. destruct (step_of_rest _ _ _ _ Hs) as (post & Erun).
      destruct Hs as (pre & post' & _ & -> & H).
      destruct (step_result _ _ _ (run_fwf pre) H) as [_ Hown].
      destruct Hown as [(_ & Ec) | [(r0 & tr & _ & _ & Ec & _) | [(Hlt & _) | (n & _ & En & res & script & Er & Hd & Ec & Hends & _)]]];
        [left; exact Ec | left; exact Ec | lia |].
      right. exists n, res, script. split; [exact En|]. split; [|split; assumption].
      destruct (done_stable post s' k) as [_ E2].
      - eapply (fstep_fwf T teqb hc hl); [apply (run_fwf pre) | exact H].
      - exact Hd.
      - rewrite Erun, E2. exact Er.
    Qed.
    (* ================================================================== *)
    (* C20 for the run                                                      *)
    (* ================================================================== *)

    Hypothesis Hshape : blobs_shaped T pack blobs.

    Lemma node_blob_fst' k n :
      nl <= k -> nth_error (p_nodes pack) (k - nl) = Some n -> map fst (nth k blobs []) = n_targets n.
    Proof.
      intros Hk Hn. replace k with (nl + (k - nl)) at 1 by lia. apply (blobs_shaped_node T pack blobs _ n Hshape Hn).
    Qed.

    Lemma decided_lt ch k i res : decided ch k i res -> i < length (nth k blobs []).
    Proof.
      intros (s & s' & (pre & post & _ & -> & _) & (done & _ & _ & Hm)). pose proof (phase_ok_run pre k) as Hok.
      destruct res.
      - destruct Hm as (_ & _ & p & a & r & cur & Eb & _). eapply nth_error_lt; eauto.
      - destruct Hm as (_ & p & a & r & Eb & _). eapply nth_error_lt; eauto.
      - destruct Hm as ([E | E] & _); rewrite E in Hok; cbn in Hok; lia.
    Qed.

    Lemma needs_rebuild_all b : needs_rebuild (map (fun _ : bytes * fstate => NeedsRebuild) b) = false -> b = [].
    Proof. destruct b; [reflexivity | cbn; discriminate]. Qed.

    Theorem status_truthful ch k r wr :
      nl <= k -> nth k (fn_res (run ch)) None = Some (r, TOk wr) ->
      exists n, nth_error (p_nodes pack) (k - nl) = Some n /\ r = Some (n_rule n) /\
        map snd (status_lines T wr) = n_targets n /\
        ((wr_option wr = CommandExecuted /\
          status_lines T wr = map (fun t => (BBuilt, t)) (n_targets n) /\
          script_lines (n_command n) <> [] /\
          (exists s s' ro, step_of ch k s s' /\ phase_of s k = WFinish ro /\
                           fn_commands s' = fn_commands s ++ script_lines (n_command n)) /\
          (forall s s', step_of ch k s s' ->
             fn_commands s' = fn_commands s \/
             ((exists ro, phase_of s k = WFinish ro) /\ fn_commands s' = fn_commands s ++ script_lines (n_command n))))
         \/
         (exists ress,
            wr_option wr = Resolutions ress /\ length ress = length (n_targets n) /\ ~ In NeedsRebuild ress /\
            status_lines T wr = map (fun pr => (banner_of (snd pr), fst pr)) (combine (n_targets n) ress) /\
            (forall s s', step_of ch k s s' -> fn_commands s' = fn_commands s) /\
            (forall i res, nth_error ress i = Some res <-> decided ch k i res))).
    Proof.
      intros Hk Hr.
      destruct (finished_run ch k r wr Hk Hr) as (n & script & En & -> & (s & s' & Hs & (ro & key & w' & Eph & Ekey & Et & Ec))).
      exists n. split; [exact En|]. split; [reflexivity|].
      set (b := nth k blobs []) in *. pose proof (node_blob_fst' k n Hk En) as Hfst. fold b in Hfst.
      assert (length b = length (n_targets n)) as Hlen by (rewrite <- Hfst, map_length; reflexivity).
      (* what any step of k does to the commands *)
      assert (forall s1 s1', step_of ch k s1 s1' ->
                fn_commands s1' = fn_commands s1 \/
                exists script1 ro1 key1 w1',
                  phase_of s1 k = WFinish ro1 /\
                  rule_tail (fn_world s1) b (nth (k - nl) hists []) key1 (n_command n) (ress_of ro1 b) = (Ok wr, w1', script1) /\
                  fn_commands s1' = fn_commands s1 ++ script1) as Hsteps.
      { intros s1 s1' Hs1. destruct (step_commands ch k s1 s1' Hs1 Hk) as [Ec1 | (n1 & res1 & script1 & En1 & Er1 & Ec1 & Hends)];
          [left; exact Ec1|].
        right. rewrite En in En1. injection En1 as <-. rewrite Hr in Er1. injection Er1 as Er1.
        assert (res1 = Ok wr) as -> by (destruct res1; cbn in Er1; [injection Er1 as ->; reflexivity | discriminate]).
        destruct (Hends wr eq_refl) as (ro1 & key1 & w1' & E1 & _ & E2 & E3). exists script1, ro1, key1, w1'. auto. }
      destruct (rule_tail_ok _ _ _ _ _ _ _ _ _ Et) as [(Hnr & Ho & -> & Hne & Hbf) | (Hnr & Ho & -> & _ & Hb)].
      - (* the command ran *)
        rewrite (status_lines_executed T wr Ho).
        assert (map (fun e : bytes * fstate => (BBuilt, fst e)) (wr_blob wr) = map (fun t => (BBuilt, t)) (n_targets n)) as Est.
        { rewrite <- Hfst, <- Hbf, map_map. reflexivity. }
        split; [rewrite Est, map_map; cbn; apply map_id|].
        left. split; [exact Ho|]. split; [exact Est|]. split; [exact Hne|]. split; [exists s, s', ro; auto|].
        intros s1 s1' Hs1. destruct (Hsteps s1 s1' Hs1) as [E1 | (script1 & ro1 & key1 & w1' & E1 & E2 & E3)]; [left; exact E1|].
        right. split; [eauto|].
        destruct (rule_tail_ok _ _ _ _ _ _ _ _ _ E2) as [(_ & _ & -> & _) | (_ & Ho' & _)]; [exact E3|].
        rewrite Ho in Ho'. discriminate.
      - (* nothing ran *)
        set (ress := ress_of ro b) in *.
        assert (length ress = length b) as Hlr.
        { unfold ress, FineCorStep.ress_of. destruct ro as [d|]; [|apply map_length].
          destruct Hs as (pre & post & _ & -> & _). pose proof (phase_ok_run pre k) as Hok. rewrite Eph in Hok. exact Hok. }
        assert (status_lines T wr = map (fun pr => (banner_of (snd pr), fst pr)) (combine (n_targets n) ress)) as Est.
        { rewrite (status_lines_resolutions T wr ress Ho), Hb.
          rewrite <- Hfst, <- (forget_replaced_fst T hc b ress), combine_map_fst, map_map. reflexivity. }
        split.
        { rewrite Est. apply map_snd_status. lia. }
        right. exists ress. split; [exact Ho|]. split; [lia|]. split; [apply needs_rebuild_false_iff; exact Hnr|].
        split; [exact Est|]. split.
        + intros s1 s1' Hs1. destruct (Hsteps s1 s1' Hs1) as [E1 | (script1 & ro1 & key1 & w1' & E1 & E2 & E3)]; [exact E1|].
          destruct (rule_tail_ok _ _ _ _ _ _ _ _ _ E2) as [(_ & Ho' & _) | (_ & _ & -> & _)].
          * rewrite Ho in Ho'. discriminate.
          * rewrite E3. apply app_nil_r.
        + assert (forall i res, nth_error ress i = Some res -> decided ch k i res) as Hfwd.
          { intros i res Hi. destruct Hs as (pre & post & -> & -> & _).
            unfold ress, FineCorStep.ress_of in Hi, Hnr. destruct ro as [d|].
            - apply decided_app. apply (carried_decided pre k d); [rewrite Eph; reflexivity | exact Hi].
            - apply needs_rebuild_all in Hnr. rewrite Hnr in Hi. destruct i; discriminate. }
          intros i res. split; [apply Hfwd|]. intro Hd.
          pose proof (decided_lt _ _ _ _ Hd) as Hlt. fold b in Hlt. rewrite <- Hlr in Hlt.
          destruct (nth_error ress i) as [res'|] eqn:Ei; [|apply nth_error_None in Ei; lia].
          f_equal. exact (decided_unique ch k i res' res (Hfwd i res' Ei) Hd).
    Qed.

    (* ---------- what the decisions mean, by the phases before and after the step alone ---------- *)

    Theorem decided_recovered_iff ch k i :
      decided ch k i Recovered <->
      exists pre post s' done,
        ch = pre ++ k :: post /\ fstep pack blobs hists (run pre) k = Some s' /\
        phase_of (run pre) k = WRename done i /\ phase_of s' k = WResolve (done ++ [Recovered]) (S i).
    Proof.
      split.
      - intros (s & s' & (pre & post & E & -> & H) & (done & _ & Eph' & Eph & _)). exists pre, post, s', done. auto.
      - intros (pre & post & s' & done & E & H & Eph & Eph'). exists (run pre), s'.
        split; [exists pre, post; auto|].
        destruct (step_phase _ _ _ H) as [Ed | [(Ew & _) | Hpt]]; [congruence | congruence |].
        rewrite Eph, Eph' in Hpt. apply ptrans_inv_rename in Hpt as (p & a & r & Eb & Er & [(Ers & _) | (_ & _ & Ebad)]).
        + exists done. rewrite Eph, Eph'. split; [reflexivity|]. split; [reflexivity|]. split; [reflexivity|].
          exists p, a, r. auto.
        + exfalso. injection Ebad as Ebad. apply app_inj_tail in Ebad as [_ Ebad]. discriminate.
    Qed.

    Theorem decided_kept_iff ch k i :
      decided ch k i AlreadyCorrect <->
      exists pre post s' done,
        ch = pre ++ k :: post /\ fstep pack blobs hists (run pre) k = Some s' /\
        phase_of (run pre) k = WResolve done i /\ phase_of s' k = WResolve (done ++ [AlreadyCorrect]) (S i).
    Proof.
      split.
      - intros (s & s' & (pre & post & E & -> & H) & (done & _ & Eph' & Eph & _)). exists pre, post, s', done. auto.
      - intros (pre & post & s' & done & E & H & Eph & Eph'). exists (run pre), s'.
        split; [exists pre, post; auto|].
        destruct (step_phase _ _ _ H) as [Ed | [(Ew & _) | Hpt]]; [congruence | congruence |].
        rewrite Eph, Eph' in Hpt.
        apply ptrans_inv_resolve in Hpt as [(_ & Ebad) | (p & a & r & Eb & Er & [(cur & Eg & Et & _ & Ew) | Ebad])];
          try discriminate.
        exists done. rewrite Eph, Eph'. split; [reflexivity|]. split; [reflexivity|]. split; [reflexivity|].
        split; [exact Ew|]. exists p, a, r, cur. auto.
    Qed.

    (* one step, read off the phases before and after it *)
    Theorem recovered_step_restores st k st' done i :
      fstep pack blobs hists st k = Some st' ->
      phase_of st k = WRename done i -> phase_of st' k = WResolve (done ++ [Recovered]) (S i) ->
      exists p a r, nth_error (nth k blobs []) i = Some (p, a) /\ nth_error (wst_rem T (wsk st k)) i = Some r /\
                    restore teqb (fn_world st) (fs_t r) p = RDone (fn_world st').
    Proof.
      intros H Eph Eph'. destruct (step_phase _ _ _ H) as [Ed | [(Ew & _) | Hpt]]; [congruence | congruence |].
      rewrite Eph, Eph' in Hpt. apply ptrans_inv_rename in Hpt as (p & a & r & Eb & Er & [(Ers & _) | (_ & _ & Ebad)]).
      - exists p, a, r. auto.
      - exfalso. injection Ebad as Ebad. apply app_inj_tail in Ebad as [_ Ebad]. discriminate.
    Qed.

    Theorem kept_step_touches_nothing st k st' done i :
      fstep pack blobs hists st k = Some st' ->
      phase_of st k = WResolve done i -> phase_of st' k = WResolve (done ++ [AlreadyCorrect]) (S i) ->
      fn_world st' = fn_world st /\
      exists p a r cur, nth_error (nth k blobs []) i = Some (p, a) /\ nth_error (wst_rem T (wsk st k)) i = Some r /\
                        get_file_ticket teqb hc (fn_world st) p a = Some cur /\ teqb (fs_t r) cur = true.
    Proof.
      intros H Eph Eph'. destruct (step_phase _ _ _ H) as [Ed | [(Ew & _) | Hpt]]; [congruence | congruence |].
      rewrite Eph, Eph' in Hpt.
      apply ptrans_inv_resolve in Hpt as [(_ & Ebad) | (p & a & r & Eb & Er & [(cur & Eg & Et & _ & Ew) | Ebad])];
        try discriminate.
      split; [exact Ew|]. exists p, a, r, cur. auto.
    Qed.

    (* the facts that come with a decision *)
    Theorem decided_recovered_facts ch k i :
      decided ch k i Recovered ->
      exists s s' p a r, step_of ch k s s' /\ nth_error (nth k blobs []) i = Some (p, a) /\
        nth_error (wst_rem T (wsk s k)) i = Some r /\ restore teqb (fn_world s) (fs_t r) p = RDone (fn_world s').
    Proof.
      intros (s & s' & Hs & (done & _ & _ & _ & p & a & r & H1 & H2 & H3)). exists s, s', p, a, r. auto.
    Qed.

    Theorem decided_kept_facts ch k i :
      decided ch k i AlreadyCorrect ->
      exists s s' p a r cur, step_of ch k s s' /\ fn_world s' = fn_world s /\
        nth_error (nth k blobs []) i = Some (p, a) /\ nth_error (wst_rem T (wsk s k)) i = Some r /\
        get_file_ticket teqb hc (fn_world s) p a = Some cur /\ teqb (fs_t r) cur = true.
    Proof.
      intros (s & s' & Hs & (done & _ & _ & _ & Ew & p & a & r & cur & H1 & H2 & H3 & H4)).
      exists s, s', p, a, r, cur. auto 7.
    Qed.
  End Run.
End FineStatus.
