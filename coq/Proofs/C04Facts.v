(* Facts for C04 (failures contained, reported once, not remembered) about Model/Build.v. *)
From Ruler Require Import Bytes AList RuleSyntax TopoSort World Cmdlang Work Build BuildFacts.

Section C04.
  Variable T : Type.
  Variable teqb : T -> T -> bool.
  Variable hc : bytes -> T.
  Variable hl : list T -> T.
  Variable hr : rule -> T.

  Notation run_state := (run_state T).
  Notation thread_result := (thread_result T).

  Lemma all_some_none {A} (l : list (option A)) : In None l -> all_some l = None.
  Proof.
    induction l as [|x l IH]; intros H; [contradiction|].
    destruct H as [->|H]; [reflexivity|]. cbn [all_some]. destruct x; [|reflexivity].
    rewrite (IH H). reflexivity.
  Qed.

  (* a rule one of whose sources sent a cancel (its producer failed, was cancelled, or the leaf is
     missing) is cancelled itself: no command, no change to any file, a cancel to its own dependents *)
  Lemma run_node_canceled (st : run_state) (n : node) si st' :
    In si (n_source_indices n) ->
    received T (rs_leaf_sent T st) (rs_node_sent T st) si = None ->
    run_node T teqb hc hl hr st n = Some st' ->
    rs_world T st' = rs_world T st /\
    rs_commands T st' = rs_commands T st /\
    rs_node_sent T st' = rs_node_sent T st ++ [None] /\
    rs_results T st' = rs_results T st ++ [(Some (n_rule n), TCanceled)].
  Proof.
    intros Hin Hnone. unfold run_node.
    destruct (take_blob T hc (rs_table T st) (n_targets n)) as [b t'].
    destruct (read_history T teqb hr (rs_world T st) (n_rule n)) as [h|]; [|discriminate].
    rewrite all_some_none.
    - intros [= <-]. cbn. auto.
    - apply in_map_iff. exists si. split; [exact Hnone | exact Hin].
  Qed.

  (* a rule whose own thread failed sends a cancel, and so does a cancelled one *)
  Lemma run_node_sends (st : run_state) (n : node) st' :
    run_node T teqb hc hl hr st n = Some st' ->
    exists tr sent,
      rs_results T st' = rs_results T st ++ [(Some (n_rule n), tr)] /\
      rs_node_sent T st' = rs_node_sent T st ++ [sent] /\
      match tr with
      | TOk wr => sent = Some (wr_tickets wr)
      | TErr _ => sent = None
      | TCanceled => sent = None
      end.
  Proof.
    unfold run_node.
    destruct (take_blob T hc (rs_table T st) (n_targets n)) as [b t'].
    destruct (read_history T teqb hr (rs_world T st) (n_rule n)) as [h|]; [|discriminate].
    destruct (all_some _) as [tickets|].
    - destruct (handle_rule teqb hc (rs_world T st) b h (hl tickets) (n_command n)) as [[[wr|e] w'] s];
        intros [= <-]; cbn; eauto.
    - intros [= <-]. cbn. eauto.
  Qed.

  (* the errors main reports: exactly one per failed thread, in join order; cancelled threads and
     successful ones contribute none *)
  Definition result_errors (res : option rule * thread_result) : list work_err :=
    match snd res with TErr e => [e] | _ => [] end.

  Lemma join_one_errors js res :
    js_errors T (join_one T teqb hr js res) = js_errors T js ++ result_errors res.
  Proof.
    unfold join_one, result_errors. destruct (snd res) as [wr|e|]; cbn [js_errors];
      rewrite ?app_nil_r; reflexivity.
  Qed.

  Lemma join_all_errors results : forall js,
    js_errors T (fold_left (join_one T teqb hr) results js) = js_errors T js ++ flat_map result_errors results.
  Proof.
    induction results as [|res results IH]; intros js; cbn [fold_left flat_map].
    - rewrite app_nil_r. reflexivity.
    - rewrite IH, join_one_errors, <- app_assoc. reflexivity.
  Qed.
End C04.

Section C04Build.
  Variable T : Type.
  Variable teqb : T -> T -> bool.
  Variable hc : bytes -> T.
  Variable hl : list T -> T.
  Variable hr : rule -> T.

  (* the verdict of a build that got as far as joining its threads: success iff no thread failed,
     otherwise exactly the failed threads' errors, one each, in join order *)
  Theorem build_verdict_errors (w : world T) rp goal w1 t pack st2 :
    init_dir T w = Ok (w1, t) -> get_nodes T w1 rp goal = Ok pack ->
    run_nodes T teqb hc hl hr (st_leaves T teqb hc w1 t pack) (p_nodes pack) = Some st2 ->
    o_verdict (build teqb hc hl hr w rp goal) =
    match flat_map (result_errors T) (rs_results T st2) with
    | [] => VOk
    | es => VWorkErrors es
    end.
  Proof.
    intros Hi Hg ER. rewrite (build_eq T teqb hc hl hr), Hi, Hg. cbv zeta. rewrite ER. cbn [o_verdict].
    unfold joined. rewrite join_all_errors. cbn [js_errors app]. reflexivity.
  Qed.
End C04Build.
