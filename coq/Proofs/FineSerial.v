(* FINE, part 4: a worker that runs alone. From the state in which it waits and all its producers have reported,
   `worker_fuel` steps of worker k (nobody else moving) are exactly Sched.work_step of worker k
   (fine_worker_to_completion_leaf / _node): its middle phases compute Work.resolve_remembered / resolve_fresh one
   cache operation at a time, its last step is the rest of Work.handle_rule. Pure computation, no invariant; the
   only hypothesis is that the resolution does not end in an error (Work.handle_rule pretends that nothing was
   changed before such an error, Fine keeps what was done) -- FineFacts.v shows that this cannot happen along a
   build. *)
From Coq Require Import Relations.Relation_Operators Relations.Operators_Properties.
From Ruler Require Import Tactics Bytes AList RuleSyntax TopoSort World Cmdlang Work Build Ops Inv
     BuildSpec Ideal Sched Fine BytesFacts InvFacts BuildFacts C01Script C01Hist C01Build C01Plan C04Facts
     SchedBasic SchedSerial SchedRule SchedInv FineBasic FineRule FineInv.
Local Open Scope nat_scope.

Lemma set_nth_set_nth {A} k (x y : A) l : set_nth k y (set_nth k x l) = set_nth k y l.
Proof. revert k. induction l as [|a l IH]; intros [|k]; cbn; auto. f_equal. apply IH. Qed.

Lemma skipn_nth_none {A} (l : list A) i : nth_error l i = None -> skipn i l = [].
Proof. intro H. apply skipn_all2. apply nth_error_None. exact H. Qed.

Section Solo.
  Variable T : Type.
  Variable teqb : T -> T -> bool.
  Variable hc : bytes -> T.
  Variable hl : list T -> T.

  Notation world := (world T).
  Notation fstate := (fstate T).
  Notation fnstate := (fnstate T).
  Notation wstate := (wstate T).
  Notation fstep := (fstep teqb hc hl).
  Notation frun := (frun teqb hc hl).
  Notation rule_tail := (rule_tail T teqb hc).
  Notation upd_worker := (upd_worker T).
  Notation finish_worker := (finish_worker T).
  Notation set_world := (set_world T).
  Notation wsk := (wsk T).
  Notation sent_by := (sent_by T).
  Notation has_worked := (has_worked T).
  Notation work_step := (work_step teqb hc hl).
  Notation wdone := (mk_wst T WDone None []).

  Variable pack : node_pack.
  Variable blobs : list (blob T).
  Variable hists : list (history T).

  Let nl := length (p_leaves pack).

  (* ---------- runs of one worker ---------- *)

  Definition reaches (k m : nat) (X Y : fnstate) : Prop :=
    forall m', frun pack blobs hists (repeat k (m + m')) X = frun pack blobs hists (repeat k m') Y.

  Lemma reaches_refl k X : reaches k 0 X X.
  Proof. intro m'. reflexivity. Qed.

  Lemma reaches_step k X Y : fstep pack blobs hists X k = Some Y -> reaches k 1 X Y.
  Proof. intros H m'. cbn [Nat.add repeat]. rewrite frun_cons. unfold fstep'. rewrite H. reflexivity. Qed.

  Lemma reaches_trans k m1 m2 X Y Z : reaches k m1 X Y -> reaches k m2 Y Z -> reaches k (m1 + m2) X Z.
  Proof. intros H1 H2 m'. rewrite <- Nat.add_assoc, H1, H2. reflexivity. Qed.

  Lemma solo_done k m st : phase_of T st k = WDone -> frun pack blobs hists (repeat k m) st = st.
  Proof.
    intro H. induction m as [|m IH]; [reflexivity|]. cbn [repeat]. rewrite frun_cons. unfold fstep'.
    rewrite (fstep_done T teqb hc hl _ _ _ _ _ H). exact IH.
  Qed.

  (* a worker that reaches a state in which it is done within the fuel: the whole fuel gives that state *)
  Lemma reaches_fuel k m fuel X Y :
    reaches k m X Y -> m <= fuel -> phase_of T Y k = WDone -> frun pack blobs hists (repeat k fuel) X = Y.
  Proof.
    intros H Hm Hd. replace fuel with (m + (fuel - m)) by lia. rewrite H. apply solo_done. exact Hd.
  Qed.

  (* ================================================================== *)
  (* a leaf                                                               *)
  (* ================================================================== *)

  Lemma fproj_finish st k w' o res script :
    fproj (finish_worker st k w' o res script) =
    mk_ss w' (set_nth k (Some o) (fn_sent st)) (set_nth k (Some res) (fn_res st)) (fn_commands st ++ script).
  Proof. reflexivity. Qed.

  Theorem fine_worker_to_completion_leaf st k :
    k < nl -> k < length (fn_workers st) -> wst_phase T (wsk st k) = WWait -> has_worked (fproj st) k = false ->
    let st' := frun pack blobs hists (repeat k (worker_fuel T (nth k blobs []))) st in
    fproj st' = work_step pack blobs hists (fproj st) k /\ fn_workers st' = set_nth k wdone (fn_workers st).
  Proof.
    intros Hk Hlen Eph Hu. cbv zeta.
    assert (Nat.ltb k (length (p_leaves pack)) = true) as Eltb by (apply Nat.ltb_lt; exact Hk).
    assert (exists o res, fstep pack blobs hists st k = Some (finish_worker st k (fn_world st) o res []) /\
                          work_step pack blobs hists (fproj st) k = fproj (finish_worker st k (fn_world st) o res []))
      as (o & res & E1 & E2).
    { unfold Fine.fstep, Sched.work_step. cbv zeta. rewrite Hu, (deps_leaf pack k Hk), Eltb. cbn [forallb negb].
      unfold FineBasic.wsk in Eph. rewrite Eph. cbn [fproj ss_world ss_sent ss_res ss_commands].
      destruct (handle_leaf teqb hc (fn_world st) (nth k blobs [])) as [wr|e]; do 2 eexists;
        (split; [reflexivity|]); rewrite fproj_finish, app_nil_r; reflexivity. }
    rewrite (reaches_fuel k 1 _ st _ (reaches_step _ _ _ E1)).
    - split; [symmetry; exact E2 | reflexivity].
    - unfold worker_fuel. lia.
    - rewrite phase_of_wsk, finish_worker_self by exact Hlen. reflexivity.
  Qed.

  (* ================================================================== *)
  (* a rule thread                                                        *)
  (* ================================================================== *)

  Section Node.
    Variable j : nat.
    Variable nd : node.
    Hypothesis Hn : nth_error (p_nodes pack) j = Some nd.

    Let k := nl + j.
    Let b := nth k blobs [].
    Let h := nth j hists [].

    Lemma ltb_node' : Nat.ltb k (length (p_leaves pack)) = false.
    Proof. apply Nat.ltb_ge. unfold k, nl. lia. Qed.

    Lemma sub_node' : k - length (p_leaves pack) = j.
    Proof. unfold k, nl. lia. Qed.

    (* worker k in the given phase, in the given world; everything else as in st *)
    Definition putw (st : fnstate) (wld : world) (ws : wstate) : fnstate := upd_worker (set_world st wld) k ws.

    Lemma putw_putw st w1' x w2' y : putw (putw st w1' x) w2' y = putw st w2' y.
    Proof. unfold putw, Fine.upd_worker, Fine.set_world. cbn. f_equal. apply set_nth_set_nth. Qed.

    Lemma finish_putw st wld x w' o res script : finish_worker (putw st wld x) k w' o res script = finish_worker st k w' o res script.
    Proof. unfold putw, Fine.finish_worker, Fine.upd_worker, Fine.set_world. cbn. f_equal. apply set_nth_set_nth. Qed.

    Lemma putw_wsk st wld ws : k < length (fn_workers st) -> nth k (fn_workers (putw st wld ws)) wdone = ws.
    Proof. intro H. unfold putw, Fine.upd_worker, Fine.set_world. cbn. apply nth_set_nth_eq. exact H. Qed.

    (* Fine.fstep for a rule thread in a middle phase, with the worker's state made explicit *)
    Definition nstep (st : fnstate) (wld : world) (ph : wphase) (key : option T) (rem : list fstate) : option fnstate :=
      let fail (w' : world) (e : work_err) := Some (finish_worker st k w' None (Some (n_rule nd), TErr e) []) in
      let goto (w' : world) (ph' : wphase) := Some (putw st w' (mk_wst T ph' key rem)) in
      match ph with
      | WResolve done i =>
          match nth_error b i with
          | None => goto wld (WFinish (Some done))
          | Some (p, assumed) =>
              match nth_error rem i with
              | None => fail wld WWeird
              | Some r =>
                  match get_file_ticket teqb hc wld p assumed with
                  | Some cur =>
                      if teqb (fs_t r) cur then goto wld (WResolve (done ++ [AlreadyCorrect]) (S i))
                      else match back_up teqb wld cur p with
                           | None => fail wld WCacheDirMissing
                           | Some w1' => goto w1' (WCheck done i)
                           end
                  | None => goto wld (WCheck done i)
                  end
              end
          end
      | WCheck done i =>
          match nth_error rem i, cache_of wld with
          | Some r, Some c =>
              match alookup teqb c (fs_t r) with
              | Some _ => goto wld (WRename done i)
              | None => goto wld (WResolve (done ++ [NeedsRebuild]) (S i))
              end
          | Some _, None => fail wld WCacheDirMissing
          | None, _ => fail wld WWeird
          end
      | WRename done i =>
          match nth_error b i, nth_error rem i with
          | Some (p, _), Some r =>
              match restore teqb wld (fs_t r) p with
              | RDone w1' => goto w1' (WResolve (done ++ [Recovered]) (S i))
              | RNotThere => goto wld (WResolve (done ++ [NeedsRebuild]) (S i))
              | RCacheMissing => fail wld WCacheDirMissing
              end
          | _, _ => fail wld WWeird
          end
      | WFresh i =>
          match nth_error b i with
          | None => goto wld (WFinish None)
          | Some (p, assumed) =>
              match get_file_ticket teqb hc wld p assumed with
              | Some cur =>
                  match back_up teqb wld cur p with
                  | None => fail wld WCacheDirMissing
                  | Some w1' => goto w1' (WFresh (S i))
                  end
              | None => goto wld (WFresh (S i))
              end
          end
      | WFinish ro =>
          let ress := match ro with Some r => r | None => map (fun _ => NeedsRebuild) b end in
          match key with
          | None => None
          | Some ky =>
              match rule_tail wld b h ky (n_command nd) ress with
              | (Ok wr, w', script) => Some (finish_worker st k w' (Some (wr_tickets wr)) (Some (n_rule nd), TOk wr) script)
              | (Err e, w', script) => Some (finish_worker st k w' None (Some (n_rule nd), TErr e) script)
              end
          end
      | _ => None
      end.

    Lemma fstep_putw st wld ph key rem :
      k < length (fn_workers st) -> is_mid ph ->
      fstep pack blobs hists (putw st wld (mk_wst T ph key rem)) k = nstep st wld ph key rem.
    Proof.
      intros Hk [Hm1 Hm2]. unfold Fine.fstep. cbv zeta. rewrite ltb_node', sub_node', Hn.
      rewrite (putw_wsk st wld _ Hk). cbn [wst_phase wst_key wst_rem].
      change (fn_world (putw st wld (mk_wst T ph key rem))) with wld.
      fold b h. unfold nstep. cbv zeta.
      assert (forall w' ph', upd_worker (set_world (putw st wld (mk_wst T ph key rem)) w') k (mk_wst T ph' key rem)
                             = putw st w' (mk_wst T ph' key rem)) as Eg.
      { intros w' ph'. apply putw_putw. }
      destruct ph as [|done i|done i|done i|i|ro|]; try contradiction.
      - destruct (nth_error b i) as [[p a]|]; [|rewrite Eg; reflexivity].
        destruct (nth_error rem i) as [r|]; [|rewrite finish_putw; reflexivity].
        destruct (get_file_ticket teqb hc wld p a) as [cur|]; [|rewrite Eg; reflexivity].
        destruct (teqb (fs_t r) cur); [rewrite Eg; reflexivity|].
        destruct (back_up teqb wld cur p); [rewrite Eg; reflexivity | rewrite finish_putw; reflexivity].
      - destruct (nth_error rem i) as [r|]; [|destruct (cache_of wld); rewrite finish_putw; reflexivity].
        destruct (cache_of wld) as [c|]; [|rewrite finish_putw; reflexivity].
        destruct (alookup teqb c (fs_t r)); rewrite Eg; reflexivity.
      - destruct (nth_error b i) as [[p a]|]; [|rewrite finish_putw; reflexivity].
        destruct (nth_error rem i) as [r|]; [|rewrite finish_putw; reflexivity].
        destruct (restore teqb wld (fs_t r) p); [rewrite Eg; reflexivity | rewrite Eg; reflexivity | rewrite finish_putw; reflexivity].
      - destruct (nth_error b i) as [[p a]|]; [|rewrite Eg; reflexivity].
        destruct (get_file_ticket teqb hc wld p a) as [cur|]; [|rewrite Eg; reflexivity].
        destruct (back_up teqb wld cur p); [rewrite Eg; reflexivity | rewrite finish_putw; reflexivity].
      - destruct key as [ky|]; [|reflexivity].
        destruct (rule_tail wld b h ky (n_command nd) _) as [[[wr|e] w'] script]; rewrite finish_putw; reflexivity.
    Qed.

    Lemma mid_resolve done i : is_mid (WResolve done i). Proof. split; discriminate. Qed.
    Lemma mid_check done i : is_mid (WCheck done i). Proof. split; discriminate. Qed.
    Lemma mid_rename done i : is_mid (WRename done i). Proof. split; discriminate. Qed.
    Lemma mid_fresh i : is_mid (WFresh i). Proof. split; discriminate. Qed.
    Lemma mid_finish ro : is_mid (WFinish ro). Proof. split; discriminate. Qed.

    Section Run.
      Variable st : fnstate.
      Variable key : option T.
      Variable rem : list fstate.
      Hypothesis Hk : k < length (fn_workers st).

      Notation at_ wld ph := (putw st wld (mk_wst T ph key rem)).

      (* is_file(cache/<remembered>) then rename: Work.restore_or_rebuild *)
      Lemma solo_check wld done i r p a res w1' :
        nth_error b i = Some (p, a) -> nth_error rem i = Some r ->
        restore_or_rebuild T teqb wld (fs_t r) p = Ok (res, w1') ->
        exists m, m <= 2 /\ reaches k m (at_ wld (WCheck done i)) (at_ w1' (WResolve (done ++ [res]) (S i))).
      Proof.
        intros Eb Er Hr. unfold restore_or_rebuild in Hr.
        destruct (restore teqb wld (fs_t r) p) as [w2'| |] eqn:Ers; try discriminate; injection Hr as <- <-.
        - exists 2. split; [lia|]. apply (reaches_trans k 1 1 _ (at_ wld (WRename done i))); apply reaches_step;
            rewrite fstep_putw by (auto using mid_check, mid_rename); unfold nstep; cbv zeta.
          + rewrite Er. unfold restore in Ers. destruct (cache_of wld) as [c|]; [|discriminate].
            destruct (alookup teqb c (fs_t r)); [reflexivity | discriminate].
          + rewrite Eb, Er, Ers. reflexivity.
        - exists 1. split; [lia|]. apply reaches_step. rewrite fstep_putw by (auto using mid_check). unfold nstep. cbv zeta.
          rewrite Er. unfold restore in Ers. destruct (cache_of wld) as [c|]; [|discriminate].
          destruct (alookup teqb c (fs_t r)); [discriminate | reflexivity].
      Qed.

      (* one target: Work.resolve_single *)
      Lemma solo_single wld done i r p a res w1' :
        nth_error b i = Some (p, a) -> nth_error rem i = Some r ->
        resolve_single teqb hc wld (fs_t r) p a = Ok (res, w1') ->
        exists m, m <= 3 /\ reaches k m (at_ wld (WResolve done i)) (at_ w1' (WResolve (done ++ [res]) (S i))).
      Proof.
        intros Eb Er Hs. unfold resolve_single in Hs.
        destruct (get_file_ticket teqb hc wld p a) as [cur|] eqn:Eg.
        - destruct (teqb (fs_t r) cur) eqn:Et.
          + injection Hs as <- <-. exists 1. split; [lia|]. apply reaches_step.
            rewrite fstep_putw by (auto using mid_resolve). unfold nstep. cbv zeta. rewrite Eb, Er, Eg, Et. reflexivity.
          + destruct (back_up teqb wld cur p) as [wb|] eqn:Ebk; [|discriminate].
            destruct (solo_check wb done i r p a res w1' Eb Er Hs) as (m & Hm & Hr).
            exists (1 + m). split; [lia|]. eapply reaches_trans; [|exact Hr]. apply reaches_step.
            rewrite fstep_putw by (auto using mid_resolve). unfold nstep. cbv zeta. rewrite Eb, Er, Eg, Et, Ebk. reflexivity.
        - destruct (solo_check wld done i r p a res w1' Eb Er Hs) as (m & Hm & Hr).
          exists (1 + m). split; [lia|]. eapply reaches_trans; [|exact Hr]. apply reaches_step.
          rewrite fstep_putw by (auto using mid_resolve). unfold nstep. cbv zeta. rewrite Eb, Er, Eg. reflexivity.
      Qed.

      (* all targets from i on: Work.resolve_remembered *)
      Lemma solo_resolve : forall n i wld done ress w',
        length b - i = n ->
        resolve_remembered teqb hc wld (skipn i b) (skipn i rem) = Ok (ress, w') ->
        exists m, m <= 3 * n + 1 /\ reaches k m (at_ wld (WResolve done i)) (at_ w' (WFinish (Some (done ++ ress)))).
      Proof.
        induction n as [|n IH]; intros i wld done ress w' Hlen Hr.
        - assert (nth_error b i = None) as Eb by (apply nth_error_None; lia).
          rewrite (skipn_nth_none _ _ Eb) in Hr. cbn [resolve_remembered] in Hr. injection Hr as <- <-.
          exists 1. split; [lia|]. apply reaches_step. rewrite fstep_putw by (auto using mid_resolve). unfold nstep. cbv zeta.
          rewrite Eb, app_nil_r. reflexivity.
        - destruct (nth_error b i) as [[p a]|] eqn:Eb; [|apply nth_error_None in Eb; lia].
          rewrite (skipn_nth_error _ _ _ Eb) in Hr. cbn [resolve_remembered] in Hr.
          destruct (nth_error rem i) as [r|] eqn:Er; [|rewrite (skipn_nth_none _ _ Er) in Hr; discriminate].
          rewrite (skipn_nth_error _ _ _ Er) in Hr.
          destruct (resolve_single teqb hc wld (fs_t r) p a) as [[res w1']|e] eqn:Es; [|discriminate].
          destruct (resolve_remembered teqb hc w1' (skipn (S i) b) (skipn (S i) rem)) as [[ress2 w2']|e] eqn:E2; [|discriminate].
          injection Hr as <- <-.
          destruct (solo_single wld done i r p a res w1' Eb Er Es) as (m1 & Hm1 & R1).
          destruct (IH (S i) w1' (done ++ [res]) ress2 w2' ltac:(lia) E2) as (m2 & Hm2 & R2).
          exists (m1 + m2). split; [lia|]. rewrite <- app_assoc in R2. eapply reaches_trans; eauto.
      Qed.

      (* no entry: Work.resolve_fresh *)
      Lemma solo_fresh : forall n i wld ress w',
        length b - i = n ->
        resolve_fresh teqb hc wld (skipn i b) = Ok (ress, w') ->
        exists m, m <= 3 * n + 1 /\ reaches k m (at_ wld (WFresh i)) (at_ w' (WFinish None)).
      Proof.
        induction n as [|n IH]; intros i wld ress w' Hlen Hr.
        - assert (nth_error b i = None) as Eb by (apply nth_error_None; lia).
          rewrite (skipn_nth_none _ _ Eb) in Hr. cbn [resolve_fresh] in Hr. injection Hr as <- <-.
          exists 1. split; [lia|]. apply reaches_step. rewrite fstep_putw by (auto using mid_fresh). unfold nstep. cbv zeta.
          rewrite Eb. reflexivity.
        - destruct (nth_error b i) as [[p a]|] eqn:Eb; [|apply nth_error_None in Eb; lia].
          rewrite (skipn_nth_error _ _ _ Eb) in Hr. cbn [resolve_fresh] in Hr.
          destruct (get_file_ticket teqb hc wld p a) as [cur|] eqn:Eg.
          + destruct (back_up teqb wld cur p) as [wb|] eqn:Ebk; [|discriminate].
            destruct (resolve_fresh teqb hc wb (skipn (S i) b)) as [[ress2 w2']|e] eqn:E2; [|discriminate].
            injection Hr as <- <-.
            destruct (IH (S i) wb ress2 w2' ltac:(lia) E2) as (m2 & Hm2 & R2).
            exists (1 + m2). split; [lia|]. eapply reaches_trans; [|exact R2]. apply reaches_step.
            rewrite fstep_putw by (auto using mid_fresh). unfold nstep. cbv zeta. rewrite Eb, Eg, Ebk. reflexivity.
          + destruct (resolve_fresh teqb hc wld (skipn (S i) b)) as [[ress2 w2']|e] eqn:E2; [|discriminate].
            injection Hr as <- <-.
            destruct (IH (S i) wld ress2 w2' ltac:(lia) E2) as (m2 & Hm2 & R2).
            exists (1 + m2). split; [lia|]. eapply reaches_trans; [|exact R2]. apply reaches_step.
            rewrite fstep_putw by (auto using mid_fresh). unfold nstep. cbv zeta. rewrite Eb, Eg. reflexivity.
      Qed.
    End Run.

    Lemma resolve_fresh_ress bb : forall (wld : world) ress w',
      resolve_fresh teqb hc wld bb = Ok (ress, w') -> ress = map (fun _ => NeedsRebuild) bb.
    Proof.
      induction bb as [|[p a] rest IH]; intros wld ress w'; cbn [resolve_fresh map].
      - intro H. injection H as <- _. reflexivity.
      - destruct (get_file_ticket teqb hc wld p a) as [cur|].
        + destruct (back_up teqb wld cur p) as [wb|]; [|discriminate].
          destruct (resolve_fresh teqb hc wb rest) as [[r2 w2']|] eqn:E; [|discriminate].
          intro H. injection H as <- _. f_equal. eapply IH; eauto.
        + destruct (resolve_fresh teqb hc wld rest) as [[r2 w2']|] eqn:E; [|discriminate].
          intro H. injection H as <- _. f_equal. eapply IH; eauto.
    Qed.

    (* the worker's whole fuel, from the state in which it waits and its producers have reported: Sched.work_step *)
    Theorem fine_worker_to_completion_node st :
      k < length (fn_workers st) -> wst_phase T (wsk st k) = WWait ->
      has_worked (fproj st) k = false ->
      (forall d, In d (deps pack k) -> sent_by st d = true /\ has_worked (fproj st) d = true) ->
      (forall tk, all_some (map (sreceived nl (fn_sent st)) (n_source_indices nd)) = Some tk ->
                  exists ress w', resolved_of T teqb hc (fn_world st) b h (hl tk) = Ok (ress, w')) ->
      let st' := frun pack blobs hists (repeat k (worker_fuel T b)) st in
      fproj st' = work_step pack blobs hists (fproj st) k /\ fn_workers st' = set_nth k wdone (fn_workers st).
    Proof.
      intros Hk Eph Hu Hdeps Hres. cbv zeta.
      assert (forallb (sent_by st) (deps pack k) = true) as Ed1.
      { apply forallb_forall. intros d Hd. apply Hdeps. exact Hd. }
      assert (forallb (has_worked (fproj st)) (deps pack k) = true) as Ed2.
      { apply forallb_forall. intros d Hd. apply Hdeps. exact Hd. }
      (* what Sched does *)
      assert (work_step pack blobs hists (fproj st) k =
              match all_some (map (sreceived nl (fn_sent st)) (n_source_indices nd)) with
              | None => fproj (finish_worker st k (fn_world st) None (Some (n_rule nd), TCanceled) [])
              | Some tk =>
                  match handle_rule teqb hc (fn_world st) b h (hl tk) (n_command nd) with
                  | (Ok wr, w', script) => fproj (finish_worker st k w' (Some (wr_tickets wr)) (Some (n_rule nd), TOk wr) script)
                  | (Err e, w', script) => fproj (finish_worker st k w' None (Some (n_rule nd), TErr e) script)
                  end
              end) as Ework.
      { unfold Sched.work_step. cbv zeta. rewrite Hu, Ed2, ltb_node', sub_node', Hn. cbn [negb].
        cbn [fproj ss_world ss_sent ss_res ss_commands]. fold nl b h.
        destruct (all_some (map (sreceived nl (fn_sent st)) (n_source_indices nd))) as [tk|].
        - destruct (handle_rule teqb hc (fn_world st) b h (hl tk) (n_command nd)) as [[[wr|e] w'] script]; reflexivity.
        - rewrite fproj_finish, app_nil_r. reflexivity. }
      rewrite Ework. clear Ework.
      (* the first step *)
      assert (fstep pack blobs hists st k =
              match all_some (map (sreceived nl (fn_sent st)) (n_source_indices nd)) with
              | None => Some (finish_worker st k (fn_world st) None (Some (n_rule nd), TCanceled) [])
              | Some tk =>
                  match alookup teqb h (hl tk) with
                  | Some rem => Some (putw st (fn_world st) (mk_wst T (WResolve [] 0) (Some (hl tk)) rem))
                  | None => Some (putw st (fn_world st) (mk_wst T (WFresh 0) (Some (hl tk)) []))
                  end
              end) as Efirst.
      { unfold Fine.fstep. cbv zeta. rewrite ltb_node', sub_node', Hn.
        pose proof Eph as E. unfold FineBasic.wsk in E. rewrite E. rewrite Ed1. cbn [negb]. fold nl h.
        unfold putw. rewrite set_world_same. reflexivity. }
      assert (forall w' o res script, phase_of T (finish_worker st k w' o res script) k = WDone) as Hdone.
      { intros. rewrite phase_of_wsk, finish_worker_self by exact Hk. reflexivity. }
      destruct (all_some (map (sreceived nl (fn_sent st)) (n_source_indices nd))) as [tk|] eqn:Etk.
      2:{ rewrite (reaches_fuel k 1 _ st _ (reaches_step _ _ _ Efirst)); [split; reflexivity | unfold worker_fuel; lia | apply Hdone]. }
      destruct (Hres tk eq_refl) as (ress & w' & Hr).
      rewrite (handle_rule_tail T teqb hc _ _ _ _ (n_command nd) _ _ Hr).
      (* the middle phases *)
      assert (exists m rem ro,
                m <= 3 * length b + 2 /\
                reaches k m st (putw st w' (mk_wst T (WFinish ro) (Some (hl tk)) rem)) /\
                ress = match ro with Some r => r | None => map (fun _ => NeedsRebuild) b end) as (m & rem & ro & Hm & Hreach & Eress).
      { unfold resolved_of in Hr. destruct (alookup teqb h (hl tk)) as [rem|] eqn:El.
        - destruct (solo_resolve st (Some (hl tk)) rem Hk (length b) 0 (fn_world st) [] ress w' ltac:(lia) Hr) as (m & Hm & R).
          exists (1 + m), rem, (Some ress). split; [lia|]. split; [|reflexivity].
          eapply reaches_trans; [apply reaches_step; exact Efirst | exact R].
        - destruct (solo_fresh st (Some (hl tk)) [] Hk (length b) 0 (fn_world st) ress w' ltac:(lia) Hr) as (m & Hm & R).
          exists (1 + m), [], None. split; [lia|]. split; [|exact (resolve_fresh_ress _ _ _ _ Hr)].
          eapply reaches_trans; [apply reaches_step; exact Efirst | exact R]. }
      (* the last step *)
      pose proof (fstep_putw st w' (WFinish ro) (Some (hl tk)) rem Hk (mid_finish ro)) as Elast.
      unfold nstep in Elast. cbv zeta in Elast. rewrite <- Eress in Elast.
      destruct (rule_tail w' b h (hl tk) (n_command nd) ress) as [[[wr|e] w''] script];
        rewrite (reaches_fuel k (m + 1) _ st _ (reaches_trans _ _ _ _ _ _ Hreach (reaches_step _ _ _ Elast)));
        try (split; reflexivity); try apply Hdone; unfold worker_fuel; lia.
    Qed.
  End Node.
End Solo.
