From Coq Require Import List Permutation Bool.
From Ruler Require Import SortList.
Import ListNotations.

Section SortFacts.
  Context {A : Type}.
  Variable leb : A -> A -> bool.
  Hypothesis leb_total : forall a b, leb a b = true \/ leb b a = true.
  Hypothesis leb_trans : forall a b c, leb a b = true -> leb b c = true -> leb a c = true.
  Hypothesis leb_antisym : forall a b, leb a b = true -> leb b a = true -> a = b.

  Inductive Sorted : list A -> Prop :=
  | Sorted_nil : Sorted []
  | Sorted_one x : Sorted [x]
  | Sorted_cons x y l : leb x y = true -> Sorted (y :: l) -> Sorted (x :: y :: l).

  Lemma Sorted_tail x l : Sorted (x :: l) -> Sorted l.
  Proof. inversion 1; subst; [constructor | assumption]. Qed.

  Lemma Sorted_head_le x l : Sorted (x :: l) -> Forall (fun y => leb x y = true) l.
  Proof.
    revert x; induction l as [|y l IH]; intros x H; [constructor|].
    inversion H as [| |? ? ? Hxy Hs]; subst. constructor; [exact Hxy|].
    specialize (IH y Hs). eapply Forall_impl; [|exact IH]. intros z Hz. eapply leb_trans; eauto.
  Qed.

  Lemma insert_perm x l : Permutation (insert leb x l) (x :: l).
  Proof.
    induction l as [|y l IH]; cbn [insert]; [reflexivity|].
    destruct (leb x y); [reflexivity|]. rewrite IH. apply perm_swap.
  Qed.

  Lemma sort_perm l : Permutation (sort leb l) l.
  Proof.
    induction l as [|x l IH]; cbn [sort]; [reflexivity|].
    rewrite insert_perm. constructor. exact IH.
  Qed.

  Lemma insert_sorted x l : Sorted l -> Sorted (insert leb x l).
  Proof.
    induction l as [|y l IH]; intros H; cbn [insert]; [constructor|].
    destruct (leb x y) eqn:E.
    - constructor; assumption.
    - assert (leb y x = true) as Hyx by (destruct (leb_total x y); congruence).
      specialize (IH (Sorted_tail _ _ H)).
      destruct l as [|z l]; cbn [insert] in *.
      + constructor; [exact Hyx | constructor].
      + destruct (leb x z) eqn:Ez.
        * constructor; [exact Hyx | exact IH].
        * inversion H; subst. constructor; assumption.
  Qed.

  Lemma sort_sorted l : Sorted (sort leb l).
  Proof. induction l as [|x l IH]; cbn [sort]; [constructor | apply insert_sorted; exact IH]. Qed.

  (* two sorted lists with the same elements are equal (the order is antisymmetric) *)
  Lemma Sorted_perm_eq l1 l2 : Sorted l1 -> Sorted l2 -> Permutation l1 l2 -> l1 = l2.
  Proof.
    revert l2; induction l1 as [|x l1 IH]; intros l2 H1 H2 P.
    - apply Permutation_nil in P. congruence.
    - destruct l2 as [|y l2]; [apply Permutation_sym, Permutation_nil in P; discriminate|].
      assert (x = y) as ->.
      { pose proof (Sorted_head_le _ _ H1) as L1. pose proof (Sorted_head_le _ _ H2) as L2.
        assert (In y (x :: l1)) as Iy by (eapply Permutation_in; [apply Permutation_sym; exact P | left; reflexivity]).
        assert (In x (y :: l2)) as Ix by (eapply Permutation_in; [exact P | left; reflexivity]).
        destruct Iy as [->|Iy]; [reflexivity|]. destruct Ix as [->|Ix]; [reflexivity|].
        rewrite Forall_forall in L1, L2. apply leb_antisym; auto. }
      f_equal. apply IH; [eapply Sorted_tail; eauto | eapply Sorted_tail; eauto |].
      eapply Permutation_cons_inv; exact P.
  Qed.

  Theorem sort_perm_invariant l1 l2 : Permutation l1 l2 -> sort leb l1 = sort leb l2.
  Proof.
    intros P. apply Sorted_perm_eq; try apply sort_sorted.
    rewrite !sort_perm. exact P.
  Qed.

  Theorem sort_eq_iff_perm l1 l2 : sort leb l1 = sort leb l2 <-> Permutation l1 l2.
  Proof.
    split; [|apply sort_perm_invariant].
    intros E. rewrite <- (sort_perm l1), <- (sort_perm l2), E. reflexivity.
  Qed.

  Lemma sort_idempotent l : sort leb (sort leb l) = sort leb l.
  Proof. apply sort_perm_invariant, sort_perm. Qed.

  Lemma sort_of_sorted l : Sorted l -> sort leb l = l.
  Proof. intros H. apply Sorted_perm_eq; [apply sort_sorted | exact H | apply sort_perm]. Qed.

  Lemma sort_in x l : In x (sort leb l) <-> In x l.
  Proof. split; apply Permutation_in; [apply sort_perm | apply Permutation_sym, sort_perm]. Qed.

  Lemma sort_length l : length (sort leb l) = length l.
  Proof. apply Permutation_length, sort_perm. Qed.

  Lemma sort_NoDup l : NoDup l -> NoDup (sort leb l).
  Proof. intros H. eapply Permutation_NoDup; [apply Permutation_sym, sort_perm | exact H]. Qed.
End SortFacts.
