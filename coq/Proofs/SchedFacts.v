(* SCHED, part 5 — C06: the outcome of a build does not depend on the order in which the rule threads work.
   S2: C01 for every valid order; S3: same verdict and same workspace contents for any two valid orders;
   the closed instances for the free symbolic hashes; a concrete example.
   (S1 is in SchedSerial.v, S4 in SchedBasic.v, the invariant in SchedInv.v, one rule thread in SchedRule.v.) *)
From Coq Require Import String Ascii.
From Coq Require Import Relations.Relation_Operators Relations.Operators_Properties.
From Ruler Require Import Tactics Bytes AList RuleSyntax Parser TopoSort TopoSpec World Cmdlang Work Build Ops Inv
     BuildSpec Ideal Sched BytesFacts InvFacts TableFrame BuildFacts TopoSortFacts C01Script C01Hist C01Build C01Plan C01Facts
     C04Facts SchedBasic SchedSerial SchedRule SchedInv.
Local Open Scope nat_scope.

Lemma flat_map_nth_ext {A B} (f : A -> list B) (d : A) : forall l l',
  length l = length l' -> (forall k, k < length l -> f (nth k l d) = f (nth k l' d)) -> flat_map f l = flat_map f l'.
Proof.
  induction l as [|x l IH]; intros [|y l'] Hlen H; cbn in Hlen; try discriminate; [reflexivity|].
  cbn [flat_map]. f_equal.
  - apply (H 0). cbn. lia.
  - apply IH; [lia|]. intros k Hk. apply (H (S k)). cbn. lia.
Qed.

Section Final.
  Variable T : Type.
  Variable teqb : T -> T -> bool.
  Variable hc : bytes -> T.
  Variable hl : list T -> T.
  Variable hr : rule -> T.
  Hypothesis teqb_spec : forall a b, teqb a b = true <-> a = b.
  Hypothesis hc_inj : forall a b, hc a = hc b -> a = b.
  Hypothesis hl_inj : forall a b, hl a = hl b -> a = b.
  Hypothesis hr_inj : forall a b, hr a = hr b -> a = b.

  Notation world := (world T).
  Notation disk_inv := (disk_inv teqb hc).
  Notation blob_ok := (InvProofs.blob_ok T teqb hc).
  Notation hist_ok := (hist_ok T teqb hc hl).
  Notation hist_sound := (hist_sound T teqb hc hl hr).
  Notation bo := (build_ord teqb hc hl hr).
  Notation b := (build teqb hc hl hr).
  Notation work_step := (work_step teqb hc hl).

  (* ---------- build_ord, unfolded ---------- *)

  Definition unopt {A} (o : option A) : list A := match o with Some r => [r] | None => [] end.

  Definition joined_ord (t' : table T) (st1 : sstate T) : join_state T :=
    fold_left (join_one T teqb hr) (flat_map unopt (ss_res st1)) (mk_js T (ss_world st1) t' [] []).

  (* no work step reads the table file (repair of F6: the workers start from the world in which main has saved
     what they leave of the table): a work step commutes with replacing that file *)
  Definition ss_st (x : option (sf (table T))) (st : sstate T) : sstate T :=
    mk_ss (set_tbl T (ss_world st) x) (ss_sent st) (ss_res st) (ss_commands st).

  Lemma work_step_st x pack blobs hists st k :
    work_step pack blobs hists (ss_st x st) k = ss_st x (work_step pack blobs hists st k).
  Proof.
    unfold Sched.work_step, Sched.has_worked. cbv zeta. cbn [ss_st ss_world ss_sent ss_res ss_commands].
    destruct (nth k (ss_res st) None); [reflexivity|].
    destruct (negb (forallb (fun k0 => match nth k0 (ss_res st) None with Some _ => true | None => false end)
                            (deps pack k))); [reflexivity|].
    destruct (Nat.ltb k (length (p_leaves pack))).
    - rewrite handle_leaf_st. destruct (handle_leaf teqb hc (ss_world st) (nth k blobs [])); reflexivity.
    - destruct (nth_error (p_nodes pack) (k - length (p_leaves pack))) as [n|]; [|reflexivity].
      destruct (all_some _) as [tickets|]; [|reflexivity].
      rewrite handle_rule_st.
      destruct (handle_rule teqb hc (ss_world st) (nth k blobs []) (nth (k - length (p_leaves pack)) hists [])
                            (hl tickets) (n_command n)) as [[res w'] s].
      unfold lo. cbn [fst snd]. destruct res; reflexivity.
  Qed.

  Lemma work_steps_st x pack blobs hists ord : forall st,
    fold_left (work_step pack blobs hists) ord (ss_st x st) = ss_st x (fold_left (work_step pack blobs hists) ord st).
  Proof.
    induction ord as [|k ord IH]; intro st; cbn [fold_left]; [reflexivity|].
    rewrite work_step_st. apply IH.
  Qed.

  Lemma build_ord_eq ord (w : world) rp goal w1 t pack hists blobs t' :
    init_dir T w = Ok (w1, t) -> get_nodes T w1 rp goal = Ok pack ->
    read_histories T teqb hr w1 (p_nodes pack) = Some hists ->
    take_blobs T hc t (worker_paths pack) = (blobs, t') ->
    bo ord w rp goal =
    let st1 := fold_left (work_step pack blobs hists) ord (st_init T w1 pack) in
    let js := joined_ord t' st1 in
    mk_outcome (write_table T (js_world T js) (js_table T js))
               (match js_errors T js with [] => VOk | es => VWorkErrors es end)
               (ss_commands st1) (js_status T js).
  Proof.
    intros Hi Hg Hh Htb. unfold build_ord. rewrite Hi, Hg, Hh, Htb. cbv zeta.
    change (mk_ss (write_table T w1 t') (repeat None (nworkers pack)) (repeat None (nworkers pack)) [])
      with (ss_st (Some (SF_ok t')) (st_init T w1 pack)).
    rewrite work_steps_st. unfold joined_ord. cbn [ss_st ss_world ss_sent ss_res ss_commands].
    set (st1 := fold_left (work_step pack blobs hists) ord (st_init T w1 pack)).
    change (mk_js T (set_tbl T (ss_world st1) (Some (SF_ok t'))) t' [] [])
      with (js_st T (Some (SF_ok t')) (mk_js T (ss_world st1) t' [] [])).
    rewrite (join_all_st T teqb hr). reflexivity.
  Qed.

  Definition errs_of (st : sstate T) : list work_err :=
    flat_map (fun o : option (option rule * thread_result T) =>
                match o with Some (_, TErr e) => [e] | _ => [] end) (ss_res st).

  Lemma joined_errors t' st1 : js_errors T (joined_ord t' st1) = errs_of st1.
  Proof.
    unfold joined_ord. rewrite (C04Facts.join_all_errors T teqb hr). cbn [js_errors app]. unfold errs_of.
    induction (ss_res st1) as [|o l IH]; [reflexivity|]. cbn [flat_map]. rewrite flat_map_app, IH. f_equal.
    destruct o as [[r tr]|]; [|reflexivity]. cbn. unfold result_errors. cbn [snd]. destruct tr; reflexivity.
  Qed.

  Lemma joined_content t' st1 p :
    content_at (write_table T (js_world T (joined_ord t' st1)) (js_table T (joined_ord t' st1))) p =
    content_at (ss_world st1) p.
  Proof.
    apply content_at_files. cbn. unfold joined_ord. rewrite (C01Build.join_all_files T teqb hr). reflexivity.
  Qed.

  (* ---------- the hypotheses of the invariant, from those of the theorems ---------- *)

  Lemma take_blobs_ok pathss : forall (w : world) t blobs t',
    clock_ok teqb w -> InvProofs.tbl_ok T teqb hc w t -> take_blobs T hc t pathss = (blobs, t') ->
    (forall bl, In bl blobs -> blob_ok w bl) /\ InvProofs.tbl_ok T teqb hc w t'.
  Proof.
    induction pathss as [|ps rest IH]; intros w t blobs t' Hk Ht; cbn [take_blobs].
    - intro H. injection H as <- <-. split; [intros bl [] | exact Ht].
    - destruct (take_blob T hc t ps) as [b1 t1] eqn:E1. destruct (take_blobs T hc t1 rest) as [bs t2] eqn:E2.
      intro H. injection H as <- <-.
      destruct (InvProofs.take_blob_ok T teqb hc teqb_spec _ _ _ _ _ Ht E1) as [Hb1 Ht1].
      destruct (IH _ _ _ _ Hk Ht1 E2) as [Hbs Ht2]. split; [|exact Ht2].
      intros bl [<- | Hin]; [exact Hb1 | apply Hbs; exact Hin].
  Qed.

  Section Setup.
    Variable w w1 : world.
    Variable rp : bytes.
    Variable goal : option bytes.
    Variable tbl : table T.
    Variable pack : node_pack.
    Variable hists : list (history T).
    Variable blobs : list (blob T).
    Variable t' : table T.
    Hypothesis Hinv : disk_inv w.
    Hypothesis Hhs : hist_sound w.
    Hypothesis Hi : init_dir T w = Ok (w1, tbl).
    Hypothesis Hg : get_nodes T w1 rp goal = Ok pack.
    Hypothesis Hdet : Forall det_node (p_nodes pack).
    Hypothesis Hh : read_histories T teqb hr w1 (p_nodes pack) = Some hists.
    Hypothesis Htb : take_blobs T hc tbl (worker_paths pack) = (blobs, t').

    Lemma setup_inv1 : disk_inv w1.
    Proof.
      destruct (InvProofs.init_dir_rs_inv T teqb hc teqb_spec _ _ _ Hinv Hi) as [Hs _].
      exact (inv_steps T teqb hc teqb_spec _ _ Hinv Hs).
    Qed.

    Lemma setup_files : forall p, content_at w1 p = content_at w p.
    Proof. apply content_at_files. exact (init_dir_files T teqb _ _ _ Hi). Qed.

    Lemma setup_cache : cache_of w1 <> None.
    Proof. destruct (init_dir_ok T teqb _ _ _ Hi) as (_ & _ & H & _). exact H. Qed.

    Lemma setup_wf : plan_wf pack.
    Proof. eapply get_nodes_plan_wf; eauto. Qed.

    Lemma setup_shape : blobs_shaped T pack blobs.
    Proof. unfold blobs_shaped. eapply take_blobs_shaped; eauto. Qed.

    Lemma setup_blobs : forall k, blob_ok w1 (nth k blobs []).
    Proof.
      intro k. destruct (InvProofs.init_dir_rs_inv T teqb hc teqb_spec _ _ _ Hinv Hi) as [_ Ht].
      assert (clock_ok teqb w1) as Hk by apply setup_inv1.
      destruct (take_blobs_ok _ _ _ _ _ Hk Ht Htb) as [Hall _].
      destruct (nth_in_or_default k blobs []) as [Hin | ->]; [apply Hall; exact Hin | intros p st []].
    Qed.

    Lemma setup_hists : forall j nd, nth_error (p_nodes pack) j = Some nd -> hist_ok (n_rule nd) (nth j hists []).
    Proof.
      intros j nd Hn.
      pose proof (hist_sound_sub T teqb hc hl hr _ _ (init_dir_hist_sub T teqb _ _ _ Hi) Hhs) as Hhs1.
      eapply read_history_ok; [exact Hhs1 | | exact (read_histories_nth T teqb hr pack w1 hists Hh j nd Hn)].
      rewrite Forall_forall in Hdet. apply Hdet. eapply nth_error_In; eauto.
    Qed.

    Definition final_st (ord : list nat) : sstate T :=
      fold_left (work_step pack blobs hists) ord (st_init T w1 pack).

    Lemma final_winv ord : winv T teqb hc hl w w1 pack hists (final_st ord).
    Proof.
      apply (winv_fold T teqb hc hl teqb_spec hc_inj hl_inj w w1 pack blobs hists setup_inv1 setup_files setup_cache
               setup_wf Hdet setup_shape setup_blobs setup_hists).
    Qed.

    Lemma final_worked ord : valid_order pack ord -> all_worked T pack (final_st ord).
    Proof. intros Hv k Hk. apply valid_all_worked; assumption. Qed.

    Lemma final_lens ord : lens T pack (final_st ord).
    Proof. apply (wi_lens _ _ _ _ _ _ _ _ _ (final_winv ord)). Qed.

    Lemma final_errs ord1 ord2 :
      valid_order pack ord1 -> valid_order pack ord2 -> errs_of (final_st ord1) = errs_of (final_st ord2).
    Proof.
      intros Hv1 Hv2. unfold errs_of.
      destruct (final_lens ord1) as [_ L1]. destruct (final_lens ord2) as [_ L2].
      apply (flat_map_nth_ext _ None); [congruence|]. intros k Hk. rewrite L1 in Hk.
      pose proof (winv_kind_det T teqb hc hl w w1 pack blobs hists setup_wf setup_blobs setup_hists _ _
                    (final_winv ord1) (final_winv ord2) (final_worked _ Hv1) (final_worked _ Hv2) k Hk) as E.
      unfold res_kind in E.
      destruct (nth k (ss_res (final_st ord1)) None) as [[r1 tr1]|];
        destruct (nth k (ss_res (final_st ord2)) None) as [[r2 tr2]|]; try discriminate; [|reflexivity].
      injection E as E. destruct tr1; destruct tr2; cbn in E; try discriminate; try reflexivity.
      injection E as ->. reflexivity.
    Qed.

    Lemma final_content ord1 ord2 :
      valid_order pack ord1 -> valid_order pack ord2 ->
      forall p, content_at (ss_world (final_st ord1)) p = content_at (ss_world (final_st ord2)) p.
    Proof.
      intros Hv1 Hv2.
      apply (winv_content_det T teqb hc hl hc_inj w w1 pack blobs hists setup_files setup_wf setup_blobs setup_hists _ _
               (final_winv ord1) (final_winv ord2) (final_worked _ Hv1) (final_worked _ Hv2)).
    Qed.
  End Setup.

  (* ================================================================== *)
  (* S3: the main theorem                                                 *)
  (* ================================================================== *)

  Theorem build_ord_schedule_independent : forall (w : world) rp goal w1 tbl pack ord1 ord2,
    disk_inv w -> hist_sound w ->
    init_dir T w = Ok (w1, tbl) -> get_nodes T w1 rp goal = Ok pack ->
    Forall det_node (p_nodes pack) -> valid_order pack ord1 -> valid_order pack ord2 ->
    o_verdict (bo ord1 w rp goal) = o_verdict (bo ord2 w rp goal) /\
    forall p, content_at (o_world (bo ord1 w rp goal)) p = content_at (o_world (bo ord2 w rp goal)) p.
  Proof.
    intros w rp goal w1 tbl pack ord1 ord2 Hinv Hhs Hi Hg Hdet Hv1 Hv2.
    destruct (read_histories T teqb hr w1 (p_nodes pack)) as [hists|] eqn:Hh.
    2:{ unfold build_ord. rewrite Hi, Hg, Hh. split; reflexivity. }
    destruct (take_blobs T hc tbl (worker_paths pack)) as [blobs t'] eqn:Htb.
    rewrite !(build_ord_eq _ _ _ _ _ _ _ _ _ _ Hi Hg Hh Htb). cbv zeta. cbn [o_verdict o_world].
    fold (final_st w1 pack hists blobs ord1). fold (final_st w1 pack hists blobs ord2).
    rewrite !joined_errors.
    rewrite (final_errs w w1 rp goal tbl pack hists blobs t' Hinv Hhs Hi Hg Hdet Hh Htb ord1 ord2 Hv1 Hv2).
    split; [reflexivity|]. intro p. rewrite !joined_content.
    apply (final_content w w1 rp goal tbl pack hists blobs t' Hinv Hhs Hi Hg Hdet Hh Htb ord1 ord2 Hv1 Hv2).
  Qed.

  (* ================================================================== *)
  (* S2: C01 for every valid order                                        *)
  (* ================================================================== *)

  Theorem build_ord_equals_scratch : forall (w : world) rp goal w1 tbl pack ord,
    disk_inv w -> hist_sound w ->
    init_dir T w = Ok (w1, tbl) -> get_nodes T w1 rp goal = Ok pack ->
    Forall det_node (p_nodes pack) -> valid_order pack ord ->
    o_verdict (bo ord w rp goal) = VOk ->
    forall t, In t (plan_targets pack) ->
      content_at (o_world (bo ord w rp goal)) t = content_at (scratch_world w pack) t.
  Proof.
    intros w rp goal w1 tbl pack ord Hinv Hhs Hi Hg Hdet Hv Hok t Ht.
    pose proof (get_nodes_plan_wf T _ _ _ _ Hg) as Hwf.
    destruct (build_ord_schedule_independent w rp goal w1 tbl pack ord (spawn_order pack) Hinv Hhs Hi Hg Hdet Hv
                (spawn_order_valid pack Hwf)) as [Ev Ec].
    rewrite (build_ord_spawn_order T teqb hc hl hr w rp goal w1 tbl pack Hi Hg) in Ev, Ec.
    rewrite Ec. apply (incremental_equals_scratch T teqb hc hl hr teqb_spec hc_inj hl_inj hr_inj w rp goal w1 tbl pack);
      auto. congruence.
  Qed.

  (* ================================================================== *)
  (* S5: the verdict, from the from-scratch specification alone           *)
  (* ================================================================== *)

  (* every leaf exists in w, and every node of the plan, run in plan order from `strip_targets w pack`, has a script
     whose exit codes are all 0 with at least one script line, and all its targets exist afterwards *)
  Definition scratch_success (w : world) (pack : node_pack) : Prop :=
    (forall l, In l (p_leaves pack) -> content_at w l <> None) /\
    forall j nd, nth_error (p_nodes pack) j = Some nd ->
      command_verdict (fst (run_script (scratch_from T (strip_targets w pack) (firstn j (p_nodes pack)))
                                       (script_lines (n_command nd)))) = None /\
      forall t, In t (n_targets nd) ->
        content_at (scratch_from T (strip_targets w pack) (firstn (S j) (p_nodes pack))) t <> None.

  Lemma scratch_success_spec w pack : scratch_success w pack <-> spec_success T w pack.
  Proof. reflexivity. Qed.

  Lemma get_nodes_targets_nonempty (w1 : world) rp goal pack :
    get_nodes T w1 rp goal = Ok pack -> forall j nd, nth_error (p_nodes pack) j = Some nd -> n_targets nd <> [].
  Proof.
    intros H j nd Hn. apply get_nodes_inv in H as (f & rs & _ & Hp & Ht).
    pose proof (parse_targets_nonempty _ _ Hp) as Hne.
    pose proof (c12_plan_correct _ _ _ Hne Ht) as (_ & Hscope & Hnode & _).
    destruct (Hnode j nd Hn) as (Etg & _).
    assert (In (n_rule nd) (map n_rule (p_nodes pack))) as Hin by (apply in_map; eapply nth_error_In; eauto).
    apply Hscope in Hin as (r & Hsc & E).
    assert (In r rs) as Hr by (eapply in_scope_in; eauto).
    rewrite Forall_forall in Hne. specialize (Hne r Hr).
    rewrite Etg, E. intro X. destruct (r_targets r) as [|x xs] eqn:Er; [contradiction|].
    assert (In x (r_targets (canon_rule r))) as Hx by (apply canon_targets_in; rewrite Er; left; reflexivity).
    rewrite X in Hx. destruct Hx.
  Qed.

  Lemma flat_map_nil {A B} (f : A -> list B) l : (forall x, In x l -> f x = []) -> flat_map f l = [].
  Proof.
    induction l as [|x l IH]; intro H; cbn [flat_map]; [reflexivity|].
    rewrite (H x (or_introl eq_refl)), IH; [reflexivity|]. intros y Hy. apply H. right. exact Hy.
  Qed.

  Lemma errs_of_nil pack (st : sstate T) :
    lens T pack st ->
    (errs_of st = [] <-> forall k e, k < nworkers pack -> res_kind T st k <> Some (KErr e)).
  Proof.
    intros [_ Hl]. unfold errs_of, res_kind. split.
    - intros Hnil k e Hk Hres.
      destruct (nth k (ss_res st) None) as [[r tr]|] eqn:E; [|discriminate]. injection Hres as Hres.
      destruct tr as [wr|e'|]; try discriminate. injection Hres as ->.
      assert (In e (flat_map (fun o : option (option rule * thread_result T) =>
                                match o with Some (_, TErr e0) => [e0] | _ => [] end) (ss_res st))) as Hin.
      { apply in_flat_map. exists (Some (r, TErr e)). split; [|left; reflexivity].
        rewrite <- E. apply nth_In. lia. }
      rewrite Hnil in Hin. destruct Hin.
    - intro H. apply flat_map_nil. intros o Ho. destruct o as [[r tr]|]; [|reflexivity].
      destruct tr as [wr|e|]; try reflexivity. exfalso.
      apply (In_nth _ _ None) in Ho as (k & Hk & E). apply (H k e); [lia|]. rewrite E. reflexivity.
  Qed.

  (* an unreadable history file of a rule of the plan: Build.build stops with a fatal error *)
  Lemma run_nodes_reads ns : forall st st',
    run_nodes T teqb hc hl hr st ns = Some st' ->
    forall nd, In nd ns -> read_history T teqb hr (rs_world T st) (n_rule nd) <> None.
  Proof.
    induction ns as [|n0 ns IH]; intros st st' H nd Hin; [destruct Hin|]. cbn [run_nodes] in H.
    destruct (run_node T teqb hc hl hr st n0) as [st1|] eqn:E1; [|discriminate].
    destruct Hin as [<- | Hin].
    - unfold run_node in E1. destruct (take_blob T hc (rs_table T st) (n_targets n0)) as [b0 t0].
      destruct (read_history T teqb hr (rs_world T st) (n_rule n0)); [discriminate | discriminate].
    - pose proof (BuildFacts.run_node_hist T teqb hc hl hr _ _ _ E1) as Hh. unfold hist_of in Hh.
      rewrite (read_history_same T teqb hr _ _ _ (eq_sym Hh)). eapply IH; eauto.
  Qed.

  Lemma build_unreadable (w : world) rp goal w1 t pack :
    init_dir T w = Ok (w1, t) -> get_nodes T w1 rp goal = Ok pack ->
    read_histories T teqb hr w1 (p_nodes pack) = None ->
    o_verdict (b w rp goal) = VFatal FHistory.
  Proof.
    intros Hi Hg Hh. rewrite (build_eq T teqb hc hl hr), Hi, Hg. cbv zeta.
    destruct (run_nodes T teqb hc hl hr (st_leaves T teqb hc w1 t pack) (p_nodes pack)) as [st2|] eqn:Er; [|reflexivity].
    exfalso. unfold read_histories in Hh. apply all_some_none_iff in Hh. apply in_map_iff in Hh as (nd & Hnone & Hin).
    apply (run_nodes_reads _ _ _ Er nd Hin). rewrite (st_leaves_world T teqb hc). exact Hnone.
  Qed.

  Section Verdict.
    Variable w w1 : world.
    Variable rp : bytes.
    Variable goal : option bytes.
    Variable tbl : table T.
    Variable pack : node_pack.
    Variable ord : list nat.
    Hypothesis Hinv : disk_inv w.
    Hypothesis Hhs : hist_sound w.
    Hypothesis Hi : init_dir T w = Ok (w1, tbl).
    Hypothesis Hg : get_nodes T w1 rp goal = Ok pack.
    Hypothesis Hdet : Forall det_node (p_nodes pack).
    Hypothesis Hv : valid_order pack ord.

    Lemma verdict_readable hists :
      read_histories T teqb hr w1 (p_nodes pack) = Some hists ->
      (o_verdict (bo ord w rp goal) = VOk <-> scratch_success w pack).
    Proof.
      intro Hh. destruct (take_blobs T hc tbl (worker_paths pack)) as [blobs t'] eqn:Htb.
      rewrite (build_ord_eq _ _ _ _ _ _ _ _ _ _ Hi Hg Hh Htb). cbv zeta. cbn [o_verdict].
      fold (final_st w1 pack hists blobs ord). rewrite joined_errors.
      pose proof (final_winv w w1 rp goal tbl pack hists blobs t' Hinv Hhs Hi Hg Hdet Hh Htb ord) as Hw.
      pose proof (final_worked w1 pack hists blobs ord Hv) as Ha.
      pose proof (wi_lens _ _ _ _ _ _ _ _ _ Hw) as Hl.
      pose proof (setup_wf w1 rp goal pack Hg) as Hwf.
      assert (cinv T pack (final_st w1 pack hists blobs ord)) as Hc.
      { apply fold_cinv; [exact Hwf | exact (setup_shape tbl pack blobs t' Htb)]. }
      pose proof (setup_files w w1 tbl Hi) as Hfiles.
      pose proof (setup_blobs w w1 tbl pack blobs t' Hinv Hi Htb) as Hblobs.
      pose proof (setup_hists w w1 tbl pack hists Hhs Hi Hdet Hh) as Hhok.
      rewrite scratch_success_spec.
      assert (errs_of (final_st w1 pack hists blobs ord) = [] <-> spec_success T w pack) as Hiff.
      { rewrite (errs_of_nil pack _ Hl). split.
        - intro Hnoerr.
          apply (ok_spec_success T teqb hc hl hc_inj w w1 pack blobs hists Hfiles Hwf Hdet Hblobs Hhok _ Hw Ha
                   (get_nodes_targets_nonempty _ _ _ _ Hg)).
          apply (kinds_no_cancel T teqb hc hl w1 pack blobs hists Hwf Hblobs Hhok _ Hc Ha Hnoerr).
        - intros Hs k e Hk.
          rewrite (spec_success_ok T teqb hc hl w w1 pack blobs hists Hwf Hblobs Hhok _ Hw Hc Ha Hs k Hk). discriminate. }
      rewrite <- Hiff. destruct (errs_of (final_st w1 pack hists blobs ord)); split; try reflexivity; discriminate.
    Qed.

    (* the corrected S5: for a build that can read the history file of every rule of its plan *)
    Theorem build_ord_verdict_scratch_corrected :
      read_histories T teqb hr w1 (p_nodes pack) <> None ->
      (o_verdict (bo ord w rp goal) = VOk <-> scratch_success w pack).
    Proof.
      intro Hne. destruct (read_histories T teqb hr w1 (p_nodes pack)) as [hists|] eqn:Hh; [|contradiction].
      apply (verdict_readable hists). exact Hh.
    Qed.

    (* without that hypothesis one direction remains *)
    Theorem build_ord_verdict_scratch_partial :
      o_verdict (bo ord w rp goal) = VOk -> scratch_success w pack.
    Proof.
      destruct (read_histories T teqb hr w1 (p_nodes pack)) as [hists|] eqn:Hh.
      - apply (verdict_readable hists). exact Hh.
      - unfold build_ord. rewrite Hi, Hg, Hh. rewrite (build_unreadable _ _ _ _ _ _ Hi Hg Hh). discriminate.
    Qed.
  End Verdict.
End Final.

(* ================================================================== *)
(* S4 at the level of build_ord's own spawn phase                      *)
(* ================================================================== *)

Section Containment.
  Variable T : Type.
  Variable teqb : T -> T -> bool.
  Variable hc : bytes -> T.
  Variable hl : list T -> T.

  (* the hypotheses of sched_failure_containment hold for the plan, the blobs and the initial state that
     build_ord uses *)
  Theorem sched_failure_containment_build : forall (w1 : world T) rp goal pack (t : table T) blobs t' hists ord,
    get_nodes T w1 rp goal = Ok pack -> take_blobs T hc t (worker_paths pack) = (blobs, t') ->
    valid_order pack ord ->
    let st1 := fold_left (work_step teqb hc hl pack blobs hists) ord (mk_ss w1 (repeat None (nworkers pack)) (repeat None (nworkers pack)) []) in
    forall k, k < nworkers pack ->
      exists r tr,
        nth k (ss_res st1) None = Some (r, tr) /\
        (nth k (ss_sent st1) None = Some None <-> (tr = TCanceled \/ exists e, tr = TErr e)) /\
        (forall wr, tr = TOk wr -> nth k (ss_sent st1) None = Some (Some (wr_tickets wr))) /\
        (k < length (p_leaves pack) -> tr <> TCanceled) /\
        (length (p_leaves pack) <= k ->
         (tr = TCanceled <-> exists d, In d (deps pack k) /\ nth d (ss_sent st1) None = Some None)).
  Proof.
    intros w1 rp goal pack t blobs t' hists ord Hg Htb Hv.
    apply (sched_failure_containment T teqb hc hl pack blobs hists w1 ord (get_nodes_plan_wf T _ _ _ _ Hg)); [|exact Hv].
    unfold blobs_shaped. eapply take_blobs_shaped; eauto.
  Qed.
End Containment.

(* ================================================================== *)
(* S6: the free symbolic hashes                                         *)
(* ================================================================== *)

Notation build_ord_sym := (build_ord sym_eqb SContent SList SRule).

Theorem build_ord_spawn_order_sym : forall (w : world sym) rp goal w1 t pack,
  init_dir sym w = Ok (w1, t) -> get_nodes sym w1 rp goal = Ok pack ->
  build_ord_sym (spawn_order pack) w rp goal = build_sym w rp goal.
Proof. exact (build_ord_spawn_order sym sym_eqb SContent SList SRule). Qed.

Theorem build_ord_equals_scratch_sym : forall (w : world sym) rp goal w1 tbl pack ord,
  disk_inv sym_eqb SContent w -> hist_sound_sym w ->
  init_dir sym w = Ok (w1, tbl) -> get_nodes sym w1 rp goal = Ok pack ->
  Forall det_node (p_nodes pack) -> valid_order pack ord ->
  o_verdict (build_ord_sym ord w rp goal) = VOk ->
  forall t, In t (plan_targets pack) ->
    content_at (o_world (build_ord_sym ord w rp goal)) t = content_at (scratch_world w pack) t.
Proof.
  exact (build_ord_equals_scratch sym sym_eqb SContent SList SRule sym_eqb_spec SContent_inj SList_inj SRule_inj).
Qed.

Theorem build_ord_schedule_independent_sym : forall (w : world sym) rp goal w1 tbl pack ord1 ord2,
  disk_inv sym_eqb SContent w -> hist_sound_sym w ->
  init_dir sym w = Ok (w1, tbl) -> get_nodes sym w1 rp goal = Ok pack ->
  Forall det_node (p_nodes pack) -> valid_order pack ord1 -> valid_order pack ord2 ->
  o_verdict (build_ord_sym ord1 w rp goal) = o_verdict (build_ord_sym ord2 w rp goal) /\
  forall p, content_at (o_world (build_ord_sym ord1 w rp goal)) p = content_at (o_world (build_ord_sym ord2 w rp goal)) p.
Proof.
  exact (build_ord_schedule_independent sym sym_eqb SContent SList SRule sym_eqb_spec SContent_inj SList_inj).
Qed.

Theorem sched_failure_containment_sym : forall pack (blobs : list (blob sym)) hists (w1 : world sym) ord,
  plan_wf pack -> blobs_shaped sym pack blobs -> valid_order pack ord ->
  let st1 := fold_left (work_step sym_eqb SContent SList pack blobs hists) ord (st_init sym w1 pack) in
  forall k, k < nworkers pack ->
    exists r tr,
      nth k (ss_res st1) None = Some (r, tr) /\
      (sent_cancel sym st1 k <-> (tr = TCanceled \/ exists e, tr = TErr e)) /\
      (forall wr, tr = TOk wr -> nth k (ss_sent st1) None = Some (Some (wr_tickets wr))) /\
      (k < length (p_leaves pack) -> tr <> TCanceled) /\
      (length (p_leaves pack) <= k ->
       (tr = TCanceled <-> exists d, In d (deps pack k) /\ sent_cancel sym st1 d)).
Proof. exact (sched_failure_containment sym sym_eqb SContent SList). Qed.

(* ================================================================== *)
(* a concrete history on which everything above is exercised            *)
(* ================================================================== *)

(* rules: a <- s, b <- a, c <- a (b and c independent, and they produce byte-identical files).
   History: build with s = "1", change s to "2", build, change s back to "1".  The build under test finds an
   entry for every key, a is recovered from the cache, b and c (identical content, one cache slot) re-run. *)
Definition ex_ops : list (op sym) :=
  [OWrite (bs "s") (bs "1"); OWrite RULES_PATH cx_rules2; OBuild None;
   OWrite (bs "s") (bs "2"); OBuild None; OWrite (bs "s") (bs "1")].

Definition ex_w : world sym := run_sym ex_ops (init_world Fine 1).
Definition ex_w1 : world sym := match init_dir sym ex_w with Ok (w1, _) => w1 | Err _ => ex_w end.
Definition ex_tbl : table sym := match init_dir sym ex_w with Ok (_, t) => t | Err _ => [] end.

Definition build_detb (w : world sym) (goal : option bytes) : bool :=
  match init_dir sym w with
  | Ok (w1, _) => match get_nodes sym w1 RULES_PATH goal with
                  | Ok pack => forallb det_nodeb (p_nodes pack)
                  | Err _ => true
                  end
  | Err _ => true
  end.

Lemma build_detb_sound w goal : build_detb w goal = true -> build_det sym w goal.
Proof.
  unfold build_detb. intros H w1 tbl pack Hi Hg. rewrite Hi, Hg in H. apply det_nodesb_sound. exact H.
Qed.

Lemma ex_det_history : det_history_sym (init_world Fine 1) ex_ops.
Proof.
  unfold ex_ops. cbn [det_history].
  repeat match goal with
         | |- _ /\ _ => split
         | |- InvProofs.safe_op _ _ => exact I
         | |- True => exact I
         | |- op_det _ _ (OBuild _) => cbn [op_det]; apply build_detb_sound; vm_compute; reflexivity
         | |- op_det _ _ _ => exact I
         end.
Qed.

Lemma ex_inv : disk_inv sym_eqb SContent ex_w /\ hist_sound_sym ex_w.
Proof. apply (reach_hist_sound_partial_sym 1 ex_ops); exact ex_det_history. Qed.

Lemma ex_init : init_dir sym ex_w = Ok (ex_w1, ex_tbl).
Proof. vm_compute. reflexivity. Qed.

Lemma ex_nodes : get_nodes sym ex_w1 RULES_PATH None = Ok cx_pack.
Proof. vm_compute. reflexivity. Qed.

Example ex_orders_valid : valid_order cx_pack [0; 1; 3; 2] /\ valid_order cx_pack [0; 1; 2; 3].
Proof. split; reflexivity. Qed.

Example ex_orders_differ : [0; 1; 3; 2] <> [0; 1; 2; 3].
Proof. discriminate. Qed.

(* the hypotheses of S3 hold, so its conclusion does *)
Example ex_schedule_independent :
  o_verdict (build_ord_sym [0; 1; 3; 2] ex_w RULES_PATH None) = o_verdict (build_ord_sym [0; 1; 2; 3] ex_w RULES_PATH None) /\
  forall p, content_at (o_world (build_ord_sym [0; 1; 3; 2] ex_w RULES_PATH None)) p =
            content_at (o_world (build_ord_sym [0; 1; 2; 3] ex_w RULES_PATH None)) p.
Proof.
  destruct ex_inv as [Hinv Hhs]. destruct ex_orders_valid as [V1 V2].
  exact (build_ord_schedule_independent_sym ex_w RULES_PATH None ex_w1 ex_tbl cx_pack _ _ Hinv Hhs ex_init ex_nodes cx_det V1 V2).
Qed.

(* ... and it is not vacuous: the two schedules do different things (the script lines are executed in a
   different order, the caches differ), the verdict is success, the files are the from-scratch ones *)
Example ex_commands_differ :
  o_commands (build_ord_sym [0; 1; 3; 2] ex_w RULES_PATH None) <> o_commands (build_ord_sym [0; 1; 2; 3] ex_w RULES_PATH None).
Proof. vm_compute. discriminate. Qed.

Example ex_values :
  o_verdict (build_ord_sym [0; 1; 3; 2] ex_w RULES_PATH None) = VOk /\
  o_commands (build_ord_sym [0; 1; 3; 2] ex_w RULES_PATH None) = [bs "gen c @a"; bs "gen b @a"] /\
  o_commands (build_ord_sym [0; 1; 2; 3] ex_w RULES_PATH None) = [bs "gen b @a"; bs "gen c @a"] /\
  content_at (o_world (build_ord_sym [0; 1; 3; 2] ex_w RULES_PATH None)) (bs "c") = Some (bs "1") /\
  content_at (scratch_world ex_w cx_pack) (bs "c") = Some (bs "1").
Proof. vm_compute. repeat split; reflexivity. Qed.

Example ex_equals_scratch : forall t, In t (plan_targets cx_pack) ->
  content_at (o_world (build_ord_sym [0; 1; 3; 2] ex_w RULES_PATH None)) t = content_at (scratch_world ex_w cx_pack) t.
Proof.
  destruct ex_inv as [Hinv Hhs]. destruct ex_orders_valid as [V1 _]. destruct ex_values as [Hok _].
  exact (build_ord_equals_scratch_sym ex_w RULES_PATH None ex_w1 ex_tbl cx_pack _ Hinv Hhs ex_init ex_nodes cx_det V1 Hok).
Qed.

(* a failing schedule-independent verdict: the leaf is missing, every rule is canceled, in both orders *)
Definition ex_ops_fail : list (op sym) := [OWrite RULES_PATH cx_rules2].
Definition ex_wf : world sym := run_sym ex_ops_fail (init_world Fine 1).

Example ex_fail_values :
  o_verdict (build_ord_sym [0; 1; 3; 2] ex_wf RULES_PATH None) = VWorkErrors [WFileNotFound (bs "s")] /\
  o_verdict (build_ord_sym [0; 1; 2; 3] ex_wf RULES_PATH None) = VWorkErrors [WFileNotFound (bs "s")].
Proof. vm_compute. split; reflexivity. Qed.

(* ================================================================== *)
(* S5 for the symbolic hashes; the literal statement refuted            *)
(* ================================================================== *)

Theorem build_ord_verdict_scratch_corrected_sym : forall (w w1 : world sym) rp goal tbl pack ord,
  disk_inv sym_eqb SContent w -> hist_sound_sym w ->
  init_dir sym w = Ok (w1, tbl) -> get_nodes sym w1 rp goal = Ok pack ->
  Forall det_node (p_nodes pack) -> valid_order pack ord ->
  read_histories sym sym_eqb SRule w1 (p_nodes pack) <> None ->
  (o_verdict (build_ord_sym ord w rp goal) = VOk <-> scratch_success sym w pack).
Proof.
  exact (build_ord_verdict_scratch_corrected sym sym_eqb SContent SList SRule sym_eqb_spec SContent_inj SList_inj).
Qed.

Theorem build_ord_verdict_scratch_partial_sym : forall (w w1 : world sym) rp goal tbl pack ord,
  disk_inv sym_eqb SContent w -> hist_sound_sym w ->
  init_dir sym w = Ok (w1, tbl) -> get_nodes sym w1 rp goal = Ok pack ->
  Forall det_node (p_nodes pack) -> valid_order pack ord ->
  o_verdict (build_ord_sym ord w rp goal) = VOk -> scratch_success sym w pack.
Proof.
  exact (build_ord_verdict_scratch_partial sym sym_eqb SContent SList SRule sym_eqb_spec SContent_inj SList_inj).
Qed.

(* S5 as literally stated (hypotheses of S2 only) is false: the user damages the history file of rule a after a
   build; every hypothesis of S2 holds (a damaged file holds no entry, so the histories are sound), the
   from-scratch build succeeds, but the build stops with the fatal error "history unreadable" *)
Definition ex_rule_a : rule := match p_nodes cx_pack with nd :: _ => n_rule nd | [] => mk_rule [] [] [] end.

Definition ex_ops_bad : list (op sym) :=
  [OWrite (bs "s") (bs "1"); OWrite RULES_PATH cx_rules2; OBuild None; OSetHist (SRule ex_rule_a) SF_bad].

Definition ex_wb : world sym := run_sym ex_ops_bad (init_world Fine 1).
Definition ex_wb1 : world sym := match init_dir sym ex_wb with Ok (w1, _) => w1 | Err _ => ex_wb end.
Definition ex_tblb : table sym := match init_dir sym ex_wb with Ok (_, t) => t | Err _ => [] end.

Lemma ex_bad_det_history : det_history_sym (init_world Fine 1) ex_ops_bad.
Proof.
  unfold ex_ops_bad. cbn [det_history].
  split; [exact I|]. split; [exact I|]. split; [exact I|]. split; [exact I|]. split; [exact I|].
  split; [cbn [op_det]; apply build_detb_sound; vm_compute; reflexivity|].
  split; [exact I|]. split; exact I.
Qed.

Lemma ex_bad_inv : disk_inv sym_eqb SContent ex_wb /\ hist_sound_sym ex_wb.
Proof. apply (reach_hist_sound_partial_sym 1 ex_ops_bad); exact ex_bad_det_history. Qed.

Lemma ex_bad_init : init_dir sym ex_wb = Ok (ex_wb1, ex_tblb).
Proof. vm_compute. reflexivity. Qed.

Lemma ex_bad_nodes : get_nodes sym ex_wb1 RULES_PATH None = Ok cx_pack.
Proof. vm_compute. reflexivity. Qed.

Lemma ex_bad_verdict : o_verdict (build_ord_sym [0; 1; 2; 3] ex_wb RULES_PATH None) = VFatal FHistory.
Proof. vm_compute. reflexivity. Qed.

(* scratch_success, decidably *)
Definition presentb {T} (w : world T) (p : bytes) : bool :=
  match content_at w p with Some _ => true | None => false end.

Definition scratch_successb {T} (w : world T) (pack : node_pack) : bool :=
  forallb (presentb w) (p_leaves pack) &&
  forallb (fun j =>
             match nth_error (p_nodes pack) j with
             | None => true
             | Some nd =>
                 match command_verdict (fst (run_script (scratch_from T (strip_targets w pack) (firstn j (p_nodes pack)))
                                                        (script_lines (n_command nd)))) with
                 | None => forallb (presentb (scratch_from T (strip_targets w pack) (firstn (S j) (p_nodes pack)))) (n_targets nd)
                 | Some _ => false
                 end
             end) (seq 0 (length (p_nodes pack))).

Lemma presentb_true {T} (w : world T) p : presentb w p = true -> content_at w p <> None.
Proof. unfold presentb. destruct (content_at w p); [discriminate | discriminate]. Qed.

Lemma scratch_successb_sound {T} (w : world T) pack : scratch_successb w pack = true -> scratch_success T w pack.
Proof.
  unfold scratch_successb. intro H. apply andb_true_iff in H as [H1 H2]. rewrite forallb_forall in H1, H2. split.
  - intros l Hl. apply presentb_true. apply H1. exact Hl.
  - intros j nd Hn.
    assert (In j (seq 0 (length (p_nodes pack)))) as Hj.
    { apply in_seq. split; [lia|]. cbn. apply nth_error_Some. rewrite Hn. discriminate. }
    specialize (H2 j Hj). rewrite Hn in H2.
    destruct (command_verdict _); [discriminate|]. split; [reflexivity|].
    rewrite forallb_forall in H2. intros t Ht. apply presentb_true. apply H2. exact Ht.
Qed.

Lemma ex_bad_success : scratch_success sym ex_wb cx_pack.
Proof. apply scratch_successb_sound. vm_compute. reflexivity. Qed.

Theorem build_ord_verdict_scratch_refuted :
  ~ (forall (w w1 : world sym) rp goal tbl pack ord,
       disk_inv sym_eqb SContent w -> hist_sound_sym w ->
       init_dir sym w = Ok (w1, tbl) -> get_nodes sym w1 rp goal = Ok pack ->
       Forall det_node (p_nodes pack) -> valid_order pack ord ->
       (o_verdict (build_ord_sym ord w rp goal) = VOk <-> scratch_success sym w pack)).
Proof.
  intro H. destruct ex_bad_inv as [Hinv Hhs]. destruct ex_orders_valid as [_ V2].
  pose proof (proj2 (H ex_wb ex_wb1 RULES_PATH None ex_tblb cx_pack _ Hinv Hhs ex_bad_init ex_bad_nodes cx_det V2)
                ex_bad_success) as E.
  rewrite ex_bad_verdict in E. discriminate.
Qed.
