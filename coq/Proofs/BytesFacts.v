From Ruler Require Import Tactics Bytes.
Local Open Scope N_scope.

(* ---------- equality and order on byte strings ---------- *)

Lemma bytes_eqb_eq a b : bytes_eqb a b = true <-> a = b.
Proof.
  revert b; induction a as [|x a IH]; intros [|y b]; cbn [bytes_eqb]; split; intro H;
    try reflexivity; try discriminate.
  - apply andb_true_iff in H as [H1 H2]. apply N.eqb_eq in H1. apply IH in H2. congruence.
  - injection H as -> ->. apply andb_true_iff. split; [apply N.eqb_refl | apply IH; reflexivity].
Qed.

Lemma bytes_eqb_refl a : bytes_eqb a a = true.
Proof. apply bytes_eqb_eq; reflexivity. Qed.

Lemma bytes_eqb_neq a b : bytes_eqb a b = false <-> a <> b.
Proof.
  split; intro H.
  - intro E. apply bytes_eqb_eq in E. congruence.
  - destruct (bytes_eqb a b) eqn:E; [apply bytes_eqb_eq in E; contradiction | reflexivity].
Qed.

Lemma bytes_compare_eq a b : bytes_compare a b = Eq <-> a = b.
Proof.
  revert b; induction a as [|x a IH]; intros [|y b]; cbn [bytes_compare]; split; intro H;
    try reflexivity; try discriminate.
  - destruct (x ?= y) eqn:E; try discriminate. apply N.compare_eq_iff in E. apply IH in H. congruence.
  - injection H as -> ->. rewrite N.compare_refl. apply IH; reflexivity.
Qed.

Lemma bytes_compare_refl a : bytes_compare a a = Eq.
Proof. apply bytes_compare_eq; reflexivity. Qed.

Lemma bytes_compare_antisym a b : bytes_compare b a = CompOpp (bytes_compare a b).
Proof.
  revert b; induction a as [|x a IH]; intros [|y b]; cbn [bytes_compare]; try reflexivity.
  rewrite (N.compare_antisym x y). destruct (x ?= y); cbn; auto.
Qed.

Lemma bytes_compare_lt_trans a b c :
  bytes_compare a b = Lt -> bytes_compare b c = Lt -> bytes_compare a c = Lt.
Proof.
  revert b c; induction a as [|x a IH]; intros [|y b] [|z c]; cbn [bytes_compare]; intros H1 H2;
    try reflexivity; try discriminate.
  destruct (x ?= y) eqn:Exy; try discriminate.
  - apply N.compare_eq_iff in Exy; subst y.
    destruct (x ?= z) eqn:Exz; try discriminate; auto. eapply IH; eauto.
  - destruct (y ?= z) eqn:Eyz; try discriminate.
    + apply N.compare_eq_iff in Eyz; subst z. rewrite Exy; reflexivity.
    + change (x < y) in Exy. change (y < z) in Eyz.
      assert (x < z) as Hlt by lia. unfold N.lt in Hlt. rewrite Hlt; reflexivity.
Qed.

Lemma bytes_leb_refl a : bytes_leb a a = true.
Proof. unfold bytes_leb; rewrite bytes_compare_refl; reflexivity. Qed.

Lemma bytes_leb_total a b : bytes_leb a b = true \/ bytes_leb b a = true.
Proof.
  unfold bytes_leb. rewrite (bytes_compare_antisym a b).
  destruct (bytes_compare a b); cbn; auto.
Qed.

Lemma bytes_leb_trans a b c : bytes_leb a b = true -> bytes_leb b c = true -> bytes_leb a c = true.
Proof.
  unfold bytes_leb. intros H1 H2.
  destruct (bytes_compare a b) eqn:E1; try discriminate;
  destruct (bytes_compare b c) eqn:E2; try discriminate.
  - apply bytes_compare_eq in E1; subst. rewrite E2; reflexivity.
  - apply bytes_compare_eq in E1; subst. rewrite E2; reflexivity.
  - apply bytes_compare_eq in E2; subst. rewrite E1; reflexivity.
  - rewrite (bytes_compare_lt_trans _ _ _ E1 E2); reflexivity.
Qed.

Lemma bytes_leb_antisym a b : bytes_leb a b = true -> bytes_leb b a = true -> a = b.
Proof.
  unfold bytes_leb. rewrite (bytes_compare_antisym a b).
  destruct (bytes_compare a b) eqn:E; cbn; try discriminate; intros _ H; try discriminate.
  apply bytes_compare_eq; assumption.
Qed.

(* ---------- split / join ---------- *)

Lemma split_on_nonempty sep s : split_on sep s <> [].
Proof.
  induction s as [|c s IH]; cbn [split_on]; [discriminate|].
  destruct (c =? sep); [discriminate|]. destruct (split_on sep s); [contradiction | discriminate].
Qed.

Lemma split_on_no_sep sep s : Forall (fun p => ~ In sep p) (split_on sep s).
Proof.
  induction s as [|c s IH]; cbn [split_on].
  - constructor; [intros []|constructor].
  - destruct (c =? sep) eqn:E.
    + constructor; [intros []|exact IH].
    + destruct (split_on sep s) as [|p ps] eqn:Es.
      * constructor; [|constructor]. intros [H|[]]. apply N.eqb_neq in E; congruence.
      * inversion IH as [|? ? Hp Hps]; subst. constructor; [|exact Hps].
        intros [H|H]; [apply N.eqb_neq in E; congruence | contradiction].
Qed.

Lemma join_with_cons2 sep p q qs :
  join_with sep (p :: q :: qs) = p ++ sep ++ join_with sep (q :: qs).
Proof. reflexivity. Qed.

Lemma join_split sep s : join_with [sep] (split_on sep s) = s.
Proof.
  induction s as [|c s IH]; cbn [split_on]; [reflexivity|].
  pose proof (split_on_nonempty sep s) as Hne.
  destruct (c =? sep) eqn:E.
  - apply N.eqb_eq in E; subst c.
    destruct (split_on sep s) as [|p ps] eqn:Es; [contradiction|].
    rewrite join_with_cons2, IH. reflexivity.
  - destruct (split_on sep s) as [|p ps] eqn:Es; [contradiction|].
    destruct ps as [|q qs].
    + cbn [join_with] in *. rewrite IH; reflexivity.
    + rewrite join_with_cons2 in *. rewrite <- IH. reflexivity.
Qed.

(* splitting a text that is lines joined by the separator returns the lines *)
Lemma split_join sep (ls : list bytes) :
  ls <> [] -> Forall (fun p => ~ In sep p) ls -> split_on sep (join_with [sep] ls) = ls.
Proof.
  induction ls as [|l ls IH]; intros Hne Hall; [contradiction|].
  inversion Hall as [|? ? Hl Hls]; subst.
  destruct ls as [|l2 ls'].
  - cbn [join_with]. clear IH Hne Hall Hls.
    induction l as [|c l IHl]; cbn [split_on]; [reflexivity|].
    destruct (c =? sep) eqn:E; [apply N.eqb_eq in E; subst; exfalso; apply Hl; left; reflexivity|].
    rewrite IHl; [reflexivity|]. intro H; apply Hl; right; exact H.
  - specialize (IH ltac:(discriminate) Hls).
    change (join_with [sep] (l :: l2 :: ls')) with (l ++ [sep] ++ join_with [sep] (l2 :: ls')).
    clear Hall Hne. induction l as [|c l IHl].
    + cbn [app split_on]. rewrite N.eqb_refl. rewrite IH; reflexivity.
    + cbn [app split_on].
      destruct (c =? sep) eqn:E; [apply N.eqb_eq in E; subst; exfalso; apply Hl; left; reflexivity|].
      cbn [app] in IHl. rewrite IHl; [reflexivity|]. intro H; apply Hl; right; exact H.
Qed.

(* ---------- little-endian bytes <-> number ---------- *)

Lemma le_to_N_bound b : all_bytes b -> le_to_N b < 256 ^ N.of_nat (length b).
Proof.
  induction 1 as [|x b Hx Hb IH]; cbn [le_to_N length]; [cbn; lia|].
  rewrite Nat2N.inj_succ, N.pow_succ_r'. unfold is_byte in Hx. lia.
Qed.

Lemma N_to_le_length n v : length (N_to_le n v) = n.
Proof. revert v; induction n as [|n IH]; intros v; cbn [N_to_le length]; [reflexivity|]. rewrite IH; reflexivity. Qed.

Lemma N_to_le_bytes n v : all_bytes (N_to_le n v).
Proof.
  revert v; induction n as [|n IH]; intros v; cbn [N_to_le]; constructor.
  - unfold is_byte. apply N.mod_lt; lia.
  - apply IH.
Qed.

Lemma N_to_le_le_to_N b : all_bytes b -> N_to_le (length b) (le_to_N b) = b.
Proof.
  induction 1 as [|x b Hx Hb IH]; cbn [le_to_N length N_to_le]; [reflexivity|].
  unfold is_byte in Hx.
  assert (E1 : (x + 256 * le_to_N b) mod 256 = x) by lia.
  assert (E2 : (x + 256 * le_to_N b) / 256 = le_to_N b) by lia.
  rewrite E1, E2, IH; reflexivity.
Qed.

Lemma le_to_N_N_to_le n v : v < 256 ^ N.of_nat n -> le_to_N (N_to_le n v) = v.
Proof.
  revert v; induction n as [|n IH]; intros v Hv; cbn [N_to_le le_to_N].
  - change (256 ^ N.of_nat 0) with 1 in Hv. lia.
  - rewrite Nat2N.inj_succ, N.pow_succ_r' in Hv.
    rewrite IH; [lia|]. remember (256 ^ N.of_nat n) as K. lia.
Qed.
